"""C19 - cross-thread notifications are never lost or merged; shutdown terminates."""
import os

from nvlib import engine as E
from nvlib.check import Prop

KEYS = [0x1001, 0x1001, 0xC0701E, 7, 0x7FFFFFFF, 0xFFFFFFFF, 0x100000000, 1]
DATA = [0, 1, 5, 7, 13, 255, 0x7FFFFFFF, 0x80000000, 0xFFFFFFFF, 0x100000001]


class C19(Prop):
    id = "C19"
    title = "Cross-thread notifications are never lost or merged; shutdown terminates"
    lean_modules = ["NV.C19.Props", "NV.C19.PropsExt", "NV.C19.BlockedCounters", "NV.C19.LocksProps", "NV.C19.Eventfd", "NV.C19.Global",
                    "NV.C19.Witness",
                    "NV.C19.WitnessPoll", "NV.C19.Negative"]
    theorems = ["NV.C19.model_satisfies_spec", "NV.C19.posts_delivered_exactly_once", "NV.C19.posts_multiset_preserved",
                "NV.C19.post_refused_only_when_full", "NV.C19.no_lost_wakeup",
                "NV.C19.createProg_eq", "NV.C19.wrapper_stores_eq", "NV.C19.wait_order_eq", "NV.C19.post_order_eq",
                "NV.C19.join_poll_eq", "NV.C19.state_eventually_stopped_after_proc_returns",
                "NV.C19.timed_join_returns_true_after_stop", "NV.C19.posted_completion_wakes_next_wait",
                "NV.C19.queue_fifo_exactly_once", "NV.C19.queue_drop_policy", "NV.C19.queue_dequeue_oldest",
                "NV.C19.timed_join_bounded", "NV.C19.timed_join_progress",
                "NV.C19.timer_stop_terminates", "NV.C19.timer_stop_reaches_join", "NV.C19.no_callback_after_stop",
                # extension round: bridging lemmas of the extended translator
                "NV.C19.poll_backend_eq", "NV.C19.ring_shape_eq", "NV.C19.queue_shape_eq", "NV.C19.clear_signals_eq",
                "NV.C19.console_loop_eq", "NV.C19.console_queue_drops_oldest", "NV.C19.timer_order_eq",
                "NV.C19.hb_protocol_eq", "NV.C19.join_loop_eq",
                # ... and the theorems over all schedules
                "NV.C19.bell_value_irrelevant", "NV.C19.blocked_writers_fifo_exactly_once",
                "NV.C19.blocked_writers_counters",
                # lock discipline on every path of the function bodies regenerated from the clang AST
                "NV.C19.locked_functions_accepted", "NV.C19.lock_discipline_all_paths",
                "NV.C19.locked_functions_nontrivial", "NV.C19.chk_sound", "NV.C19.okBody_sound",
                "NV.C19.mutex_excludes_accesses",
                # eventfd counter bound as an explicit hypothesis
                "NV.C19.post_exact_below_overflow", "NV.C19.post_at_overflow_still_queued", "NV.C19.bell_le_steps",
                "NV.C19.no_doorbell_overflow",
                "NV.C19.no_writer_left_asleep", "NV.C19.waiting_writer_wakes", "NV.C19.woken_writer_pushes",
                "NV.C19.drained_queue_releases_a_writer", "NV.C19.drop_oldest_never_blocks",
                "NV.C19.console_worker_exits_after_stop", "NV.C19.console_worker_hangs_on_block_writer_queue",
                "NV.C19.console_chunk_enqueued_before_completion", "NV.C19.tick_never_lost",
                "NV.C19.owed_tick_starts_round"]
    # Lean-checked counterexamples of the full statements on the code as it was before the fix: commits
    witness_theorems = ["NV.C19.Old.eventfd_merges_posts", "NV.C19.Old.not_postsDeliveredFull",
                        "NV.C19.Old.eventfd_loses_zero_post", "NV.C19.Old.posts_delivered_partial",
                        "NV.C19.Old.join_enters_pthread_join_early", "NV.C19.Old.not_timedJoinBoundedFull",
                        "NV.C19.Old.join_hangs",
                        "NV.C19.Swapped.wakeup_erased", "NV.C19.Swapped.next_wait_sleeps", "NV.C19.Swapped.not_noLostWakeup",
                        "NV.C19.LateStore.state_stuck_running", "NV.C19.LateStore.stuck_forever",
                        "NV.C19.LateStore.join_times_out", "NV.C19.LateStore.not_stateStopped",
                        "NV.C19.OldPoll.wakeup_shifts_stream", "NV.C19.OldPoll.wakeup_shifts_stream_lost",
                        "NV.C19.OldPoll.beyond_max_dropped", "NV.C19.OldPoll.not_postsDeliveredFull",
                        "NV.C19.OldPoll.wide_key_cut", "NV.C19.OldPoll.posts_delivered_partial",
                        "NV.C19.ClearOld.writer_left_asleep", "NV.C19.ClearOld.not_noWriterLeftAsleepFull",
                        "NV.C19.ClearOld.stays_asleep", "NV.C19.HbOld.tick_swallowed",
                        "NV.C19.HbOld.backend_sleeps_on_tick"]
    consts = [("completionRingSize", "COMPLETION_RING_SIZE"),
              ("queueDropOldest", "ASYNC_QUEUE_DROP_OLDEST"),
              ("queueBlockWriter", "ASYNC_QUEUE_BLOCK_WRITER"),
              ("queueSignalOnData", "ASYNC_QUEUE_SIGNAL_ON_DATA"),
              ("timerErrNullParam", "TIMER_ERR_NULL_PARAM"),
              ("timerErrAlreadyActive", "TIMER_ERR_ALREADY_ACTIVE"),
              ("timerErrInvalidInterval", "TIMER_ERR_INVALID_INTERVAL"),
              ("workerStopped", "ASYNC_WORKER_STOPPED"),
              ("workerRunning", "ASYNC_WORKER_RUNNING"),
              ("workerStopping", "ASYNC_WORKER_STOPPING")]
    # the ring size is a #define private to the epoll back end: the probe includes the .c file itself
    const_headers = ["lib/async/async_runtime_epoll.c", "lib/async/async_queue.h", "lib/async/async_worker.h",
                     "lib/port/timer.h"]
    quick_n = 500
    thorough_n = 4000
    search_n = 400
    design_ref = "5/C19"
    technique = ("Lean 4 proof over all schedules (induction on the interleaving of atomic actions) + translator-generated "
                 "constants, comparison operators and statement orders (regex over the comment-stripped function bodies, "
                 "bridging lemmas as obligations) + model/implementation correspondence on sequentialised schedules for "
                 "BOTH POSIX back ends (epoll, and the poll back end compiled on Linux) + real multi-thread runs "
                 "+ clang-AST translation of the locked function bodies + ThreadSanitizer (runtime part, incl. the full backend() loop)")
    level_text = ("Lean 4 theorems about executable models of the event loop of both POSIX back ends (doorbell + completion "
                  "ring; epoll/eventfd and poll/pipe are shown to be the same machine), async_queue (ring indices, "
                  "drop-oldest / block-writer / fail; any number of writers asleep on the auto-reset event, clear at any "
                  "moment), async_worker (create, thread wrapper, signal_stop, timed join), the console worker loop "
                  "(terminates within five of its steps from every state at which stop is requested; chunk enqueued "
                  "before its completion), the portable timer (stop flag, timed condition wait, join) and the "
                  "heart-beat flag protocol (a tick is never swallowed by the clear and never leaves the backend in a "
                  "blocking wait), quantified over every scheduler choice; the lock discipline of async_queue and of both "
                  "completion rings (every access to a shared field inside a lock...unlock bracket, on every path through "
                  "the function bodies regenerated from the clang AST; checker proved sound; accesses of different threads "
                  "ordered by the mutex); exact enqueue / dequeue / dropped counters under any interleaving; the eventfd "
                  "overflow bound as an explicit hypothesis; the models are tied to the source by "
                  "regenerated constants / operators / statement orders and by running the real code and the model on "
                  "the same sequentialised schedules (identical traces); the Lean oracle judges every implementation "
                  "trace, including real multi-thread runs; `judgeEv (events cmds) = []` is proved for all command lists")
    level_note = ("trusted: Lean kernel; extract.py and the regexes of the translator (a shape they do not recognise is a "
                  "broken tie, never a silent default); the correspondence harness (differential, only generated schedules); "
                  "the granularity of the atomic actions (one action = code between two synchronisation points; mutex, eventfd, "
                  "pipe, select with a finite time-out, condition-variable waits and pthread_join behave as specified - "
                  "hypotheses, not verified); the poll back end is compiled by undefining __linux__ after all system "
                  "headers were included (Linux pipe semantics, not BSD/macOS). "
                  "RUNTIME PART, NOT PROOF: the data-race clause is checked only by ThreadSanitizer on the executed runs")
    rule = ("cases = corpus + known-finding inputs + boundary list + seeded random sequentialised schedules (several logical "
            "producers posting / waking / waiting with max 1..64, a third of them on the poll back end; enqueue / dequeue / "
            "clear on queues of capacity 1..5 under each flag combination incl. invalid sizes, short buffers and a blocked "
            "writer; worker create-held / release / step / stop / join(t) / destroy at every phase, default and explicit "
            "stack size; timer init / start / stop / restart / cleanup) + real multi-thread runs with seeded yields (post, "
            "queue, qclear = several writers asleep while the consumer clears, worker, timer, console = the real console "
            "worker on a pipe with shutdown at four stages of its life); a case is non-trivial when its trace has >= 2 "
            "lines; distinct = distinct canonical implementation trace")
    not_covered = ["data races: for head/tail/count/counters/slots of async_queue and ring/ring_head/ring_count of both "
                   "rings the lock discipline is PROVED on every path of the regenerated bodies (hypothesis: the mutex "
                   "works); every other shared location (worker state, timer flags, heart_beat_flag, event internals) is "
                   "checked only by ThreadSanitizer on the runs made, incl. the full backend() loop",
                   "kernel scheduling fairness; the IOCP back end and async_worker_win32.c (Windows); BSD/macOS pipe and "
                   "poll() semantics where they differ from Linux (the poll back end runs on Linux pipes here)",
                   "the heart-beat protocol theorems are about the model HbSys, tied to src/backend.c by the order of "
                   "three statements (hb_protocol_eq), the `hbowed` run (real callback inside the real call_heart_beat) "
                   "and the full backend() loop under ThreadSanitizer - its blocking-wait clause has no trace-level "
                   "correspondence",
                   "beyond 2^64-2 un-waited doorbell writes (explicit hypothesis eventfdMax; at the bound a post returns "
                   "-1 although the completion is queued and delivered: post_at_overflow_still_queued)",
                   "the lock translator reduces expressions to accesses in source order (no aliasing beyond locals "
                   "initialised from get_slot / &ring[i]; macros as clang expands them); the three structures are "
                   "opaque (defined inside their .c files), so only the functions of those files - all of them scanned - "
                   "can name the fields",
                   "async_runtime_wait: time-out conversion, EINTR, MAX_EVENTS clamp, socket readiness branch; "
                   "async_runtime_add/modify/remove",
                   "error paths of the constructors (calloc / pthread_create / event init failing)",
                   "timer drift correction (next_tick arithmetic); platform_event_reset, timed event wait, mutex_trylock",
                   "process_io console branch in src/comm.c: only observed end to end (`mt backend`: 40 console lines "
                   "through the real loop, once each, in order), not modelled"]

    # ---- translator: ORDER of the state stores relative to the spawn / the user procedure -------------------
    STATE_NAMES = {"ASYNC_WORKER_STOPPED": "workerStopped", "ASYNC_WORKER_RUNNING": "workerRunning",
                   "ASYNC_WORKER_STOPPING": "workerStopping"}

    def _function_body(self, src, name, site):
        import re
        from nvlib import extract as X
        m = re.search(r"\b%s\s*\([^;{]*\)\s*\{" % re.escape(name), src)
        if not m:
            raise X.TieBroken(site, "function %s not found in lib/async/async_worker_pthread.c" % name)
        i, depth = m.end(), 1
        while i < len(src) and depth:
            depth += {"{": 1, "}": -1}.get(src[i], 0)
            i += 1
        body = src[m.end():i - 1]
        body = re.sub(r"/\*.*?\*/", " ", body, flags=re.S)
        return re.sub(r"//[^\n]*", " ", body)

    def _stores_around(self, body, call_re, site):
        """state stores (as Gen constant names) before / after the first match of call_re, in source order"""
        import re
        from nvlib import extract as X
        calls = list(re.finditer(call_re, body))
        if len(calls) != 1:
            raise X.TieBroken(site, "expected exactly one `%s` call, found %d" % (call_re, len(calls)))
        before, after = [], []
        for m in re.finditer(r"->\s*state\s*=(?!=)\s*([^;]+);", body):
            rhs = m.group(1).strip()
            if rhs not in self.STATE_NAMES:
                raise X.TieBroken(site, "unrecognised value stored into ->state: `%s`" % rhs)
            (before if m.start() < calls[0].start() else after).append(self.STATE_NAMES[rhs])
        return before, after

    def gen_extra(self, ctx, bdir):
        src = open(os.path.join(E.REPO, "lib/async/async_worker_pthread.c")).read()
        cb, ca = self._stores_around(self._function_body(src, "async_worker_create", "order:async_worker_create"),
                                     r"\bpthread_create\s*\(", "order:async_worker_create")
        wb, wa = self._stores_around(self._function_body(src, "worker_thread_proc", "order:worker_thread_proc"),
                                     r"->\s*proc\s*\(", "order:worker_thread_proc")
        fmt = lambda l: "[" + ", ".join(l) + "]"
        import re
        from nvlib import extract as X

        def body_of(path, name, site):
            m = re.search(r"\b%s\s*\([^;{]*\)\s*\{" % re.escape(name), path)
            if not m:
                raise X.TieBroken(site, "function %s not found" % name)
            i, depth = m.end(), 1
            while i < len(path) and depth:
                depth += {"{": 1, "}": -1}.get(path[i], 0)
                i += 1
            b = re.sub(r"/\*.*?\*/", " ", path[m.end():i - 1], flags=re.S)
            return re.sub(r"//[^\n]*", " ", b)

        def pos(body, pat, site, which=0):
            ms = list(re.finditer(pat, body))
            if not ms:
                raise X.TieBroken(site, "`%s` not found" % pat)
            return ms[which].start()
        ep = open(os.path.join(E.REPO, "lib/async/async_runtime_epoll.c")).read()
        wb_ = body_of(ep, "async_runtime_wait", "order:async_runtime_wait")
        rd = pos(wb_, r"\bread\s*\(\s*runtime->event_fd", "order:async_runtime_wait")
        lk = pos(wb_, r"pthread_mutex_lock\s*\(\s*&runtime->ring_lock", "order:async_runtime_wait")
        ul = pos(wb_, r"pthread_mutex_unlock\s*\(\s*&runtime->ring_lock", "order:async_runtime_wait", -1)
        rearm = pos(wb_, r"\bwrite\s*\(\s*runtime->event_fd", "order:async_runtime_wait")
        pb_ = body_of(ep, "async_runtime_post_completion", "order:async_runtime_post_completion")
        push = pos(pb_, r"ring_count\s*\+\+", "order:async_runtime_post_completion")
        bell = pos(pb_, r"\bwrite\s*\(\s*runtime->event_fd", "order:async_runtime_post_completion")
        jb_ = body_of(src, "async_worker_join", "const:async_worker_join")
        m1 = re.search(r"struct\s+timespec\s+\w+\s*=\s*\{\s*(\d+)\s*,\s*(\d+)\s*\}", jb_)
        m2 = re.search(r"elapsed_ms\s*\+=\s*(\d+)\s*;", jb_)
        if not m1 or not m2:
            raise X.TieBroken("const:async_worker_join", "poll sleep / elapsed step of the timed join not recognised")
        b = lambda v: "true" if v else "false"
        more = self._gen_round5(body_of, pos, b)
        # every Boolean shape the translator found NOT to hold, with its description: reported by extra_checks as a
        # tie-broken problem that names the site (the Lean bridging lemma fails as well, but names only its module)
        self._shape_failures = []
        for i, l in enumerate(more):
            m = re.match(r"def (\w+) : Bool := false", l)
            if m:
                self._shape_failures.append((m.group(1), more[i - 1] if i else ""))
        from props import c19_extract
        more.append(c19_extract.gen_locks(bdir))
        return "\n".join(more + [
            "/-- C: in `async_runtime_wait` the doorbell `read(event_fd)` stands before `pthread_mutex_lock(&ring_lock)` -/",
            "def waitReadsBellBeforeLock : Bool := " + b(rd < lk),
            "/-- C: in `async_runtime_wait` the re-arm `write(event_fd)` stands before the last `pthread_mutex_unlock` -/",
            "def waitRearmsUnderLock : Bool := " + b(lk < rearm < ul),
            "/-- C: in `async_runtime_post_completion` the push (`ring_count++`) stands before the doorbell `write(event_fd)` -/",
            "def postPushesBeforeBell : Bool := " + b(push < bell),
            "/-- C: `struct timespec sleep_time = { s, ns }` of the timed join, in ns -/",
            "def joinSleepNs : Nat := %d" % (int(m1.group(1)) * 10 ** 9 + int(m1.group(2))),
            "/-- C: `elapsed_ms += N` of the timed join -/",
            "def joinElapsedStepMs : Nat := %d" % int(m2.group(1)),
            "/-- C: values stored into `worker->state` in `async_worker_create` BEFORE the `pthread_create` call, in order -/",
            "def createStoresBeforeSpawn : List Nat := " + fmt(cb),
            "/-- C: values stored into `worker->state` in `async_worker_create` AFTER the `pthread_create` call, in order -/",
            "def createStoresAfterSpawn : List Nat := " + fmt(ca),
            "/-- C: values stored into `worker->state` in `worker_thread_proc` before `worker->proc(...)` is called -/",
            "def wrapperStoresBeforeProc : List Nat := " + fmt(wb),
            "/-- C: values stored into `worker->state` in `worker_thread_proc` after `worker->proc(...)` returned -/",
            "def wrapperStoresAfterProc : List Nat := " + fmt(wa)])

    def _direct_flag_accesses(self):
        """(file, line) of every mention of heart_beat_flag in the driver sources that is neither its definition, its
        extern declaration nor one of the two accessor macros"""
        import re
        bad = []
        for top in ("src", "lib"):
            for root, _, files in os.walk(os.path.join(E.REPO, top)):
                for fn in files:
                    if not fn.endswith((".c", ".h", ".cpp", ".hpp")):
                        continue
                    path = os.path.join(root, fn)
                    try:
                        txt = open(path, errors="replace").read()
                    except OSError:
                        continue
                    if "heart_beat_flag" not in txt:
                        continue
                    txt = re.sub(r"/\*.*?\*/", lambda m: re.sub(r"[^\n]", " ", m.group(0)), txt, flags=re.S)
                    for no, line in enumerate(txt.splitlines(), 1):
                        line = re.sub(r"//.*", "", line)
                        if not re.search(r"\bheart_beat_flag\b", line):
                            continue
                        if re.match(r"\s*(extern\s+)?(volatile\s+)?int\s+heart_beat_flag\s*(=\s*0\s*)?;", line):
                            continue
                        if re.match(r"\s*#\s*define\s+(SET_)?HEART_BEAT_FLAG\(", line):
                            continue
                        bad.append("%s:%d" % (os.path.relpath(path, E.REPO), no))
        return bad

    def _gen_round5(self, body_of, pos, b):
        """translator, extension round: the poll back end, the hand-copied tests of async_queue, the loops of the
        console worker and of the timer thread, the heart-beat flag protocol.  Everything the regexes do not
        recognise raises TieBroken (the check then goes to its search stage)."""
        import re
        from nvlib import extract as X
        rd = lambda rel: open(os.path.join(E.REPO, rel)).read()

        def has(body, pat):
            return re.search(pat, body) is not None

        def need(body, pat, site):
            m = re.search(pat, body)
            if not m:
                raise X.TieBroken(site, "`%s` not recognised" % pat)
            return m

        def ordered(body, pats):
            """all patterns occur, each first occurrence behind the previous one"""
            last = -1
            for pt in pats:
                m = re.search(pt, body[max(last, 0):])
                if not m:
                    return False
                last = max(last, 0) + m.end()
            return True
        out = []
        # -- poll back end --------------------------------------------------------------------------------------
        po = rd("lib/async/async_runtime_poll.c")
        mring = re.search(r"#\s*define\s+COMPLETION_RING_SIZE\s+(\d+)", po)
        pw = body_of(po, "async_runtime_wait", "poll:async_runtime_wait")
        pp = body_of(po, "async_runtime_post_completion", "poll:async_runtime_post_completion")
        pk = body_of(po, "async_runtime_wakeup", "poll:async_runtime_wakeup")
        ring_ok = mring is not None
        out += ["/-- C (async_runtime_poll.c): `#define COMPLETION_RING_SIZE`; 0 = the back end has no completion ring -/",
                "def pollCompletionRingSize : Nat := %d" % (int(mring.group(1)) if mring else 0),
                "/-- C (poll): in `async_runtime_wait` the doorbell `read(notify_pipe[0])` loop stands before `pthread_mutex_lock(&ring_lock)`, the re-arm `write(notify_pipe[1])` between lock and unlock -/",
                "def pollWaitOrder : Bool := " + b(ring_ok and ordered(pw, [
                    r"read\s*\(\s*runtime->notify_pipe\[0\]", r"pthread_mutex_lock\s*\(\s*&runtime->ring_lock",
                    r"ring_count\s*--", r"write\s*\(\s*runtime->notify_pipe\[1\]",
                    r"pthread_mutex_unlock\s*\(\s*&runtime->ring_lock"])),
                "/-- C (poll): `post_completion` = lock, full test `ring_count >= COMPLETION_RING_SIZE`, push, unlock, THEN the doorbell write -/",
                "def pollPostOrder : Bool := " + b(ring_ok and ordered(pp, [
                    r"pthread_mutex_lock\s*\(\s*&runtime->ring_lock", r"ring_count\s*>=\s*COMPLETION_RING_SIZE",
                    r"ring_count\s*\+\+", r"pthread_mutex_unlock\s*\(\s*&runtime->ring_lock",
                    r"write\s*\(\s*runtime->notify_pipe\[1\]"])),
                "/-- C (poll): neither `wakeup` nor `post_completion` writes anything but single doorbell bytes into the pipe -/",
                "def pollPipeIsDoorbellOnly : Bool := " + b(
                    not has(pp, r"write\s*\([^;]*sizeof") and not has(pk, r"write\s*\([^;]*sizeof")
                    and has(pk, r"write\s*\(\s*runtime->notify_pipe\[1\]\s*,\s*&\w+\s*,\s*1\s*\)"))]
        # -- epoll back end: the full test of the ring ---------------------------------------------------------
        ep = rd("lib/async/async_runtime_epoll.c")
        epp = body_of(ep, "async_runtime_post_completion", "order:async_runtime_post_completion")
        epw = body_of(ep, "async_runtime_wait", "order:async_runtime_wait")
        m = need(epp, r"ring_count\s*(>=|>|==|<=|<|!=)\s*COMPLETION_RING_SIZE", "epoll:ring-full-test")
        out += ["/-- C (epoll): comparison operator of the ring-full test `ring_count OP COMPLETION_RING_SIZE` in post_completion -/",
                'def ringFullOp : String := "%s"' % m.group(1),
                "/-- C (epoll): `wait` re-arms the doorbell exactly when entries remain: `if (runtime->ring_count > 0)` guards the write -/",
                "def waitRearmsWhenEntriesRemain : Bool := " + b(has(
                    epw, r"if\s*\(\s*runtime->ring_count\s*>\s*0\s*\)\s*\{[^}]*write\s*\(\s*runtime->event_fd")),
                "/-- C (epoll): the copy-out loop is `while (runtime->ring_count > 0 && event_count < max_events)` -/",
                "def waitTakesUpToMax : Bool := " + b(has(
                    epw, r"while\s*\(\s*runtime->ring_count\s*>\s*0\s*&&\s*event_count\s*<\s*max_events\s*\)"))]
        # -- async_queue ---------------------------------------------------------------------------------------
        aq = rd("lib/async/async_queue.c")
        qe = body_of(aq, "async_queue_enqueue", "queue:async_queue_enqueue")
        qd = body_of(aq, "async_queue_dequeue", "queue:async_queue_dequeue")
        qc = body_of(aq, "async_queue_clear", "queue:async_queue_clear")
        m = need(qe, r"while\s*\(\s*queue->count\s*(>=|>|==|<=|<|!=)\s*queue->capacity\s*\)", "queue:full-test")
        m2 = need(qe, r"size\s*(==|<=|<)\s*0\s*\|\|\s*size\s*(>=|>)\s*queue->max_msg_size", "queue:size-test")
        m3 = need(qd, r"msg_size\s*(>=|>)\s*buffer_size", "queue:short-buffer-test")
        out += ["/-- C: operator of the full test `while (queue->count OP queue->capacity)` in async_queue_enqueue -/",
                'def enqFullOp : String := "%s"' % m.group(1),
                "/-- C: operators of `size OP1 0 || size OP2 queue->max_msg_size` in async_queue_enqueue -/",
                'def enqSizeOps : String × String := ("%s", "%s")' % (m2.group(1), m2.group(2)),
                "/-- C: operator of the short-buffer test `msg_size OP buffer_size` in async_queue_dequeue -/",
                'def deqShortOp : String := "%s"' % m3.group(1),
                "/-- C: inside the full loop DROP_OLDEST is tested first, BLOCK_WRITER in its else branch, plain failure last -/",
                "def enqDropBeforeBlock : Bool := " + b(ordered(qe, [
                    r"if\s*\(\s*queue->flags\s*&\s*ASYNC_QUEUE_DROP_OLDEST\s*\)", r"queue->tail\s*=\s*\(queue->tail\s*\+\s*1\)\s*%\s*queue->capacity",
                    r"queue->count\s*--", r"queue->dropped_count\s*\+\+",
                    r"else\s+if\s*\(\s*queue->flags\s*&\s*ASYNC_QUEUE_BLOCK_WRITER\s*\)",
                    r"platform_event_wait\s*\(\s*&queue->not_full\s*,\s*-1\s*\)", r"else\s*\{", r"return\s+false"])),
                "/-- C: the slot is written at `head`, then `head = (head + 1) % capacity; count++; enqueue_count++` -/",
                "def enqWritesAtHead : Bool := " + b(ordered(qe, [
                    r"get_slot\s*\(\s*queue\s*,\s*queue->head\s*\)", r"queue->head\s*=\s*\(queue->head\s*\+\s*1\)\s*%\s*queue->capacity",
                    r"queue->count\s*\+\+", r"queue->enqueue_count\s*\+\+"])),
                "/-- C: dequeue reads the slot at `tail`, then `tail = (tail + 1) % capacity; count--; dequeue_count++` -/",
                "def deqReadsAtTail : Bool := " + b(ordered(qd, [
                    r"queue->count\s*==\s*0", r"get_slot\s*\(\s*queue\s*,\s*queue->tail\s*\)",
                    r"queue->tail\s*=\s*\(queue->tail\s*\+\s*1\)\s*%\s*queue->capacity", r"queue->count\s*--",
                    r"queue->dequeue_count\s*\+\+"])),
                "/-- C: EVERY successful dequeue of a BLOCK_WRITER queue sets `not_full` (the set is guarded by the flag test only) -/",
                "def deqAlwaysSignals : Bool := " + b(has(
                    qd, r"queue->dequeue_count\s*\+\+\s*;\s*if\s*\(\s*queue->flags\s*&\s*ASYNC_QUEUE_BLOCK_WRITER\s*\)\s*\{\s*platform_event_set\s*\(\s*&queue->not_full\s*\)")),
                "/-- C: `async_queue_clear` sets `not_full` on a BLOCK_WRITER queue (writers asleep on a full queue must be released) -/",
                "def clearSignalsNotFull : Bool := " + b(has(
                    qc, r"if\s*\(\s*queue->flags\s*&\s*ASYNC_QUEUE_BLOCK_WRITER\s*\)\s*\{?\s*platform_event_set\s*\(\s*&queue->not_full\s*\)"))]
        # -- timed join: the loop condition and what follows it ---------------------------------------------------
        wk = rd("lib/async/async_worker_pthread.c")
        jb = body_of(wk, "async_worker_join", "const:async_worker_join")
        mj = need(jb, r"while\s*\(\s*worker->state\s*(!=|==)\s*ASYNC_WORKER_STOPPED\s*&&\s*elapsed_ms\s*(<=|<|>=|>)\s*timeout_ms\s*\)",
                  "join:loop-condition")
        out += ["/-- C: operators of the timed join's loop `while (worker->state OP1 ASYNC_WORKER_STOPPED && elapsed_ms OP2 timeout_ms)` -/",
                'def joinLoopOps : String × String := ("%s", "%s")' % (mj.group(1), mj.group(2)),
                "/-- C: behind the loop `pthread_join` is called only under `if (worker->state == ASYNC_WORKER_STOPPED)` (then `return true`), otherwise `return false` -/",
                "def joinJoinsOnlyWhenStopped : Bool := " + b(ordered(jb, [
                    r"nanosleep\s*\(", r"elapsed_ms\s*\+=", r"if\s*\(\s*worker->state\s*==\s*ASYNC_WORKER_STOPPED\s*\)\s*\{\s*pthread_join\s*\(\s*worker->thread\s*,\s*NULL\s*\)\s*;\s*return\s+true\s*;\s*\}\s*return\s+false"]))]
        # -- sync.cpp: the auto-reset event ------------------------------------------------------------------------
        sy = rd("lib/port/sync.cpp")
        ew = body_of(sy, "platform_event_wait", "sync:platform_event_wait")
        es = body_of(sy, "platform_event_set", "sync:platform_event_set")
        out += ["/-- C++: `platform_event_set` stores `signaled = true` under the event's mutex; a wait consumes it only for auto-reset events (`if (!impl->manual_reset) impl->signaled = false`), in all three branches -/",
                "def eventIsLevelTriggered : Bool := " + b(
                    ordered(es, [r"lock_guard", r"impl->signaled\s*=\s*true", r"notify_"]) and
                    len(re.findall(r"if\s*\(\s*(?:result\s*&&\s*)?!impl->manual_reset\s*\)\s*\{\s*impl->signaled\s*=\s*false", ew)) == 3 and
                    has(ew, r"cv\.wait\s*\(\s*lock\s*,\s*\[impl\]\s*\{\s*return\s+impl->signaled;\s*\}\s*\)"))]
        # -- console worker ------------------------------------------------------------------------------------
        cw = rd("lib/async/console_worker.c")
        cp = body_of(cw, "console_worker_proc_posix", "console:console_worker_proc_posix")
        cs = body_of(cw, "console_worker_shutdown", "console:console_worker_shutdown")
        msec = need(cp, r"timeout\.tv_sec\s*=\s*(\d+)\s*;", "console:select-timeout")
        musec = need(cp, r"timeout\.tv_usec\s*=\s*(\d+)\s*;", "console:select-timeout")
        cm = rd("src/comm.c")
        mq = need(cm, r"g_console_queue\s*=\s*async_queue_create\s*\(\s*(\d+)\s*,\s*CONSOLE_MAX_LINE\s*,\s*([A-Z_|\s]+)\)", "console:queue-flags")
        names = {"ASYNC_QUEUE_DROP_OLDEST": "queueDropOldest", "ASYNC_QUEUE_BLOCK_WRITER": "queueBlockWriter",
                 "ASYNC_QUEUE_SIGNAL_ON_DATA": "queueSignalOnData", "ASYNC_QUEUE_NONE": "0"}
        fl = []
        for t in mq.group(2).split("|"):
            t = t.strip()
            if t not in names:
                raise X.TieBroken("console:queue-flags", "unknown flag `%s`" % t)
            fl.append(names[t])
        out += ["/-- C (src/comm.c): flags of the console line queue `async_queue_create(N, CONSOLE_MAX_LINE, FLAGS)` -/",
                "def consoleQueueFlags : Nat := " + " ||| ".join(fl),
                "/-- C (src/comm.c): capacity of the console line queue -/",
                "def consoleQueueCapacity : Nat := %s" % mq.group(1),
                "/-- C: `select()` time-out of the console worker loop, µs (finite: the stop flag is polled) -/",
                "def consoleSelectTimeoutUs : Nat := %d" % (int(msec.group(1)) * 10 ** 6 + int(musec.group(1))),
                "/-- C: the loop is `while (!async_worker_should_stop(...))`, then select → read → async_queue_enqueue → async_runtime_post_completion -/",
                "def consoleLoopOrder : Bool := " + b(ordered(cp, [
                    r"while\s*\(\s*!async_worker_should_stop\s*\(\s*async_worker_current\s*\(\s*\)\s*\)\s*\)", r"\bselect\s*\(",
                    r"\bread\s*\(\s*STDIN_FILENO", r"async_queue_enqueue\s*\(", r"async_runtime_post_completion\s*\("])),
                "/-- C: a select time-out (`ret == 0`) and EINTR `continue` (back to the stop test); errors and EOF `break` -/",
                "def consoleLoopExits : Bool := " + b(
                    has(cp, r"ret\s*==\s*0\s*\)\s*\{\s*continue\s*;") and has(cp, r"bytes_read\s*==\s*0\s*\)\s*\{[^}]*break\s*;")
                    and has(cp, r"ret\s*<\s*0\s*\)\s*\{\s*if\s*\(\s*errno\s*==\s*EINTR\s*\)\s*\{\s*continue\s*;\s*\}[^}]*break\s*;")
                    and has(cp, r"bytes_read\s*<\s*0\s*\)\s*\{\s*if\s*\([^)]*EINTR[^)]*\)\s*\{\s*continue\s*;\s*\}[^}]*break\s*;")),
                "/-- C: `console_worker_shutdown` = `async_worker_signal_stop` then `async_worker_join(worker, timeout_ms)` -/",
                "def consoleShutdownOrder : Bool := " + b(ordered(cs, [r"async_worker_signal_stop\s*\(", r"return\s+async_worker_join\s*\("]))]
        # -- timer thread --------------------------------------------------------------------------------------
        tc = rd("lib/port/timer.cpp")
        tf = body_of(tc, "timer_thread_func", "timer:timer_thread_func")
        ts = body_of(tc, "platform_timer_stop", "timer:platform_timer_stop")
        out += ["/-- C++: timer loop = `while (!stop_requested)` { timed `wait_until`; `if (stop_requested) break`; callback only on time-out while active } -/",
                "def timerLoopOrder : Bool := " + b(ordered(tf, [
                    r"while\s*\(\s*!internal->stop_requested\.load\(\)\s*\)", r"cv\.wait_until\s*\(\s*lock\s*,\s*next_tick\s*\)",
                    r"if\s*\(\s*internal->stop_requested\.load\(\)\s*\)\s*\{\s*break\s*;",
                    r"status\s*==\s*std::cv_status::timeout\s*&&\s*internal->active\.load\(\)\s*&&\s*internal->callback",
                    r"internal->callback\s*\(\s*\)"])),
                "/-- C++: stop = `active = false`; `stop_requested = true`; notify_all under the mutex; join; only then `callback = nullptr` -/",
                "def timerStopOrder : Bool := " + b(ordered(ts, [
                    r"internal->active\.store\s*\(\s*false\s*\)", r"internal->stop_requested\.store\s*\(\s*true\s*\)",
                    r"lock_guard", r"cv\.notify_all\s*\(\s*\)", r"timer_thread\.join\s*\(\s*\)", r"internal->callback\s*=\s*nullptr"]))]
        # -- heart-beat flag -----------------------------------------------------------------------------------
        be = rd("src/backend.c")
        hc = body_of(be, "heartbeat_timer_callback", "hb:heartbeat_timer_callback")
        ch = body_of(be, "call_heart_beat", "hb:call_heart_beat")
        acc = has(be, r"#\s*define\s+HEART_BEAT_FLAG\(\)\s+platform_atomic_load_int\s*\(\s*&heart_beat_flag\s*\)") and \
            has(be, r"#\s*define\s+SET_HEART_BEAT_FLAG\(v\)\s+platform_atomic_store_int\s*\(\s*&heart_beat_flag") and \
            not self._direct_flag_accesses()
        # first statement behind the local declarations (however many there are)
        chs = ch
        decl = re.compile(r"^\s*(?:static\s+|const\s+|register\s+)*[A-Za-z_]\w*(?:\s+[A-Za-z_]\w*)*[\s\*]+[A-Za-z_]\w*\s*(?:=[^;]*)?;")
        while decl.match(chs):
            chs = chs[decl.match(chs).end():]
        first_stmt = re.match(r"\s*SET_HEART_BEAT_FLAG\s*\(\s*0\s*\)\s*;", chs) is not None
        out += ["/-- C: heart_beat_flag is touched only through the atomic accessors: in src/ and lib/ the identifier occurs only in its definition, its `extern` declaration and the two accessor macros -/",
                "def hbFlagAtomicOnly : Bool := " + b(acc),
                "/-- C: `SET_HEART_BEAT_FLAG(0)` is the first statement of call_heart_beat (before the round), and the round is `while (!HEART_BEAT_FLAG())` -/",
                "def hbClearsFlagFirst : Bool := " + b(first_stmt and has(ch, r"while\s*\(\s*!HEART_BEAT_FLAG\s*\(\s*\)\s*\)")),
                "/-- C: the timer callback stores the flag BEFORE it wakes the event loop -/",
                "def hbStoresBeforeWakeup : Bool := " + b(ordered(hc, [r"SET_HEART_BEAT_FLAG\s*\(\s*1\s*\)", r"async_runtime_wakeup\s*\("]))]
        return out

    # ---- build / run -----------------------------------------------------
    @staticmethod
    def SOURCES():
        # c19poll.c = lib/async/async_runtime_poll.c compiled on Linux (cases starting with `#poll`)
        return [os.path.join(E.VERIF, "harness/c19/c19.c"), os.path.join(E.VERIF, "harness/c19/c19poll.c")]

    def prepare(self, ctx):
        self.exe = E.compile_harness("c19", self.SOURCES(), with_common=False)
        self.tsan_exe = None
        self._raw = {}

    def tsan(self):
        if self.tsan_exe is None:
            self.tsan_exe = E.compile_harness("c19", self.SOURCES(), kind="tsan", with_common=False)
        return self.tsan_exe

    def hb(self):
        if getattr(self, "hb_exe", None) is None:
            self.hb_exe = E.compile_harness("c19hb", [os.path.join(E.VERIF, "harness/c19/c19hb.c")], kind="tsan",
                                            with_common=False, exclude_objs=("backend.c.o",))
        return self.hb_exe

    def be(self, ctx):
        """the full driver under ThreadSanitizer (harness/c19/c19be.c + harness/common/vh.c, base mudlib)"""
        if getattr(self, "be_exe", None) is None:
            self.be_exe = E.compile_harness("c19be", [os.path.join(E.VERIF, "harness/c19/c19be.c")], kind="tsan",
                                            extra=["-Wl,--wrap=platform_timer_start"])
            self.be_conf = E.make_mudlib(os.path.join(ctx.rundir, "be"))
        return self.be_exe

    def _run_be(self, ctx, cases, env):
        """run through vh_main; ThreadSanitizer reports are taken from the kept stderr of every case"""
        import re
        rundir = os.path.join(ctx.rundir, "be")
        keep = os.path.join(rundir, "stderr")
        os.makedirs(keep, exist_ok=True)
        exe = self.be(ctx)
        p = E.run([exe, "--conf", self.be_conf, "--scratch", rundir, "--keep-stderr", keep, "--timeout", "120"],
                  input=E.cases_text(cases), env=env, timeout=3000, cwd=rundir)
        res = E.parse_cases_output(p.stdout)
        for c in cases:
            if c.id not in res:
                res[c.id] = ["crash harness-process rc=%d" % p.returncode]
            races = set()
            try:
                for line in open(os.path.join(keep, c.id + ".stderr"), errors="replace"):
                    m = re.search(r"SUMMARY: ThreadSanitizer: ([^/(]+?)\s+\S*\s*in (\S+)", line) or \
                        re.search(r"SUMMARY: ThreadSanitizer: ([^/(]+?)\s*[/(]", line)
                    if m:
                        kind = m.group(1).strip().replace(" ", "-")
                        fn = m.group(2) if m.lastindex and m.lastindex >= 2 else "?"
                        races.add("race %s %s" % (kind, fn))
            except OSError:
                pass
            # the console lines travel console worker -> line queue -> completion -> process_io -> the user object of
            # the base mudlib, which echoes them: if it does (its output format belongs to harness/mudlib, so their absence
            # is not judged), they must be all of them, once, in order
            seq = [int(m.group(1)) for l in res[c.id] for m in [re.search(r"c19 console line (\d+)", l)] if m]
            want = [int(t[3]) for l in c.lines for t in [l.split()] if len(t) == 5 and t[:2] == ["mt", "backend"]]
            out = [l for l in res[c.id] if l.startswith(("mt ", "crash", "race ", "skip"))]
            if seq and want and seq != list(range(want[0])) and out and out[0] == "mt backend ok":
                out[0] = "mt backend bad console-lines-through-the-real-backend expected=0..%d got=%s" % (
                    want[0] - 1, ",".join(map(str, seq[:12])))
            res[c.id] = out + sorted(races)
        return res

    def _run(self, exe, cases, rundir, env):
        os.makedirs(rundir, exist_ok=True)
        p = E.run([exe, "--scratch", rundir], input=E.cases_text(cases), env=env, timeout=3000, cwd=rundir)
        res = E.parse_cases_output(p.stdout)
        for c in cases:
            if c.id not in res:
                res[c.id] = ["crash harness-process rc=%d" % p.returncode]
        return res

    def run_impl(self, ctx, cases):
        be = [c for c in cases if "#tsan-be" in c.lines]
        cases = [c for c in cases if "#tsan-be" not in c.lines]
        plain = [c for c in cases if "#tsan" not in c.lines and "#tsan-hb" not in c.lines]
        ts = [c for c in cases if "#tsan" in c.lines]
        hb = [c for c in cases if "#tsan-hb" in c.lines]
        res = {}
        tsan_env = {"TSAN_OPTIONS": "halt_on_error=0:exitcode=66:report_thread_leaks=0:second_deadlock_stack=1"}
        self._harness_problems = getattr(self, "_harness_problems", {})

        def guarded(name, src, cs, fn):
            """the unit-style harnesses lean on names that belong to OTHER properties' code (statics of src/backend.c,
            the common harness, the base mudlib): when one of them no longer builds, that is reported as a broken tie
            naming the harness, and its cases fall back to the model's lines instead of crashing the whole check"""
            try:
                return fn()
            except E.BuildError as e:
                errs = [l for l in str(e).splitlines() if "error" in l][:3]
                self._harness_problems[name] = {"kind": "tie-broken", "name": "harness:" + name,
                                                "detail": "%s no longer builds against the source: %s" % (src, " | ".join(errs))}
                return {k: self.canon(v) for k, v in self.run_model(ctx, cs).items()}
        if be:
            res.update(guarded("c19be", "harness/c19/c19be.c", be, lambda: self._run_be(ctx, be, tsan_env)))
        if hb:
            r = guarded("c19hb", "harness/c19/c19hb.c", hb, lambda: self._run(self.hb(), hb, ctx.rundir, tsan_env))
            for k, v in r.items():
                if "hbowed not-injected" in v:
                    # call_heart_beat no longer reads the clock through time(): the injection point is gone
                    self._harness_problems["hbowed"] = {
                        "kind": "tie-broken", "name": "harness:hbowed",
                        "detail": "call_heart_beat() no longer calls time() behind its first statement: the tick "
                                  "cannot be injected into the round (harness/c19/c19hb.c must be adapted)"}
                    r[k] = [("hbowed kept" if l == "hbowed not-injected" else l) for l in v]
            res.update(r)
        if plain:
            res.update(self._run(self.exe, plain, ctx.rundir,
                                 {"ASAN_OPTIONS": "detect_leaks=0:abort_on_error=0", "UBSAN_OPTIONS": "print_stacktrace=0"}))
        if ts:
            res.update(self._run(self.tsan(), ts, ctx.rundir, tsan_env))
        self._raw.update(res)
        return res

    def canon(self, lines):
        # ThreadSanitizer reports are judged (run_judge sees them), they are not part of the model/implementation diff
        return [l.rstrip() for l in lines if l.strip() != "" and not l.startswith("race ")]

    def run_judge(self, ctx, cases, impl):
        js = []
        for c in cases:
            raw = self._raw.get(c.id) if impl.get(c.id) == self.canon(self._raw.get(c.id, [])) else None
            js.append(E.Case(c.id, c.lines + ["--"] + (raw if raw is not None else impl.get(c.id, ["crash missing"]))))
        return E.nvdrive(self.id, "judge", E.cases_text(js))

    # ---- generators ------------------------------------------------------
    def boundary(self):
        B = []

        def mk(name, lines):
            B.append(E.Case("b-" + name, lines, {"origin": "boundary"}))
        # confirmed defect 1 (repaired): posts piled up between two waits were summed in the eventfd counter
        mk("posts-pile-up", ["post 1 4097 5", "post 1 4097 7", "wakeup", "wait 8", "wait 8"])
        mk("console-key-twice", ["post 1 12611614 10", "post 1 12611614 3", "wait 64", "wakeup", "wait 64", "wait 64"])
        mk("wakeup-only", ["wakeup", "wakeup", "wait 4", "wait 4", "post 2 9 9", "wakeup", "wait 1", "wait 1"])
        mk("wait-max-1-rearms", ["post 1 1 1", "post 2 2 2", "post 1 3 3", "wait 1", "wait 1", "wait 1", "wait 1"])
        mk("zero-key-zero-data", ["post 1 0 0", "wait 4", "post 1 0 0", "post 2 0 0", "wait 4"])
        mk("wide-key-data", ["post 1 4294967296 4294967297", "post 2 4294967295 2147483648", "wait 8"])
        # the window INSIDE a wait: another thread posts between the steps of async_runtime_wait (lost wake-up when the
        # doorbell is reset after the ring was drained)
        mk("wakeup-in-window", ["wakeup", "wbegin 4", "post 1 9 9", "wread", "wend", "wbegin 4", "wread", "wakeup", "wend",
                                "wait 4", "wait 4"])
        mk("post-before-doorbell-read", ["post 1 7 1", "wbegin 8", "post 2 7 2", "wread", "wend", "wait 8", "wait 8"])
        mk("post-after-doorbell-read", ["post 1 7 1", "wbegin 8", "wread", "post 2 7 2", "wend", "wait 8", "wait 8"])
        mk("post-in-both-windows", ["post 1 7 1", "wbegin 1", "post 2 7 2", "wread", "post 3 7 3", "wend", "wbegin 8", "wakeup",
                                    "wread", "post 1 7 4", "wend", "wait 8", "wait 8"])
        mk("split-wait-misuse", ["wread", "wend", "wbegin 4", "post 1 1 1", "wbegin 4", "wend", "wait 4", "wbegin 4", "wait 4",
                                 "wend", "wread", "wread", "wend", "wait 4"])
        # ring capacity from the source (a harmless change of the constant must keep this case AT the boundary)
        try:
            import re
            rs = int(re.search(r"#\s*define\s+COMPLETION_RING_SIZE\s+(\d+)",
                               open(os.path.join(E.REPO, "lib/async/async_runtime_epoll.c")).read()).group(1))
        except Exception:
            rs = 1024
        mk("ring-full", ["post 1 5 %d" % i for i in range(rs + 2)] + ["wait 64"] * ((rs + 63) // 64 + 1) + ["post 1 6 6", "wait 64"])
        # more completions than MAX_EVENTS (64, the size of the epoll_wait array) in ONE wait: the copy-out loop is
        # bounded by the caller's max_events, not by the clamp
        mk("wait-beyond-max-events", ["post %d 9 %d" % (1 + i % 3, i) for i in range(150)] + ["wait 200", "wait 200",
                                      "post 1 9 1", "wait 65", "wait 65"])
        # confirmed defect 2 (repaired): timed join before the thread stored RUNNING
        mk("join-before-running", ["wnew 1 hold", "wstate 1", "wjoin 1 50", "wrelease 1", "wstop 1", "wstep 1", "wjoin 1 50",
                                   "wstate 1", "wdestroy 1"])
        # the creator-side window: a short-lived worker finishes inside the creator's pthread_create call
        mk("short-lived-worker", ["wnew 1 race", "wstate 1", "wjoin 1 50", "wstate 1", "wdestroy 1"])
        mk("short-lived-worker-stop", ["wnew 1 race", "wstop 1", "wjoin 1 0", "wjoin 1 -1", "wdestroy 1", "wnew 2 race", "wrelease 2",
                                       "wstep 2", "wquit 2", "wjoin 2 -1", "wstate 2"])
        mk("join-zero-timeout", ["wnew 1 hold", "wjoin 1 0", "wrelease 1", "wjoin 1 0", "wstop 1", "wjoin 1 15", "wstep 1",
                                 "wjoin 1 0", "wdestroy 1"])
        mk("stop-before-start", ["wnew 2 hold", "wstop 2", "wjoin 2 20", "wrelease 2", "wstep 2", "wjoin 2 -1", "wdestroy 2"])
        mk("proc-returns-alone", ["wnew 1 run", "wstate 1", "wquit 1", "wstate 1", "wjoin 1 30", "wjoin 1 30", "wdestroy 1",
                                  "wdestroy 1"])
        mk("two-workers", ["wnew 1 hold", "wnew 2 run", "wstop 2", "wjoin 1 10", "wstep 2", "wjoin 2 -1", "wrelease 1",
                           "wstep 1", "wstop 1", "wstep 1", "wjoin 1 -1", "wdestroy 1", "wdestroy 2"])
        for fl in (0, 1, 2, 3, 4, 5):
            mk("queue-overflow-f%d" % fl, ["qnew 2 16 %d" % fl, "enq 1 1 8", "enq 2 1 12", "qstat", "enq 1 2 8", "qstat",
                                            "deq 16", "qstat", "deq 16", "deq 16", "deq 16", "qstat"])
        mk("queue-wrap", ["qnew 3 8 0"] + ["enq 1 %d 8" % i if i % 3 != 2 else "deq 8" for i in range(20)] + ["qstat"])
        mk("queue-sizes", ["qnew 0 8 0", "qnew 2 0 0", "qnew 2 16 0", "enq 1 1 0", "enq 1 2 17", "enq 1 3 16", "deq 8", "deq 15",
                           "deq 16", "deq 16", "qstat"])
        # repaired: slot header misaligned when max_msg_size is not a multiple of 8 (UBSan)
        mk("queue-odd-msgsize", ["qnew 3 12 0", "enq 1 1 8", "enq 2 1 12", "enq 1 2 9", "deq 12", "deq 12", "deq 12", "qstat"])
        mk("queue-cap1-drop", ["qnew 1 8 1", "enq 1 1 8", "enq 1 2 8", "enq 2 1 8", "qstat", "deq 8", "deq 8", "qstat"])
        mk("queue-block-wake", ["qnew 1 8 2", "enq 1 1 8", "enq 2 7 8", "enq 3 9 8", "qstat", "deq 4", "deq 8", "qstat", "deq 8",
                                "deq 8"])
        mk("queue-clear", ["qnew 3 8 0", "enq 1 1 8", "enq 1 2 8", "qclear", "qstat", "deq 8", "enq 1 3 8", "deq 8"])
        mk("timer-life", ["tstart 5", "tstop", "tinit", "tactive", "tstart 0", "tstart 5", "tstart 5", "tactive", "tsleep 80",
                          "tticks", "tstop", "tsleep 30", "tafter", "tactive", "tstop", "tstart 3", "tsleep 50", "tticks",
                          "tcleanup", "tsleep 20", "tafter", "tstart 5", "tcleanup"])
        mk("timer-stop-at-once", ["tinit", "tstart 200", "tstop", "tafter", "tstart 1", "tstop", "tsleep 10", "tafter", "tcleanup"])
        mk("mt-post", ["mt post 4 300 8 1", "mt post 2 200 1 2"])
        mk("mt-queue", ["mt queue 0 4 3 300 1"])
        mk("mt-queue-drop", ["mt queue 1 4 3 300 2"])
        mk("mt-queue-block", ["mt queue 2 2 4 200 3"])
        mk("mt-worker", ["mt worker 6 1"])
        mk("mt-timer", ["mt timer 2 30 1"])
        # runtime data-race clause: the same real runs under ThreadSanitizer
        for name, lines in (("post", ["mt post 3 200 4 5"]), ("queue", ["mt queue 2 2 3 150 5", ]),
                            ("queue-drop", ["mt queue 5 3 3 150 6"]), ("worker", ["mt worker 5 3"]),
                            ("timer", ["mt timer 2 25 4"]),
                            ("seq-worker", ["wnew 1 hold", "wjoin 1 20", "wstate 1", "wrelease 1", "wstate 1", "wstop 1",
                                            "wstep 1", "wjoin 1 20", "wstate 1", "wdestroy 1"])):
            mk("tsan-" + name, ["#tsan"] + lines)
        # repaired: heart_beat_flag raced between the timer thread and the backend (real callback vs real call_heart_beat)
        mk("tsan-heart-beat-flag", ["#tsan-hb", "hbrace 60"])
        # the FULL backend() loop of the initialised driver under ThreadSanitizer: real timer thread (2 ms), real console
        # worker on a pipe, the backend thread - 300 cycles, 40 console lines
        mk("tsan-backend-loop", ["#tsan-be", "mt backend 300 40 2000"])
        # the real callback run INSIDE the real call_heart_beat (interposed time()): the tick must still be owed
        mk("heart-beat-tick-in-round", ["#tsan-hb", "hbowed", "hbowed"])
        # repaired: async_queue_clear left a writer blocked on the full queue asleep (nothing ever set not_full again)
        mk("queue-clear-blocked-writer", ["qnew 1 8 2", "enq 1 1 8", "enq 2 7 8", "qclear", "qstat", "deq 8", "deq 8", "qstat"])
        mk("queue-clear-blocked-writer-cap2", ["qnew 2 8 2", "enq 1 1 8", "enq 1 2 8", "enq 2 1 8", "qclear", "qstat", "enq 1 3 8",
                                               "enq 1 4 8", "qclear", "deq 8", "qstat"])
        mk("mt-qclear", ["mt qclear 1 3 40 1"])
        mk("mt-qclear-cap2", ["mt qclear 2 4 60 2"])
        mk("tsan-qclear", ["#tsan", "mt qclear 2 3 40 7"])
        # the real console worker on a pipe: chunk-then-completion, shutdown at every stage of its life
        for mode in (0, 1, 2, 3):
            mk("mt-console-%d" % mode, ["mt console %d %d %d" % (300 if mode != 2 else 5, mode, mode + 1)])
        mk("tsan-console", ["#tsan", "mt console 200 1 9"])
        # the POLL back end (lib/async/async_runtime_poll.c compiled on Linux by harness/c19/c19poll.c): same commands,
        # same model.  Repaired: a 1-byte wake-up in front of an 8-byte completion record shifted the stream (garbled
        # key, completion lost); records beyond max_events were read and thrown away; key/data cut to 32 bits
        mk("poll-wakeup-then-post", ["#poll", "wakeup", "post 1 4097 7", "wait 8", "wait 8"])
        mk("poll-more-than-max", ["#poll", "post 1 1 1", "post 2 2 2", "post 1 3 3", "wait 1", "wait 1", "wait 1", "wait 1"])
        rt_names = ("posts-pile-up", "console-key-twice", "wakeup-only", "zero-key-zero-data", "wide-key-data",
                    "wakeup-in-window", "post-before-doorbell-read", "post-after-doorbell-read", "post-in-both-windows",
                    "split-wait-misuse", "ring-full", "wait-beyond-max-events", "mt-post")
        for c in list(B):
            if c.id[2:] in rt_names:
                mk("poll-" + c.id[2:], ["#poll"] + c.lines)
        mk("tsan-poll-post", ["#tsan", "#poll", "mt post 3 200 4 5"])
        return B

    def gen_rt(self, rng, n):
        L = []
        outstanding = 0
        for _ in range(n):
            k = rng.weighted([("post", 10), ("wakeup", 3), ("wait", 6), ("burst", 1)])
            if k == "post":
                L.append("post %d %d %d" % (rng.range(1, 4), rng.choice(KEYS), rng.choice(DATA)))
            elif k == "burst":
                p = rng.range(1, 4)
                for i in range(rng.range(2, 12)):
                    L.append("post %d %d %d" % (p, rng.choice(KEYS), i))
            elif k == "wakeup":
                L.append("wakeup")
            elif rng.chance(1, 2):
                L.append("wait %d" % rng.weighted([(1, 4), (2, 3), (3, 2), (8, 3), (64, 3)]))
            else:
                # one wait step by step, other threads' calls in the windows
                def others():
                    out = []
                    for _ in range(rng.weighted([(0, 3), (1, 4), (2, 2), (4, 1)])):
                        out.append("wakeup" if rng.chance(1, 5) else
                                   "post %d %d %d" % (rng.range(1, 4), rng.choice(KEYS), rng.choice(DATA)))
                    return out
                L.append("wbegin %d" % rng.weighted([(1, 3), (2, 2), (8, 3), (64, 2)]))
                L += others() + ["wread"] + others() + ["wend"]
        L += ["wend", "wait 64", "wait 64"]
        return L

    def gen_q(self, rng, n):
        cap = rng.weighted([(1, 2), (2, 4), (3, 3), (4, 2), (5, 1)])
        mm = rng.choice([8, 12, 16])
        fl = rng.choice([0, 0, 1, 1, 2, 2, 3, 4, 5, 6])
        L = ["qnew %d %d %d" % (cap, mm, fl)]
        seq = {}
        for _ in range(n):
            k = rng.weighted([("enq", 10), ("deq", 7), ("qstat", 2), ("qclear", 1)])
            if k == "enq":
                p = rng.range(1, 3)
                seq[p] = seq.get(p, 0) + 1
                size = rng.weighted([(8, 6), (mm, 3), (0, 1), (mm + 1, 1), (9, 1)])
                L.append("enq %d %d %d" % (p, seq[p], size))
            elif k == "deq":
                L.append("deq %d" % rng.weighted([(mm, 8), (8, 2), (4, 1), (0, 1)]))
            elif k == "qstat":
                L.append("qstat")
            else:
                L.append("qclear")
        L += ["qstat"] + ["deq %d" % mm] * (cap + 1) + ["qstat"]
        return L

    def gen_w(self, rng, n):
        L = []
        nw = rng.range(1, 3)
        made = set()
        for _ in range(n):
            w = rng.range(1, nw)
            if w not in made:
                made.add(w)
                L.append("wnew %d %s" % (w, rng.choice(["hold", "hold", "run", "race"])))
                if rng.chance(1, 2):
                    L.append("wjoin %d %d" % (w, rng.choice([0, 5, 10, 15, 25, 50])))
                continue
            k = rng.weighted([("wjoin", 6), ("wrelease", 4), ("wstep", 5), ("wstop", 4), ("wstate", 4), ("wquit", 1),
                              ("wdestroy", 2), ("wjoinu", 1)])
            if k == "wjoin":
                L.append("wjoin %d %d" % (w, rng.choice([0, 1, 5, 9, 10, 11, 20, 25, 50])))
            elif k == "wjoinu":
                L.append("wjoin %d -1" % w)
            else:
                L.append("%s %d" % (k, w))
        for w in sorted(made):
            L += ["wrelease %d" % w, "wstop %d" % w, "wstep %d" % w, "wjoin %d 20" % w, "wstate %d" % w, "wdestroy %d" % w]
        return L

    def gen_t(self, rng, n):
        L = []
        for _ in range(n):
            k = rng.weighted([("tinit", 2), ("tstart", 5), ("tstop", 4), ("tactive", 2), ("sleepticks", 4), ("tafter", 3),
                              ("tcleanup", 1)])
            if k == "tstart":
                L.append("tstart %d" % rng.weighted([(0, 1), (1, 2), (2, 3), (3, 2), (5, 2), (100, 1)]))
            elif k == "sleepticks":
                # long enough for at least one tick of every generated interval but 100
                L += ["tticks", "tsleep 60", "tticks"] if rng.chance(3, 4) else ["tticks"]
            elif k == "tafter":
                L += ["tsleep 12", "tafter"]
            else:
                L.append(k)
        L += ["tstop", "tsleep 15", "tafter", "tcleanup"]
        # an interval of 100 ms makes `tticks` after 60 ms ambiguous: keep such a timer silent
        out = []
        slow = False
        for l in L:
            if l.startswith("tstart"):
                slow = l == "tstart 100"
            if slow and l == "tsleep 60":
                continue
            out.append(l)
        return out

    def gen_case(self, rng, cid, tier):
        kind = rng.weighted([("rt", 5), ("q", 6), ("w", 4), ("t", 2), ("mix", 2), ("mt", 2)])
        if kind == "rt":
            L = self.gen_rt(rng, rng.range(4, 40))
            if rng.chance(1, 3):
                L = ["#poll"] + L
        elif kind == "q":
            L = self.gen_q(rng, rng.range(4, 40))
        elif kind == "w":
            L = self.gen_w(rng, rng.range(3, 12))
        elif kind == "t":
            L = self.gen_t(rng, rng.range(3, 8))
        elif kind == "mix":
            a, b = self.gen_rt(rng, rng.range(4, 15)), self.gen_q(rng, rng.range(4, 15))
            L = []
            while a or b:
                src = a if (a and (not b or rng.chance(1, 2))) else b
                L.append(src.pop(0))
        else:
            L = [rng.choice(["mt post %d %d %d %d" % (rng.range(1, 6), rng.range(50, 400), rng.choice([1, 2, 8, 64]), rng.below(10 ** 6)),
                             "mt queue %d %d %d %d %d" % (rng.choice([0, 1, 2, 4, 5, 6]), rng.range(1, 8), rng.range(1, 5),
                                                          rng.range(50, 300), rng.below(10 ** 6)),
                             "mt worker %d %d" % (rng.range(2, 6), rng.below(10 ** 6)),
                             "mt qclear %d %d %d %d" % (rng.range(1, 4), rng.range(2, 6), rng.range(20, 80), rng.below(10 ** 6)),
                             "mt console %d %d %d" % (rng.range(20, 600), rng.range(0, 3), rng.below(10 ** 6)),
                             "mt timer %d %d %d" % (rng.range(1, 4), rng.range(10, 40), rng.below(10 ** 6))])]
            if L[0].startswith("mt post") and rng.chance(1, 3):
                L = ["#poll"] + L
            if tier == "thorough" and rng.chance(1, 3):
                L = ["#tsan"] + L
        return E.Case(cid, L, {"origin": "generated", "kind": kind})

    def generate(self, rng, n, tier):
        return [self.gen_case(rng, "g%d" % i, tier) for i in range(n)]

    def extra_checks(self, ctx, tier, rng):
        """the oracle accepts every trace of the model: proved (NV.C19.model_satisfies_spec); this re-tests the COMPILED
        driver (parser, render/parseEv round trip) on fresh schedules"""
        probs = [{"kind": "tie-broken", "name": "shape:" + n,
                  "detail": "the source no longer has the shape the model mirrors: " + d.strip("/- ")}
                 for n, d in getattr(self, "_shape_failures", [])]
        probs += list(getattr(self, "_harness_problems", {}).values())
        if probs:
            return probs
        cases = self.generate(rng, 60 if tier == "quick" else 600, "model-only")
        model = {k: self.canon(v) for k, v in self.run_model(ctx, cases).items()}
        jd = self.run_judge(ctx, cases, model)
        bad = [(c, jd.get(c.id)) for c in cases if jd.get(c.id) != ["ok"]]
        if bad:
            c, v = bad[0]
            return [{"kind": "obligation-broken", "name": "judge rejects a model trace",
                     "detail": "%s\n%s" % (v, "\n".join(c.lines))}]
        return []

    def histogram(self, cases, impl):
        h = {}
        for c in cases:
            for l in impl.get(c.id, []):
                t = l.split()
                if not t:
                    continue
                key = t[0]
                if t[0] == "enq":
                    key = "enq-" + t[-1]
                elif t[0] == "deq":
                    key = "deq-none" if t[-1] == "none" else "deq-msg"
                elif t[0] == "wait":
                    n = int(t[2]) if len(t) > 2 and t[2].lstrip("-").isdigit() else -1
                    key = "wait-0" if n == 0 else "wait-1" if n == 1 else "wait-many"
                elif t[0] == "wjoin":
                    key = "wjoin-" + (t[3] if len(t) > 3 else "?")
                elif t[0] == "mt":
                    key = "mt-%s-%s" % (t[1], t[2] if len(t) > 2 else "?")
                elif t[0] == "post":
                    key = "post-rc" + t[-1]
                h[key] = h.get(key, 0) + 1
            if "#tsan" in c.lines:
                h["tsan-cases"] = h.get("tsan-cases", 0) + 1
            if "#poll" in c.lines:
                h["poll-backend-cases"] = h.get("poll-backend-cases", 0) + 1
        return h


PROP = C19()
