"""C18 - runtime errors are reported at the right file and line with a correct trace."""
import os
import re

from nvlib import extract as X

from nvlib import engine as E
from nvlib.check import Prop


def hx(s):
    return "h" + s.encode().hex()


class Src:
    """one LPC source file under construction: tokens of the harness `file` command + line bookkeeping"""

    def __init__(self, path):
        self.path = path              # "/c18/g1/m.c"
        self.toks = []
        self.line = 1                 # line number the next character goes to
        self.buf = ""

    @property
    def name(self):                   # as the driver names it (no leading slash)
        return self.path.lstrip("/")

    def text(self, s):
        self.buf += s
        self.line += s.count("\n")

    def _flush(self):
        if self.buf:
            self.toks.append(hx(self.buf))
            self.buf = ""

    def pad(self, kind, n):
        """n blank ('n'), comment ('c') or filler statement ('s') lines"""
        if n <= 0:
            return
        self._flush()
        self.toks.append("%s%d" % (kind, n))
        self.line += n

    def strip_nl(self):
        """drop the newline that ends the file (no-op when the file ends in padding)"""
        # (a `//` comment as the last line of a file without newline is not generated: the lexer's skip_line() runs
        # past the end marker of an included file and compiles stale buffer text - a compile-time defect outside C18)
        if self.buf.endswith("\n") and not self.buf[:-1].split("\n")[-1].lstrip().startswith("//"):
            self.buf = self.buf[:-1]
            return True
        return False

    def cmd(self):
        self._flush()
        return "file %s %s" % (self.path, " ".join(self.toks))


PAD_SMALL = [(0, 6), (1, 6), (2, 4), (3, 3), (7, 2), (30, 2), (120, 2), (254, 1), (255, 1), (256, 1), (257, 1), (600, 1)]
PAD_BIG = [(2000, 3), (9000, 2), (32700, 2), (32766, 1), (32767, 1), (32768, 1), (33000, 1), (50000, 1), (63000, 1)]
FILL = [(0, 6), (1, 5), (2, 4), (5, 3), (20, 2), (42, 1), (43, 1), (60, 1), (200, 1)]
FAILS = [("error", 5), ("div", 5), ("index", 3), ("longexpr", 3), ("longarr", 2), ("longwrap", 1), ("multi", 3), ("funlit", 3),
         ("funlit2", 2), ("funlitml", 2), ("macrodef", 2), ("macrouse", 2), ("strml", 2), ("ehfail", 2), ("cstack", 3)]
CALLS = [("ret", 8), ("assign", 3), ("funlit", 3), ("funlit2", 2), ("funlitml", 2), ("catch", 2), ("multi", 2)]
CALLS_PLAIN = [("ret", 8), ("assign", 3), ("catch", 2), ("multi", 2)]
# calls of a function of the same object that do not go through a local call instruction: apply_low (call_other,
# also from a simul_efun and through efun / simul_efun pointers) and function pointers to the local function
CALLS_LOCALNAME = [("co_self", 4), ("co_arrow", 2), ("simul", 3), ("fp_local", 3), ("fp_efun", 2), ("fp_simul", 2),
                   ("cb_map_fp", 2), ("cb_map_str", 2), ("cb_filter", 1)]   # cb_*: the call is made by an efun (callback)
WARN_BOOL = ("  x_ = (k == 1) | (k == 2);\n", "Warning:_bitwise_operation_on_boolean_values.")
WARN_PRAGMA = ("#pragma c18_unknown\n", "Warning:_Unknown_#pragma,_ignored.")
SIMUL_PROG, SIMUL_OBJ, SIMUL_LINE = "c18/simul_efun.c", "/c18/simul_efun", 4


class Gen:
    """builds one program family (child program, optional inherited program, include trees) with a failing
    statement at a recorded position, and the record (`expect` line) of what must be reported"""

    def __init__(self, rng, tag, big=False, thorough=False, warn=None, ginc=None):
        self.rng = rng
        self.d = "/c18/%s" % tag
        self.big = big
        self.thorough = thorough
        self.meta = {}
        # compile-time diagnostics on known lines (`#pragma warnings` + constructs that make the compiler warn)
        self.warn = rng.chance(1, 3) if warn is None else warn
        self.ces = []
        self.ginc = rng.chance(1, 3) if ginc is None else ginc    # run under the GlobalInclude configuration

    def maybe_warn(self, src, toplevel, force=False):
        if not self.warn or not (force or self.rng.chance(1, 3)):
            return
        text, msg = WARN_PRAGMA if toplevel else WARN_BOOL
        self.ces.append((src.name, src.line, msg))
        src.text(text)
        self.meta["ce"] = self.meta.get("ce", 0) + 1

    def padding(self, src, allow_big=False):
        r = self.rng
        if self.big and not self.meta.get("bigpad") and r.chance(1, 3):
            n = r.weighted(PAD_BIG)
            self.meta["bigpad"] = n
        else:
            n = r.weighted(PAD_SMALL)
        if n:
            src.pad(r.choice(["n", "c"]), n)
        self.maybe_warn(src, True)
        return n

    # -- function bodies ---------------------------------------------------
    def fn_call(self, src, name, nxt, prog, obj, frames, oneline=False):
        """non-final chain function `name` calling the next one; `nxt` is a function name, `::name` (call of the
        inherited definition) or a callable arg -> call expression (call_other); appends this frame's trace records"""
        r = self.rng
        call = nxt if callable(nxt) else (lambda a: "%s(%s)" % (nxt, a))
        kinds = CALLS if not (isinstance(nxt, str) and nxt.startswith("::")) else CALLS_PLAIN
        kind = r.weighted(kinds)
        if isinstance(nxt, str) and not nxt.startswith("::") and not oneline and r.chance(2, 5):
            # the next function is reached through apply_low / a function pointer instead of a local call
            kind = r.weighted(CALLS_LOCALNAME)
            expr = {"co_self": 'call_other(this_object(), "%s", k)' % nxt,
                    "co_arrow": 'this_object()->%s(k)' % nxt,
                    "simul": 'c18_via(this_object(), "%s", k)' % nxt,
                    "fp_local": 'evaluate((: %s :), k)' % nxt,
                    "fp_efun": 'evaluate((: call_other :), this_object(), "%s", k)' % nxt,
                    "fp_simul": 'evaluate((: c18_via :), this_object(), "%s", k)' % nxt,
                    "cb_map_fp": 'map_array(({ k }), (: %s :))[0]' % nxt,
                    "cb_map_str": 'map_array(({ k }), "%s", this_object())[0]' % nxt,
                    "cb_filter": 'sizeof(filter_array(({ k }), (: %s :)))' % nxt}[kind]
            src.text("int %s(int k) {\n" % name)
            src.pad("s", r.weighted(FILL))
            self.maybe_warn(src, False)
            lo = src.line
            src.text("  return %s + 1;\n" % expr)
            frames.append((name, prog, obj, src.name, lo, lo))
            if kind in ("simul", "fp_simul"):
                frames.append(("c18_via", SIMUL_PROG, SIMUL_OBJ, SIMUL_PROG, SIMUL_LINE, SIMUL_LINE))
            src.pad("s", r.weighted(FILL))
            src.text("  return x_;\n}\n")
            self.meta.setdefault("calls", []).append(kind)
            return False
        if oneline:
            # the whole function on ONE line (used for the last line of a file)
            kind = r.choice(["ret", "assign", "catch"] + ([] if kinds is CALLS_PLAIN else ["funlit"]))
            body = {"ret": "return %s + 1;" % call("k"), "assign": "x_ = %s; return x_;" % call("k"),
                    "catch": "return catch(%s) ? 1 : 0;" % call("k"),
                    "funlit": "return evaluate((: %s :), k) + 1;" % call("$1")}[kind]
            lo = src.line
            src.text("int %s(int k) { %s }\n" % (name, body))
            frames.append((name, prog, obj, src.name, lo, lo))
            if kind == "funlit":
                frames.append(("<function>", prog, obj, src.name, lo, lo))
            self.meta.setdefault("calls", []).append(kind)
            return kind == "catch"
        src.text("int %s(int k) {\n" % name)
        src.pad("s", r.weighted(FILL))
        self.maybe_warn(src, False)
        if r.chance(1, 4):
            src.pad(r.choice(["n", "c"]), r.range(1, 3))
        lo = src.line
        nlit = 0
        if kind == "ret":
            src.text("  return %s + 1;\n" % call("k"))
        elif kind == "assign":
            src.text("  x_ = %s;\n" % call("k"))
        elif kind == "funlit":
            src.text("  return evaluate((: %s :), k) + 1;\n" % call("$1"))
            nlit = 1
        elif kind == "funlit2":
            src.text("  return evaluate((: evaluate((: %s + 2 :), $1) :), k) + 1;\n" % call("$1"))
            nlit = 2
        elif kind == "funlitml":
            src.text("  return evaluate((:\n      %s\n        + 1\n    :), k) + 1;\n" % call("$1"))
            nlit = 1
        elif kind == "catch":
            src.text("  return catch(%s) ? 1 : 0;\n" % call("k"))
        else:
            src.text("  x_ = 3 +\n    %s;\n" % call("k"))
        hi = src.line - 1
        frames.append((name, prog, obj, src.name, lo, hi))
        for _ in range(nlit):
            frames.append(("<function>", prog, obj, src.name, lo, hi))
        src.pad("s", r.weighted(FILL))
        src.text("  return x_;\n}\n")
        self.meta.setdefault("calls", []).append(kind)
        return kind == "catch"

    def fn_fail(self, src, name, prog, obj, frames, kind=None, oneline=False):
        r = self.rng
        kind = kind or r.weighted(FAILS)
        if oneline:
            if kind not in ("error", "div", "index", "funlit"):
                kind = r.choice(["error", "div", "index", "funlit"])
            body = {"error": 'error("boom");', "div": "x_ = 10 / k;", "index": "x_ = ({ 1, 2 })[k + 5];",
                    "funlit": "return evaluate((: 10 / $1 :), k);"}[kind]
            lo = src.line
            src.text("int %s(int k) { %s return 0; }\n" % (name, body))
            frames.append((name, prog, obj, src.name, lo, lo))
            if kind == "funlit":
                frames.append(("<function>", prog, obj, src.name, lo, lo))
            self.meta["fail"] = kind
            return None
        if kind == "macrodef":
            # a macro whose DEFINITION spans four physical lines, right in front of the function
            src.text("#undef C18_DIV\n#define C18_DIV(a, b) \\\n  ((a) \\\n   / \\\n   (b))\n")
        elif kind == "macrouse":
            src.text("#undef C18_DIV3\n#define C18_DIV3(a, b, c) ((a) / (b) + (c))\n")
        src.text("int %s(int k) {\n" % name)
        if kind in ("longarr",):
            src.text("  mixed a_;\n")
        nfill = r.weighted(FILL)
        src.pad("s", nfill)
        self.maybe_warn(src, False, force=bool(self.warn and not self.ces))
        if r.chance(1, 4):
            src.pad(r.choice(["n", "c"]), r.range(1, 3))
        lo = src.line
        err = None
        if kind == "error":
            src.text('  error("boom");\n')
            err = "boom"
        elif kind == "ehfail":
            # the master's error_handler logs this error and then fails itself (error inside the mudlib error handler)
            src.text('  error("c18_eh_fail");\n')
            err = "c18_eh_fail"
        elif kind == "div":
            src.text("  x_ = 10 / k;\n")
        elif kind == "cstack":
            # the efun call_stack() (names, programs, objects of the active frames) evaluated in the failing frame
            src.text("  x_ = c18_cs(call_stack(2), call_stack(0), call_stack(1)) / k;\n")
        elif kind == "index":
            src.text("  x_ = ({ 1, 2 })[k + 5];\n")
        elif kind == "longexpr":
            n = r.choice([38, 40, 41, 42, 52, 64, 83, 84, 85, 100, 126, 130])
            src.text("  x_ = (" + "+".join("(k*%d)" % (i % 50 + 2) for i in range(n)) + ") / k;\n")
            self.meta["long"] = n
        elif kind.startswith("sized:"):
            # one statement whose code (with the trailing `return 0;`) is exactly T bytes: 8 + 6a + 3b + 4c
            t = int(kind[6:])
            c = (t - 8) % 3
            rem = (t - 8 - 4 * c) // 3
            b = rem % 2
            a = (rem - b) // 2
            terms = ["(k*%d)" % (i % 50 + 2) for i in range(a)] + ["k"] * b + ["(-k)"] * c
            src.text("  x_ = (" + "+".join(terms) + ") / k;\n")
            self.meta["long"] = t
        elif kind == "longwrap":
            n = r.choice([150, 300, 500])
            terms = ["(k*%d)" % (i % 50 + 2) for i in range(n)]
            rows = ["+".join(terms[i:i + 100]) for i in range(0, n, 100)]
            src.text("  x_ = (" + "\n    +".join(rows) + ") / k;\n")
            self.meta["long"] = n
        elif kind == "longarr":
            n = r.choice([49, 50, 51, 86, 100, 120])
            src.text("  a_ = ({ " + ", ".join("k*%d" % (i % 50 + 2) for i in range(n)) + " })[k + %d];\n" % (n + 3))
            self.meta["long"] = n
        elif kind == "multi":
            src.text("  x_ = 7 +\n\n    (10 / k);\n")
        elif kind == "macrodef":
            src.text("  x_ = C18_DIV(10, k);\n")
        elif kind == "macrouse":
            # the macro's ARGUMENTS span three lines
            src.text("  x_ = C18_DIV3(10,\n      k,\n      7);\n")
        elif kind == "strml":
            # a string literal that spans two lines (the newline is part of the string)
            src.text('  x_ = strlen("ab\n  cd") / k;\n')
        elif kind == "funlit2":
            src.text("  return evaluate((: evaluate((: 10 / $1 :), $1) + 1 :), k);\n")
        elif kind == "funlitml":
            src.text("  return evaluate((:\n      $1 +\n      10 / $1\n    :), k);\n")
        else:  # funlit
            src.text("  return evaluate((: 10 / $1 :), k);\n")
        hi = src.line - 1
        frames.append((name, prog, obj, src.name, lo, hi))
        for _ in range({"funlit": 1, "funlitml": 1, "funlit2": 2}.get(kind, 0)):
            frames.append(("<function>", prog, obj, src.name, lo, hi))
        if not kind.startswith("sized:"):
            src.pad("s", r.weighted(FILL))
        src.text("  return 0;\n}\n")
        self.meta["fail"] = kind.split(":")[0]
        return err

    # -- one program: main file + include tree; returns list of Src ------------
    def program(self, path, fnames, nxt_after, prog_obj, frames, head, depth, fail_kind=None, fail_slot=None,
                prepad=None, tails=None):
        """fnames: chain functions defined in this program, in call order; the last one calls nxt_after (a function
        of the inherited program) or, when nxt_after is None, fails.
        tails: how each file ends — nl (newline after the last line), nonl (no newline at the end of the file), blank
        (trailing blank lines), oneline / oneline-nonl (the last function of the file is one line, so a call site or the
        failing statement is on the LAST line of the file), single (the deepest include is that one line and nothing else)"""
        r = self.rng
        main = Src(path)
        prog, obj = prog_obj
        TAILS = [("nl", 5), ("nonl", 2), ("blank", 1), ("oneline-nonl", 4), ("oneline", 1), ("single", 2)]
        tails = list(tails) if tails else []
        tails += [r.weighted(TAILS) for _ in range(depth + 1 - len(tails))]
        main.text(head)
        if prepad:
            main.pad(prepad[0], prepad[1])
        else:
            self.padding(main, allow_big=True)
        incs = [Src("%s/%s_i%d.h" % (self.d, os.path.basename(path)[:-2], i + 1)) for i in range(depth)]
        # slots in compilation order (see below); the deepest include may consist of one line only
        # slots in compilation order: main-pre, inc1-pre, ..., incD, ..., inc1-post, main-post
        files = [main] + incs
        slots = list(range(depth + 1)) + list(range(depth - 1, -1, -1))
        place = {}
        for fn in fnames:
            si = r.below(len(slots))
            if fail_slot is not None and fn == fnames[-1]:
                si = fail_slot % len(slots)
            place.setdefault(si, []).append(fn)
        single = depth > 0 and tails[depth] == "single" and len(place.get(depth, [])) == 1
        for i, s in enumerate(incs):
            if not (single and i == depth - 1):
                s.text("// include level %d\n" % (i + 1))
        # the failing / last function goes to a random slot as well; order inside a slot = call order is irrelevant
        caught = False
        err = None
        recs = {}
        for si, fi in enumerate(slots):
            src = files[fi]
            going_down = si < depth
            final_slot = si == (depth if fi == depth else len(slots) - 1 - fi)
            for fn in place.get(si, []):
                one = final_slot and fn == place[si][-1] and (tails[fi].startswith("oneline") or (single and fi == depth))
                if not (single and fi == depth):
                    self.padding(src, allow_big=(fi == 0 and not going_down))
                idx = fnames.index(fn)
                fr = []
                if idx + 1 < len(fnames) or nxt_after:
                    nxt = fnames[idx + 1] if idx + 1 < len(fnames) else nxt_after
                    if self.fn_call(src, fn, nxt, prog, obj, fr, oneline=one):
                        caught = True
                else:
                    err = self.fn_fail(src, fn, prog, obj, fr, fail_kind, oneline=one)
                if one:
                    self.meta.setdefault("lastline", []).append(("fail" if not (idx + 1 < len(fnames) or nxt_after) else "call")
                                                                + ("-inc%d" % fi if fi else "-main"))
                recs[fn] = fr
                self.meta.setdefault("slots", []).append("%s%d%s" % ("i" if fi else "m", fi, "" if fi == depth else ("<" if going_down else ">")))
            if going_down:
                self.padding(src)
                src.text('#include "%s"\n' % os.path.basename(incs[fi].path))
        for fi, src in enumerate(files):
            t = tails[fi]
            if t in ("nonl", "oneline-nonl") or (t == "single" and fi == depth and single):
                if src.strip_nl():
                    self.meta.setdefault("nonl", []).append(fi)
            elif t == "blank":
                src.pad("n", r.range(1, 3))
            elif fi == 0 and t == "nl" and r.chance(1, 2):
                src.text("// end\n")
        for fn in fnames:
            frames.extend(recs[fn])
        return files, caught, err

    def build(self, fail_kind=None, depth=None, bdepth=None, nchild=None, nbase=None, binary=None, fail_slot=None,
              prepad=None, kind="plain", other=None, override=None, tails=None, btails=None, via=None, rep=None):
        """chain of calls: child functions (object m) -> [child's override b1 calling ::b1] -> inherited functions, or
        child functions -> call_other into object `other` -> its functions -> [functions other inherits]"""
        r = self.rng
        depth = r.weighted([(0, 3), (1, 4), (2, 3), (3, 2)]) if depth is None else depth
        inherit = r.chance(1, 2) if nbase is None else nbase > 0
        nchild = r.range(1, 4) if nchild is None else nchild
        nbase = (r.range(1, 3) if inherit else 0) if nbase is None else nbase
        binary = r.chance(1, 3) if binary is None else binary
        other = r.chance(1, 3) if other is None else other
        override = (inherit and not other and r.chance(1, 2)) if override is None else (override and inherit and not other)
        d = self.d
        cprog, cobj = "%s/m.c" % d.lstrip("/"), "%s/m" % d
        oprog, oobj = "%s/other.c" % d.lstrip("/"), "%s/other" % d
        bprog = "%s/base.c" % d.lstrip("/")
        cf = ["go"] + ["f%d" % i for i in range(1, nchild)]
        bf = ["b%d" % i for i in range(1, nbase + 1)]
        of = ["o%d" % i for i in range(1, r.range(1, 3) + 1)] if other else []
        frames = []
        pragma = ("#pragma save_binary\n" if binary else "") + ("#pragma warnings\n" if self.warn else "")
        caught = False
        allfiles = []

        via = r.weighted([("apply", 6), ("reset", 1), ("hb", 1), ("callout", 1), ("clone", 1)]) if via is None else via
        rep = r.weighted([(1, 2), (2, 5), (3, 2)]) if rep is None else rep
        wrap = {}

        def head_for(fns, inh, wrappers=False):
            h = pragma + (('inherit "%s/base";\n' % d) if inh else "int x_;\n")
            h += "void set_oid(string s) {}\n" + "".join("int %s(int k);\n" % f for f in fns)
            if wrappers:
                # frames the driver creates itself: create() of a clone, reset(), heart_beat(), a call_out
                h += "int arm_;\nint go(int k);\n"
                n = h.count("\n") + 1
                h += ("void arm(mixed a) { a = to_int(a); arm_ = a; if (a == 3) set_heart_beat(1); if (a == 4) { call_out(\"later\", 1); call_out(\"later\", 1); } }\n"
                      "void create() { if (clonep(this_object())) go(0); }\n"
                      "void reset() { if (arm_ == 2) go(0); }\n"
                      "void heart_beat() { if (arm_ == 3) go(0); }\n"
                      "void later() { go(0); }\n")
                wrap.update({"clone": ("create", n + 1), "reset": ("reset", n + 2), "hb": ("heart_beat", n + 3),
                             "callout": ("later", n + 4)})
            return h

        if other:
            nxt_child = (lambda a: '"%s"->%s(%s)' % (oobj, of[0], a)) if r.chance(1, 2) else \
                        (lambda a: 'call_other("%s", "%s", %s)' % (oobj, of[0], a))
            files, c1, _ = self.program("%s/m.c" % d, cf, nxt_child, (cprog, cobj), frames, head_for(cf[1:], False, True),
                                        depth, fail_kind, None, prepad, tails)
            ofiles, c2, _ = self.program("%s/other.c" % d, of, bf[0] if bf else None, (oprog, oobj), frames,
                                         head_for(of[1:], inherit), r.weighted([(0, 3), (1, 2)]), fail_kind,
                                         None if bf else fail_slot)
            allfiles = ofiles + files
            caught = c1 or c2
            run_obj = oobj
        else:
            cfn = cf + ([bf[0]] if override else [])
            nxt_child = ("::" + bf[0]) if override else (bf[0] if bf else None)
            files, caught, _ = self.program("%s/m.c" % d, cfn, nxt_child, (cprog, cobj), frames,
                                            head_for(cfn[1:], inherit, True), depth, fail_kind, None if bf else fail_slot, prepad,
                                            tails)
            allfiles = list(files)
            run_obj = cobj
        if inherit:
            bdepth = r.weighted([(0, 3), (1, 2), (2, 1)]) if bdepth is None else bdepth
            bhead = pragma + "int x_;\n" + "".join("int %s(int k);\n" % f for f in bf[1:])
            bfiles, c3, _ = self.program("%s/base.c" % d, bf, None, (bprog, run_obj), frames, bhead, bdepth, fail_kind,
                                         fail_slot, None, btails)
            allfiles = bfiles + allfiles
            caught = caught or c3
        # `go` is called without arguments: k = 0 everywhere.  The whole scenario runs `rep` times in the same driver
        # (the first run fills the apply cache, the later ones create their frames through the cache-hit path) and is
        # started by a plain apply or by the driver itself (reset, heart beat, call_out, create of a clone)
        if via != "apply":
            wname, wline = wrap[via]
            wobj = cobj + "#*" if via == "clone" else cobj
            frames = [(wname, cprog, wobj, cprog, wline, wline)] + \
                [(f[0], f[1], wobj if f[2] == cobj else f[2]) + f[3:] for f in frames]
        last = frames[-1]
        exp = "expect kind=%s file=%s lines=%d-%d program=%s object=%s trace=%s" % (
            kind, last[3], last[4], last[5], last[1], last[2],
            "|".join("%s@%s@%s@%s@%d-%d" % f for f in frames))
        if via == "callout":
            rep = 2
        trig = {"apply": ["apply o1 go", exp] * rep,
                "reset": ["vapply o1 arm 2"] + ["reset o1", exp] * rep,
                # one more tick without arming again: an uncaught error switched the heart beat off (no further report),
                # a caught one did not (the same error is reported again)
                "hb": ["vapply o1 arm 3", "tick 1", exp] * rep + (["tick 1", exp] if caught else ["tick 1"]),
                "callout": ["vapply o1 arm 4", "tick 2", exp, exp],
                "clone": ["clone o5 %s/m" % d, exp] * rep}[via]
        lines = [s.cmd() for s in allfiles]
        lines += ["expectce file=%s line=%d text=%s" % c for c in self.ces]
        loads = (["load o3 %s/base" % d] if inherit else []) + (["load o2 %s/other" % d] if other else []) + \
            ["load o1 %s/m" % d]
        dumps = ["dump o1"] + (["dump o2"] if other else [])
        lines += loads + trig + dumps
        if binary:
            # every program of the family is dropped and comes back from its saved binary
            lines += ["unload o1"] + (["unload o2"] if other else []) + (["unload o3"] if inherit else [])
            lines += loads + trig + dumps
        if self.ginc:
            lines = ["mode ginc"] + lines
        self.meta.update({"via": via, "rep": rep, "ginc": bool(self.ginc)})
        self.meta.update({"depth": depth, "inherit": inherit, "binary": binary, "caught": caught, "other": bool(other),
                          "override": bool(override), "maxline": max(s.line for s in allfiles)})
        return lines


def case_init(tag, pad=3, funcs=0, sameline=False):
    """failing expression in a global variable initialiser (runs in __INIT while the object is loaded); `sameline`: the
    initialiser is on the line on which the last function in front of it ends (the line counters of the two code
    blocks then hold the SAME value)"""
    d = "/c18/%s" % tag
    m = Src("%s/m.c" % d)
    m.text("int x_;\nint z_;\nvoid set_oid(string s) {}\n")
    for i in range(funcs):
        m.text("int h%d(int k) {\n  x_ = k;\n  return x_ + %d;\n}\n" % (i, i))
    m.pad("n", pad)
    ln = m.line
    if sameline:
        m.text("int hs(int k) { x_ = k; return x_ + 1; } ")
    m.text("mixed g_ = 10 / z_;\n")
    if sameline == 2:
        # ... and the same again on the next line (the failing initialiser is the FIRST one)
        m.text("int ht(int k) { x_ = k; return x_ + 2; } mixed g2_ = 7 + x_;\n")
    m.text("int go() { return 1; }\n")
    p, o = "%s/m.c" % d.lstrip("/"), "%s/m" % d
    exp = "expect kind=plain phase=load file=%s lines=%d-%d program=%s object=%s trace=#global_init#@%s@%s@%s@%d-%d" % (
        p, ln, ln, p, o, p, o, p, ln, ln)
    return [m.cmd(), "load o1 %s/m" % d, exp]


def case_init_big(tag, nlines=6, nterms=24, pad=2, prefill=0):
    """an initialiser block of several hundred bytes: `nlines` initialised globals with long expressions in front of the
    failing one (its noted offset is far beyond 255)"""
    d = "/c18/%s" % tag
    m = Src("%s/m.c" % d)
    m.text("int x_;\nint z_;\nvoid set_oid(string s) {}\nint h0(int k) {\n  x_ = k;\n  return x_;\n}\n")
    # `prefill` filler statements (8 bytes of code each) in functions in front: with about 470 / 990 / 2010 of them the
    # function code ends just below 4096 / 8192 / 16384 bytes, so appending the initialiser block makes the program
    # block grow (and move) inside i_generate___INIT
    k = 0
    while prefill > 0:
        n = min(180, prefill)
        k += 1
        m.text("int hp%d(int k) {\n" % k)
        m.pad("s", n)
        m.text("  return k;\n}\n")
        prefill -= n
    m.pad("n", pad)
    for i in range(nlines):
        m.text("int a%d_ = %s;\n" % (i, " + ".join("(x_ * %d)" % (j % 50 + 2) for j in range(nterms))))
        if i % 2:
            m.pad("c", 1)
    ln = m.line
    m.text("mixed g_ = 10 / z_;\nint b_ = 3 + x_;\nint go() { return 1; }\n")
    p, o = "%s/m.c" % d.lstrip("/"), "%s/m" % d
    exp = "expect kind=plain phase=load file=%s lines=%d-%d program=%s object=%s trace=#global_init#@%s@%s@%s@%d-%d" % (
        p, ln, ln, p, o, p, o, p, ln, ln)
    return [m.cmd(), "load o1 %s/m" % d, exp]


def case_after_fatal_in_include(tag, depth=2, rng=None):
    """the lexer gives up INSIDE a nested include (comment that is never closed: a fatal lexer error, the include stack is
    not unwound by the parser), then a good program is compiled in the same driver and fails at run time"""
    d = "/c18/%s" % tag
    b = Src("%s/bad.c" % d)
    b.text("int x_;\nvoid set_oid(string s) {}\nint h0(int k) {\n  x_ = k;\n  return x_;\n}\n")
    files = [b] + [Src("%s/f%d.h" % (d, i)) for i in range(1, depth + 1)]
    for i, src in enumerate(files):
        if i:
            src.text("// level %d\n" % i)
        src.pad("n", rng.range(0, 9) if rng else 2)
        if i < depth:
            src.text('#include "f%d.h"\n' % (i + 1))
            src.text("int after%d(int k) { return k; }\n" % i)
    last = files[depth]
    last.text("int inner(int k) { return k; }\n")
    cl = last.line
    last.text("/* this comment is never closed\nint lost(int k) { return k; }\n")
    m = Src("%s/m.c" % d)
    m.text("int x_;\nvoid set_oid(string s) {}\n")
    m.pad("n", rng.range(0, 20) if rng else 4)
    m.text('#include "g.h"\n')
    g = Src("%s/g.h" % d)
    g.text("// g\nint gf(int k) {\n")
    gl = g.line
    g.text("  x_ = 10 / k;\n  return x_;\n}\n")
    ml = m.line
    m.text("int go(int k) { return gf(k) + 1; }\n")
    p, o = "%s/m.c" % d.lstrip("/"), "%s/m" % d
    fr = [("go", p, o, p, ml, ml), ("gf", p, o, g.name, gl, gl)]
    exp = "expect kind=plain file=%s lines=%d-%d program=%s object=%s trace=%s" % (
        g.name, gl, gl, p, o, "|".join("%s@%s@%s@%s@%d-%d" % f for f in fr))
    return [f.cmd() for f in files] + [m.cmd(), g.cmd(), "load o4 %s/bad" % d,
            "expectce file=%s line=-1 text=End_of_file_in_a_comment" % last.name,
            "load o1 %s/m" % d, "apply o1 go", exp, "dump o1"]


def case_after_failed_compile(tag, rng=None, nfun=2):
    """a program that does not compile (its error is behind complete functions, so code and line runs had been generated)
    followed, in the same driver, by a good program with a runtime error: nothing of the abandoned compilation may leak"""
    d = "/c18/%s" % tag
    b = Src("%s/bad.c" % d)
    b.text("int x_;\nvoid set_oid(string s) {}\n")
    for i in range(nfun):
        b.text("int h%d(int k) {\n" % i)
        b.pad("s", rng.range(1, 30) if rng else 7)
        b.text("  return k + %d;\n}\n" % i)
    bl = b.line + 1
    b.text("int bad_(int k) {\n  zz_undefined_ = k;\n  return k;\n}\n")
    m = Src("%s/m.c" % d)
    m.text("int x_;\nvoid set_oid(string s) {}\n")
    m.pad("n", rng.range(0, 20) if rng else 3)
    m.text("int go(int k) {\n")
    m.pad("s", rng.range(0, 12) if rng else 2)
    ln = m.line
    m.text("  x_ = 10 / k;\n  return 0;\n}\n")
    p, o = "%s/m.c" % d.lstrip("/"), "%s/m" % d
    exp = "expect kind=plain file=%s lines=%d-%d program=%s object=%s trace=go@%s@%s@%s@%d-%d" % (p, ln, ln, p, o, p, o, p, ln, ln)
    return [b.cmd(), m.cmd(), "load o4 %s/bad" % d, "expectce file=%s line=%d text=Undefined_variable_'zz_undefined_'" % (b.name, bl),
            "load o1 %s/m" % d, "apply o1 go", exp, "dump o1"]


def case_init_pair(tag, pad=3):
    """two programs compiled one after the other whose only initialisers are on the SAME line: the line bookkeeping of
    the initialiser block must start afresh for every compilation"""
    d = "/c18/%s" % tag
    a = Src("%s/a.c" % d)
    a.text("int x_;\nint y_;\nvoid set_oid(string s) {}\n")
    a.pad("n", pad)
    a.text("int a_ = 7 + x_;\n")
    lines = case_init(tag, pad=pad, funcs=0)
    return [a.cmd(), lines[0], "load o4 %s/a" % d] + lines[1:]


def case_reinclude(tag, first_ok=False):
    """the same header included twice; the failing statement is in the second (or, first_ok, the first) copy"""
    d = "/c18/%s" % tag
    m = Src("%s/m.c" % d)
    t = Src("%s/t.h" % d)
    t.text("// t\nint FN(int k) {\n")
    tl = t.line
    t.text("  x_ = 10 / k;\n  return x_;\n}\n")
    m.text('int x_;\nvoid set_oid(string s) {}\n#define FN fa\n#include "t.h"\n#undef FN\n#define FN fb\n#include "t.h"\n')
    gl = m.line
    m.text("int go() { return %s; }\n" % ("fa(0) + fb(1)" if first_ok else "fa(1) + fb(0)"))
    p, o = "%s/m.c" % d.lstrip("/"), "%s/m" % d
    fn = "fa" if first_ok else "fb"
    exp = "expect kind=%s file=%s lines=%d-%d program=%s object=%s trace=go@%s@%s@%s@%d-%d|%s@%s@%s@%s@%d-%d" % (
        "plain", t.name, tl, tl, p, o, p, o, p, gl, gl, fn, p, o, t.name, tl, tl)
    return [m.cmd(), t.cmd(), "load o1 %s/m" % d, "apply o1 go", "dump o1", exp]


def case_multi_include(tag, variant, rng=None):
    """headers included more than once: `again` = three copies of one header selected by a macro, `self` = a header
    that includes itself once (guarded), `back` = a.h includes b.h which includes a.h again (guarded); the failing
    statement sits behind the inner inclusion, so its line must not be shifted by the copies read before"""
    d = "/c18/%s" % tag
    p, o = "%s/m.c" % d.lstrip("/"), "%s/m" % d
    m = Src("%s/m.c" % d)
    m.text("int x_;\nvoid set_oid(string s) {}\n")
    files = [m]
    pad = (lambda src: src.pad("n", rng.range(0, 40))) if rng else (lambda src: None)
    if variant == "again":
        t = Src("%s/t.h" % d)
        t.text("// t\n")
        pad(t)
        t.text("int FN(int k) {\n")
        tl = t.line
        t.text("  x_ = 10 / k;\n  return x_;\n}\n")
        pad(t)
        which = rng.range(0, 2) if rng else 2
        for i, fn in enumerate(("fa", "fb", "fc")):
            pad(m)
            m.text('#define FN %s\n#include "t.h"\n#undef FN\n' % fn)
        gl = m.line
        args = ["1", "1", "1"]
        args[which] = "0"
        m.text("int go() { return fa(%s) + fb(%s) + fc(%s); }\n" % tuple(args))
        fn = ("fa", "fb", "fc")[which]
        frames = [("go", p, o, p, gl, gl), (fn, p, o, t.name, tl, tl)]
        files.append(t)
    elif variant == "self":
        t = Src("%s/t.h" % d)
        t.text("// t\n#ifndef T_ONCE\n#define T_ONCE\n")
        pad(t)
        t.text('#include "t.h"\n')
        pad(t)
        t.text("int fa(int k) {\n")
        tl = t.line
        t.text("  x_ = 10 / k;\n  return x_;\n}\n#endif\n")
        pad(m)
        m.text('#include "t.h"\n')
        pad(m)
        gl = m.line
        m.text("int go() { return fa(0); }\n")
        frames = [("go", p, o, p, gl, gl), ("fa", p, o, t.name, tl, tl)]
        files.append(t)
    else:  # back
        a = Src("%s/a.h" % d)
        b = Src("%s/b.h" % d)
        a.text("// a\n#ifndef A_ONCE\n#define A_ONCE\n")
        pad(a)
        a.text('#include "b.h"\n')
        pad(a)
        a.text("int fa(int k) {\n")
        al = a.line
        a.text("  x_ = 10 / k;\n  return x_;\n}\n#endif\n// tail of a\n")
        b.text("// b\n")
        pad(b)
        b.text('#include "a.h"\n')
        pad(b)
        b.text("int fb(int k) {\n")
        bl = b.line
        b.text("  return fa(k) + 1;\n}\n")
        m.text("int fa(int k);\n")
        pad(m)
        m.text('#include "a.h"\n')
        pad(m)
        gl = m.line
        m.text("int go() { return fb(0); }\n")
        frames = [("go", p, o, p, gl, gl), ("fb", p, o, b.name, bl, bl), ("fa", p, o, a.name, al, al)]
        files += [a, b]
    last = frames[-1]
    exp = "expect kind=plain file=%s lines=%d-%d program=%s object=%s trace=%s" % (
        last[3], last[4], last[5], p, o, "|".join("%s@%s@%s@%s@%d-%d" % f for f in frames))
    return [f.cmd() for f in files] + ["load o1 %s/m" % d, "apply o1 go", "dump o1", exp]


def case_bigtable(tag, nfun, nlines, extra=0, binary=True, stmt="  k++;\n", nincl=0):
    """many short statements: `nfun` functions of `nlines` lines `k++;` (3 bytes of code and one 3 byte run each) plus
    `extra` more such lines in go(): the line tables (`file_info[0]` = their size in bytes, an unsigned short) grow as
    fast as the code (`program_size`, an unsigned short too); the failing statement is the last one of the program"""
    d = "/c18/%s" % tag
    m = Src("%s/m.c" % d)
    m.text(("#pragma save_binary\n" if binary else "") + "int x_;\nvoid set_oid(string s) {}\n")
    e = Src("%s/e.h" % d)
    e.text("// e\n")
    m.text('#include "e.h"\n' * nincl)      # every inclusion adds two file_info segments (8 bytes) and no code
    for i in range(nfun):
        m.text("int h%d(int k) {\n" % i)
        m._flush()
        m.toks.append(hx(stmt * nlines))
        m.line += nlines
        m.text("  return k;\n}\n")
    m.text("int go(int k) {\n")
    if extra:
        m._flush()
        m.toks.append(hx(stmt * extra))
        m.line += extra
    ln = m.line
    m.text("  x_ = 10 / (k - k);\n  return 0;\n}\n")
    p, o = d.lstrip("/") + "/m.c", d + "/m"
    exp = "expect kind=plain file=%s lines=%d-%d program=%s object=%s trace=go@%s@%s@%s@%d-%d" % (p, ln, ln, p, o, p, o, p, ln, ln)
    run = ["load o1 %s/m" % d, "apply o1 go", exp, "dump o1"]
    return [m.cmd()] + ([e.cmd()] if nincl else []) + run + (["unload o1"] + run if binary else [])


def case_manyruns(tag, nlines, per=400, tail=0, binary=False):
    """a very long source with very little code per line: array literals with one element per line (`  z,` = about two
    bytes of code and one 3 byte run each), `per` lines per function (the parser's stack limits one list).  With more
    than about 21 800 such lines the line tables are larger than 65535 bytes (`file_info[0]`, their size, is an
    unsigned short) while the code stays far below 64 KB.  The failing statement is the LAST code of the program
    (`tail` more element lines in front of it inside go()), i.e. behind every run."""
    d = "/c18/%s" % tag
    m = Src("%s/m.c" % d)
    m.text(("#pragma save_binary\n" if binary else "") + "int x_;\nvoid set_oid(string s) {}\n")
    i = 0
    fn = 0
    while i < nlines:
        k = min(per, nlines - i)
        m.text("mixed *pad%d(int z) { return ({\n" % fn)
        m._flush()
        m.toks.append(hx("  z,\n" * k))
        m.line += k
        m.text("}); }\n")
        i += k
        fn += 1
    m.text("int go(int k) {\n  mixed *t_;\n")
    if tail:
        m.text("  t_ = ({\n")
        m._flush()
        m.toks.append(hx("  k,\n" * tail))
        m.line += tail
        m.text("  });\n")
    ln = m.line
    m.text("  x_ = 10 / k;\n  return 0;\n}\n")
    p, o = d.lstrip("/") + "/m.c", d + "/m"
    exp = "expect kind=plain file=%s lines=%d-%d program=%s object=%s trace=go@%s@%s@%s@%d-%d" % (p, ln, ln, p, o, p, o, p, ln, ln)
    run = ["load o1 %s/m" % d, "apply o1 go", exp, "dump o1"]
    return [m.cmd()] + run + (["unload o1"] + run if binary else [])


def case_deep_include(tag, depth, rng=None, refuse=False):
    """include chain m.c -> d1.h -> ... -> d<depth>.h; function f<i> is defined in d<i>.h BEHIND the nested #include
    (so every level is resumed after a pop) and calls f<i+1>; the deepest one fails.  With `refuse` the chain is one
    level deeper than the lexer accepts (MAX_INCLUDE_DEPTH): the compile error must name the directive's line"""
    d = "/c18/%s" % tag
    p, o = "%s/m.c" % d.lstrip("/"), "%s/m" % d
    pad = (lambda src: src.pad(rng.choice(["n", "c"]), rng.range(0, 9))) if rng else (lambda src: None)
    m = Src("%s/m.c" % d)
    m.text("int x_;\nvoid set_oid(string s) {}\n" + "".join("int f%d(int k);\n" % i for i in range(1, depth + 1)))
    hs = [Src("%s/d%d.h" % (d, i)) for i in range(1, depth + 1)]
    files = [m] + hs
    frames = {}
    incl_line = {}
    for i, src in enumerate(files):
        if i:
            src.text("// level %d\n" % i)
        pad(src)
        if i < depth:
            incl_line[i] = src.line
            src.text('#include "d%d.h"\n' % (i + 1))
    # bodies behind the includes, deepest first in compilation order is irrelevant: each file is written completely
    for i, src in enumerate(files):
        pad(src)
        name = "go" if i == 0 else "f%d" % i
        src.text("int %s(int k) {\n" % name)
        ln = src.line
        if i < depth:
            src.text("  return f%d(k) + 1;\n}\n" % (i + 1))
        else:
            src.text("  x_ = 10 / k;\n  return x_;\n}\n")
        frames[i] = (name, p, o, src.name, ln, ln)
    if refuse:
        top = files[depth - 1]
        return [f.cmd() for f in files] + ["load o1 %s/m" % d,
                "expectce file=%s line=%d text=Maximum_include_depth_exceeded" % (top.name, incl_line[depth - 1])]
    fr = [frames[i] for i in range(depth + 1)]
    last = fr[-1]
    exp = "expect kind=plain file=%s lines=%d-%d program=%s object=%s trace=%s" % (
        last[3], last[4], last[5], p, o, "|".join("%s@%s@%s@%s@%d-%d" % f for f in fr))
    return [f.cmd() for f in files] + ["load o1 %s/m" % d, "apply o1 go", exp, "dump o1"]


def case_longname(tag, n=250, include=False):
    """a program (or an included file) whose path is longer than the 256 byte buffer get_line_number() used to have"""
    d = "/c18/%s" % tag
    name = "m" * n
    m = Src("%s/%s.c" % (d, name) if not include else "%s/m.c" % d)
    m.text("int x_;\nvoid set_oid(string s) {}\n")
    files = [m]
    src = m
    if include:
        h = Src("%s/%s.h" % (d, "h" * n))
        h.text("// long header name\n")
        m.text('#include "%s.h"\n' % ("h" * n))
        files.append(h)
        src = h
    src.text("int go(int k) {\n")
    ln = src.line
    src.text("  x_ = 10 / k;\n  return 0;\n}\n")
    p, o = m.name, m.path[:-2]
    exp = "expect kind=plain file=%s lines=%d-%d program=%s object=%s trace=go@%s@%s@%s@%d-%d" % (src.name, ln, ln, p, o, p, o, src.name, ln, ln)
    return [f.cmd() for f in files] + ["load o1 %s" % o, "apply o1 go", exp, "dump o1"]


def case_linecount(tag, total, in_include=0, fail_early=False):
    """a compilation unit whose LAST absolute line (the empty one behind the final newline) is `total`: absolute lines are
    16 bit, so the compiler accepts the unit up to total = 65535 and refuses it beyond; `in_include` of the lines are in a
    header included from line 4 of the main file; the failing statement is at the very end (or, `fail_early`, in front
    of the padding)"""
    d = "/c18/%s" % tag
    m = Src("%s/m.c" % d)
    m.text("int x_;\nvoid set_oid(string s) {}\n")
    files = [m]
    used = 0
    if in_include:
        h = Src("%s/h.h" % d)
        h.text("// h\n")
        h.pad("n", in_include - 2)            # the header contributes in_include absolute lines (its last, empty one included)
        m.text('#include "h.h"\n')
        files.append(h)
        used = in_include
    body = "int go(int k) {\n  x_ = 10 / k;\n  return 0;\n}\n"
    if fail_early:
        ln = m.line + 1
        m.text(body)
    # m.line = line the next character goes to = absolute lines of the main file so far + 1
    rest = total - used - (m.line - 1) - (0 if fail_early else 4) - 1
    m.pad("n", rest)
    if not fail_early:
        ln = m.line + 1
        m.text(body)
    assert used + m.line == total, (used, m.line, total)
    p, o = "%s/m.c" % d.lstrip("/"), "%s/m" % d
    if total > 65535:
        return [f.cmd() for f in files] + ["load o1 %s/m" % d,
                "expectce file=%s line=-1 text=Program_too_large:_more_than_65535_lines" % p]
    exp = "expect kind=plain file=%s lines=%d-%d program=%s object=%s trace=go@%s@%s@%s@%d-%d" % (p, ln, ln, p, o, p, o, p, ln, ln)
    return [f.cmd() for f in files] + ["load o1 %s/m" % d, "apply o1 go", exp, "dump o1"]


def case_include_history(tag, nfill, positions, failing, rng=None):
    """a template header t.h included several times from the main file, at the given positions of a history of `nfill`
    other (distinct, one-line) headers: every re-inclusion has to find the id of the EARLIER inclusion among the
    segments written so far — wherever those lie (first, middle, last entries of A_FILE_INFO) — and get an id of its own;
    the failing statement is in copy number `failing`"""
    d = "/c18/%s" % tag
    p, o = "%s/m.c" % d.lstrip("/"), "%s/m" % d
    m = Src("%s/m.c" % d)
    m.text("int x_;\nvoid set_oid(string s) {}\n")
    t = Src("%s/t.h" % d)
    t.text("// t\n")
    if rng:
        t.pad("n", rng.range(0, 12))
    t.text("int FN(int k) {\n")
    tl = t.line
    t.text("  x_ = 10 / k;\n  return x_;\n}\n")
    files = [m, t]
    copy = 0
    names = []
    for i in range(nfill + 1):
        while copy < len(positions) and positions[copy] == i:
            fn = "t%d" % copy
            names.append(fn)
            m.text('#define FN %s\n#include "t.h"\n#undef FN\n' % fn)
            copy += 1
        if i < nfill:
            e = Src("%s/e%d.h" % (d, i))
            e.text("// filler %d\n" % i)
            files.append(e)
            m.text('#include "e%d.h"\n' % i)
    gl = m.line
    m.text("int go() { return %s; }\n" % " + ".join("%s(%d)" % (n, 0 if j == failing else 1) for j, n in enumerate(names)))
    frames = [("go", p, o, p, gl, gl), (names[failing], p, o, t.name, tl, tl)]
    exp = "expect kind=plain file=%s lines=%d-%d program=%s object=%s trace=%s" % (
        t.name, tl, tl, p, o, "|".join("%s@%s@%s@%s@%d-%d" % f for f in frames))
    return [f.cmd() for f in files] + ["load o1 %s/m" % d, "apply o1 go", "dump o1", exp]


DIAGS = {
    # kind: (source text of the offending line(s), first words of the message, line of the report relative to the first line)
    "undefvar": ("int bad_(int k) {\n  zz_undefined_ = k;\n  return k;\n}\n", "Undefined_variable_'zz_undefined_'", 1),
    "syntax": ("int bad_(int k) {\n  x_ = = k;\n  return k;\n}\n", "syntax_error", 1),
    "noinc": ('#include "c18_no_such_header.h"\n', "Cannot_#include_c18_no_such_header.h", 0),
    "badinc": ("#include c18_nonsense\n", "Missing_leading", 0),
    "undeffun": ("int bad_(int k) {\n  return zz_undefined_fn_(k);\n}\n", "Undefined_function_zz_undefined_fn_", 1),
    "badtype": ('int bad_(int k) {\n  string s_;\n  s_ = "a";\n  return s_ - ({ 1 });\n}\n', "Invalid_types_to_'-'", 3),
    "escape": ('#pragma warnings\nint bad_(int k) {\n  return strlen("a\\qb") + k;\n}\n', "Warning:_Unknown_\\_escape", 2),
    "endif": ("#endif\n", "Unexpected_#endif", 0),
}


def case_diag(tag, kind, where=0, rng=None):
    """one compile-time diagnostic at a known line of the main file (where = 0) or of an include at nesting depth
    `where`, the parent files resumed behind it; the report must name that file and that line"""
    d = "/c18/%s" % tag
    text, msg, rel = DIAGS[kind]
    pad = (lambda src: src.pad(rng.choice(["n", "c"]), rng.range(0, 40))) if rng else (lambda src: src.pad("n", 2))
    m = Src("%s/m.c" % d)
    m.text("int x_;\nvoid set_oid(string s) {}\n")
    files = [m] + [Src("%s/d%d.h" % (d, i)) for i in range(1, where + 1)]
    for i, src in enumerate(files):
        if i:
            src.text("// level %d\n" % i)
        pad(src)
        if i < where:
            src.text('#include "d%d.h"\n' % (i + 1))
            pad(src)
    src = files[where]
    line = src.line + rel
    src.text(text)
    for i, f in enumerate(files):
        pad(f)
        f.text("int ok%d(int k) { return k; }\n" % i)
    m.text("int go(int k) { return k; }\n")
    warn = msg.startswith("Warning")
    out = [f.cmd() for f in files] + ["load o1 %s/m" % d, "expectce file=%s line=%d text=%s" % (src.name, line, msg)]
    if warn:
        # a warning does not stop the compilation: keep the case in the compile-diagnostic form by not recording a runtime error
        pass
    return out


def case_toolarge(tag, nfun=45, nstmt=190):
    """more than 65535 bytes of code (nfun functions of nstmt filler statements, 8 bytes each): function addresses,
    program_size and the offsets find_line works with are 16 bit, so the compiler has to refuse the program"""
    d = "/c18/%s" % tag
    m = Src("%s/m.c" % d)
    m.text("int x_;\nvoid set_oid(string s) {}\n")
    for i in range(nfun):
        m.text("int h%d(int k) {\n" % i)
        m.pad("s", nstmt)
        m.text("  return k;\n}\n")
    m.text("int go(int k) {\n  x_ = 10 / (k - k);\n  return 0;\n}\n")
    return [m.cmd(), "load o1 %s/m" % d, "expectce file=%s line=-1 text=Program_too_large" % m.name]


def case_overlap(tag, where="main", pad=0):
    """compile-time ERROR whose text carries two decoded positions: `Overlapping cases: <file>:<line> and <file>:<line>.`
    (prepare_cases decodes the absolute lines of both case labels against the file_info table written SO FAR, after an
    extra save_file_info); the switch is in the main file or in a header included after another header"""
    d = "/c18/%s" % tag
    m = Src("%s/m.c" % d)
    m.text("int x_;\nvoid set_oid(string s) {}\n")
    files = [m]
    src = m
    if where != "main":
        a = Src("%s/a.h" % d)
        a.text("// a\n")
        a.pad("n", 7 + pad)
        a.text("int fa(int k) { return k; }\n")
        b = Src("%s/b.h" % d)
        b.text("// b\n")
        m.pad("n", 2)
        m.text('#include "a.h"\n')
        m.pad("c", 3)
        m.text('#include "b.h"\n')
        files += [a, b]
        src = b
    src.pad("n", pad)
    src.text("int go(int k) {\n  switch (k) {\n")
    la = src.line
    src.text("    case 1..5:\n      return 1;\n")
    src.pad("n", 1 + pad % 3)
    lb = src.line
    src.text("    case 3..7:\n      return 2;\n  }\n  return 0;\n}\n")
    if where != "main":
        m.text("int after(int k) { return k; }\n")
    text = "Overlapping_cases:_%s:%d_and_%s:%d." % (src.name, lb, src.name, la)
    return [f.cmd() for f in files] + ["load o1 %s/m" % d, "expectce file=%s line=-1 text=%s" % (src.name, text)]


class C18(Prop):
    id = "C18"
    no_shrink = True   # cases are reported exactly as generated (lines depend on each other)
    title = "Runtime errors are reported at the right file and line with a correct trace"
    lean_modules = ["NV.C18.Props", "NV.C18.PropsCompile", "NV.C18.PropsDump", "NV.C18.PropsOracle", "NV.C18.PropsInit", "NV.C18.PropsLex", "NV.C18.PropsBound", "NV.C18.PropsAccept", "NV.C18.PropsJ5", "NV.C18.PropsNode", "NV.C18.PropsCallStack", "NV.C18.Witness", "NV.C18.SourceTexts",
                    "NV.C18.SourceTexts2"]
    theorems = ["NV.C18.line_roundtrip_raw", "NV.C18.line_roundtrip", "NV.C18.long_statement_ok",
                "NV.C18.file_roundtrip", "NV.C18.file_roundtrip_ids", "NV.C18.file_roundtrip_partial",
                "NV.C18.fresh_idsOf", "NV.C18.trace_order",
                "NV.C18.runEms_li", "NV.C18.translateAbs_at", "NV.C18.widths_agree",
                "NV.C18.pass1Continues_iff", "NV.C18.scanContinues_iff", "NV.C18.split_agrees",
                "NV.C18.apply_paths_store_table_index", "NV.C18.apply_frame_named", "NV.C18.source_statements_agree",
                "NV.C18.compile_roundtrip", "NV.C18.abs_pos", "NV.C18.abs_mono",
                "NV.C18.frame_kinds_exhaustive", "NV.C18.dump_trace_matches_svalue_trace", "NV.C18.dtText_spec",
                "NV.C18.locText_of_ok", "NV.C18.dump_trace_args_lines", "NV.C18.dump_trace_ret_heart_beat",
                "NV.C18.lex_push_agrees", "NV.C18.lex_pop_agrees", "NV.C18.lex_final_agrees", "NV.C18.node_line_agrees", "NV.C18.translate_eq_positions", "NV.C18.init_block_roundtrip", "NV.C18.placeNotes_runFrom", "NV.C18.findRun_append_out", "NV.C18.file_roundtrip_global_include", "NV.C18.compile_roundtrip_accepted", "NV.C18.lines_accepted_fit", "NV.C18.code_accepted_fit", "NV.C18.file_id_scan_agrees", "NV.C18.fileIdFor_uses_scan", "NV.C18.model_never_reuses_ids", "NV.C18.model_never_reuses_ids_N", "NV.C18.node_line_pending", "NV.C18.node_line_noted", "NV.C18.call_stack_is_reversed_trace", "NV.C18.callFrames_eq", "NV.C18.scan_unbounded", "NV.C18.scan_bound_harmless", "NV.C18.size_field_exact", "NV.C18.psizeRejects_iff", "NV.C18.pass2_agrees", "NV.C18.source_statements_agree2"]
    witness_theorems = ["NV.C18.file_roundtrip_Full_false", "NV.C18.line_roundtrip_Full_false",
                        "NV.C18.reinclude_wrong", "NV.C18.reinclude_repaired", "NV.C18.wide_wrong", "NV.C18.signed_short_wrong",
                        "NV.C18.init_block_only_noted", "NV.C18.init_replay", "NV.C18.heart_beat_ret_before_fix", "NV.C18.bounded_scan_fails_above_64k"]
    consts = [("aProgram", "A_PROGRAM"), ("aInitializer", "A_INITIALIZER"),
              ("frameFunction", "FRAME_FUNCTION"), ("frameFunp", "FRAME_FUNP"), ("frameCatch", "FRAME_CATCH"),
              ("frameFake", "FRAME_FAKE"), ("frameMask", "FRAME_MASK"),
              ("ucharMax", "UCHAR_MAX"), ("shortBits", "8*sizeof(short)"),
              ("progSizeBits", "8*sizeof(((program_t*)0)->program_size)"),
              ("nodeLineBits", "8*sizeof(((parse_node_t*)0)->line)"),
              ("fileInfoBits", "8*sizeof(*((program_t*)0)->file_info)"),
              ("lineInfoLenBits", "8*sizeof(*((program_t*)0)->line_info)"),
              ("aInitLines", "A_INIT_LINES"), ("ushrtMax", "USHRT_MAX"),
              ("szUShort", "sizeof(unsigned short)"), ("szShort", "sizeof(short)"), ("szPtr", "sizeof(void *)"),
              ("szInt", "sizeof(int)"), ("szChar", "sizeof(char)")]
    const_headers = ["src/interpret.h", "lpc/program.h", "lpc/compiler.h", "lpc/program/parse_trees.h"]
    quick_n = 500
    thorough_n = 5000
    search_n = 300
    design_ref = "5/C18"
    technique = ("Lean 4 proof (encoder/decoder round trip by induction over emission sequences and include layouts, "
                 "end-to-end composition compile_roundtrip, control-stack simulation, log text vs mapping trace) + "
                 "translator-generated constants and loop guards + model/implementation correspondence on dumped tables, "
                 "compiler events, the control stack and the captured dump_trace log")
    level_text = ("Lean 4 theorems about an executable model of the line-number machinery (switch_to_line run encoder incl. the "
                  "__INIT replay, save_file_info / #include push and pop / global include, find_line scan and program_size "
                  "test, translate_absolute_line both passes, push/pop_control_stack, get_svalue_trace, dump_trace text, "
                  "return value and argument-line structure): compile_roundtrip (for every lexer event sequence and every "
                  "emission sequence in code order, find_line on the finished tables returns the file and line of the "
                  "lexer position of the parse node, every offset) and compile_roundtrip_accepted (the same for EVERY unit "
                  "the compiler accepts: the two size tests of epilog are transcribed, no bound on lines or code bytes is "
                  "assumed), model_never_reuses_ids (oracle clause J5 on the model's events), file_id_scan_agrees (the scan "
                  "of program_file_id with its transcribed start, step, sizeof divisor and cast), line_roundtrip, long_statement_ok, init_block_roundtrip, "
                  "file_roundtrip for all include layouts (repeated and recursive includes, global include), "
                  "translate_eq_positions (decoder = oracle positions on every line of every table), trace_order, "
                  "apply_frame_named, dump_trace_matches_svalue_trace, call_stack_is_reversed_trace (efun call_stack), "
                  "node_line_pending (i_generate_node); tied to the C code on every run: loop guards, "
                  "program_size test, second pass, widths and frame kinds are transcribed from the source, 22 source regions "
                  "are compared as text; the model encoder replays the compiler's hook events and must reproduce the real "
                  "tables byte for byte, the model decoder must agree with the real get_line_number on every code offset and "
                  "with translate_absolute_line on every absolute line of every dumped program, the model trace assembly "
                  "and the model dump_trace must agree with what the master's error_handler receives and with the captured "
                  "log; the specification oracle compares every report (mapping, log text, compile-time diagnostics) with "
                  "the generator's record of where the statement is")
    level_note = ("trusted: Lean kernel; extract.py and the regex transcription in props/c18.py; the correspondence harness "
                  "(differential, generated programs only); the only size condition left in the top statement is "
                  "fewer than 2^16 program strings (units with more than 65535 lines or bytes of code are refused by the "
                  "compiler: fixes C18-F3, C18-F6, tests transcribed); which line the code generator attributes to a parse node "
                  "and the line the compiler reports a diagnostic at are compared with the generator's record, not proved; "
                  "the oracle clauses over strings (J1, J7, J8) are checked on real runs, their data-level counterparts are "
                  "proved")
    rule = ("cases = corpus + known-finding inputs + boundary list (statement code of exactly 200..766 bytes, failing "
            "statement in every slot of a 3 level include tree, 253..64000 lines in front, inherited program, function "
            "literal, multi-line and long statements, macros and string literals spanning lines, saved binary, include "
            "chains of depth 5 / 31 / 32, global include configuration, compile-time warnings and errors on known lines, "
            "12 KB program, program beyond 65535 bytes) + seeded random program families (1-4 child "
            "functions, 0-3 inherited functions, include depth 0-3 each, call styles return/assign/function "
            "literal/catch/multi-line, 13 failing statement kinds, paddings of 0..63000 blank/comment lines and 0..200 "
            "filler statements, #pragma save_binary reload of every program of the family; every scenario runs 1-3 times in "
            "one driver (apply cache miss and hit paths) and is started by an apply, reset_object, a heart beat, a call_out "
            "or create() of a clone; next function reached by local call, ::, call_other, ->, simul_efun, function "
            "pointers (literal, nested, multi-line, local function, efun, simul_efun), efun callbacks (map_array, "
            "filter_array), another object; files end with / "
            "without newline, blank lines, code on the last line, one-line includes; headers included repeatedly / "
            "recursively; global initialisers, also on the line a function ends on; a third of the families under the "
            "GlobalInclude configuration and with #pragma warnings + provoked diagnostics; thorough: a 64.6 KB program with "
            "more than 64 KB of line tables); a case is non-trivial when its trace has >= 2 lines; "
            "distinct = distinct canonical implementation trace")
    not_covered = ["which source line the parser attributes to a parse node (LALR look-ahead may move it inside the "
                   "statement; the oracle accepts any line of the statement's extent)",
                   "argument and local variable VALUES printed by dump_trace with ArgumentsInTrace / LocalVariablesInTrace "
                   "(svalue_to_string); only which lines are printed for which frame is modelled",
                   "an error raised while the driver itself prints a trace (in_error path) and fatal(); errors inside the master's "
                   "error handler and the heart-beat switch-off are observed only (no crash, report counts)",
                   "the text of compile-time messages other than file and line (J8 fixes the first words only)"]

    LEAN_OP = {">": ">", "<": "<", ">=": "≥", "<=": "≤", "==": "=", "!=": "≠"}

    @staticmethod
    def _body(src, header, site):
        i = src.find(header)
        if i < 0:
            raise X.TieBroken(site, "function not found: %s" % header)
        j = src.find("\n}\n", i)
        return src[i:j if j > 0 else len(src)]

    def _loop_guard(self, text, lhs, rhs, site):
        """the continue-condition of a scan loop `while (lhs OP rhs)` or of its rewritten form `if (lhs OP rhs) break;`:
        returns (lean expression over `a`, `b`, C text)"""
        ops = r"(<=|>=|==|!=|<|>)"
        m = re.search(r"while\s*\(\s*%s\s*%s\s*%s\s*\)" % (lhs, ops, rhs), text)
        if m:
            return "a %s b" % self.LEAN_OP[m.group(1)], m.group(0)
        m = re.search(r"if\s*\(\s*%s\s*%s\s*%s\s*\)\s*break" % (lhs, ops, rhs), text)
        if m:
            return "¬ (a %s b)" % self.LEAN_OP[m.group(1)], m.group(0)
        raise X.TieBroken(site, "loop guard over %s and %s no longer has a known shape" % (lhs, rhs))

    @staticmethod
    def _lines(text, start, end, keep=None, site="?"):
        """normalised source lines of the region start..end (markers included): hook blocks and comments removed,
        braces dropped, trailing `;` stripped; `keep` = regex a line must match"""
        i = text.find(start)
        j = text.find(end, i + 1) if i >= 0 else -1
        if i < 0 or j < 0:
            raise X.TieBroken(site, "region %r .. %r not found" % (start, end))
        reg = text[i:j + len(end)]
        reg = re.sub(r"(?s)#ifdef NEOLITH_VERIF.*?#endif", "", reg)
        reg = re.sub(r"(?s)/\*.*?\*/", "", reg)
        out = []
        for ln in reg.split("\n"):
            ln = re.sub(r"//.*$", "", ln)
            ln = re.sub(r"\s+", " ", ln).strip().rstrip(";").strip()
            if ln in ("", "{", "}") or ln.startswith("#"):
                continue
            if keep and not re.search(keep, ln):
                continue
            out.append(ln)
        return out

    def source_statements(self):
        """the hand-modelled statements of the anchor code, as they are in the source now (-> Gen, compared with the
        texts the model was written from by the obligation `source_statements_agree`)"""
        R = lambda *p: open(os.path.join(E.REPO, *p)).read()
        lex, icode, prog, sim, comp, pt = (R("lib/lpc/lex.c"), R("lib/lpc/program/icode.c"), R("lib/lpc/program.c"),
                                           R("src/simulate.c"), R("lib/lpc/compiler.c"), R("lib/lpc/program/parse_trees.c"))
        L = self._lines
        k = r"current_line|save_file_info|current_file_id|is->line|is->file_id"
        return [
            ("srcIncludeDirective", L(lex, 'if (!strcmp ("include", yytext))', "handle_include (arg, 0);", r"current_line|handle_include", "lex:include-directive")),
            ("srcHandleInclude", L(lex, "is->yyin_desc = yyin_desc;", "yyin_desc = fd;", k, "lex:handle_include")),
            ("srcIncludePop", L(lex, "close (yyin_desc);", "incnum--;", k + r"|p->line|p->file_id", "lex:include-pop")),
            ("srcFinalProgram", L(icode, "i_generate_final_program (int x)", "generate line numbers for the end */", r"save_file_info|switch_to_line", "icode:final")),
            ("srcNodeLine", sorted(set(L(pt, "parse_node_t* new_node ()", "get a new node to add to the tree, but", r"->line =", "parse_trees:new_node")))),
            ("srcInitParser", L(icode, "\ni_initialize_parser ()", "last_size_generated = 0;\n  init_line_being_generated = 0;", r"_generated", "icode:i_initialize_parser")),
            ("srcSwitchToLine", L(icode, "static void switch_to_line (int line) {", "\n  line_being_generated = line;", None, "icode:switch_to_line")),
            ("srcGenerateNodeLine", L(icode, "void i_generate_node (parse_node_t * expr) {", "switch (expr->kind)", r"line", "icode:i_generate_node")),
            ("srcPlaceInit", L(icode, "i_generate___INIT ()", "prog_code = mem_block[A_PROGRAM].block + mem_block[A_PROGRAM].current_size;", None, "icode:__INIT")),
            ("srcSaveFileInfo", L(comp, "void save_file_info (int file_id, int lines) {", "add_to_mem_block (A_FILE_INFO", r"fi\[|add_to_mem_block", "compiler:save_file_info")),
            ("srcProgramFileId", L(comp, "static int program_file_id (const char *name, int top) {", "return file_id;", None, "compiler:program_file_id")),
            ("srcTranslate", L(prog, "int translate_absolute_line (", "return 0;", None, "program:translate_absolute_line")),
            ("srcFindLine", L(sim, "static int find_line (", "return 4;\n}", None, "simulate:find_line")),
            ("srcTraceFrames", L(sim, "array_t* get_svalue_trace (int how) {", "return v;", r"add_mapping_(string|object|pair) \(m|get_trace_details|line_number_info|framekind|for \(p|allocate_empty_array \(\(csp", "simulate:get_svalue_trace")),
            ("srcErrorMapping", L(R("src/error_context.c"), "static void mudlib_error_handler (", "push_refed_mapping (m);", r"add_mapping|get_line_number_info|if \(current", "error_context:mudlib_error_handler")),
            ("srcPushControl", L(R("src/frame.c"), "void push_control_stack (int frkind) {", "csp->pc = pc;", r"csp", "frame:push_control_stack")),
        ]

    LEXVARS = {"current_line": "cur", "current_line_saved": "saved", "current_line_base": "base",
               "current_file_id": "fid", "p->line": "pline", "is->line": "isline", "p->file_id": "pfid",
               "is->file_id": "isfid"}

    def _cexpr(self, e, site):
        """a C integer expression over the lexer counters -> Lean (identifiers mapped, only + - ( ) and literals)"""
        toks = re.findall(r"[A-Za-z_][A-Za-z_0-9]*(?:->[A-Za-z_]+)?|\d+|[-+()]", e)
        if "".join(toks) != re.sub(r"\s+", "", e):
            raise X.TieBroken(site, "expression not understood: %s" % e)
        out = []
        for t in toks:
            if t in self.LEXVARS:
                out.append(self.LEXVARS[t])
            elif re.match(r"^\d+$|^[-+()]$", t):
                out.append(t)
            else:
                raise X.TieBroken(site, "unknown identifier %s in %s" % (t, e))
        return " ".join(out)

    def _lex_steps(self, name, lines, site, params, result):
        """the statement list of one lexer region as a Lean function: assignments to the counters are applied in source
        order (`let x := ...` shadows), `save_file_info (id, n)` records what is written to file_info"""
        body = []
        for ln in lines:
            m = re.match(r"^save_file_info \((.+?), (.+)\)$", ln)
            if m:
                body.append("let sfid := %s" % self._cexpr(m.group(1), site))
                body.append("let scount := %s" % self._cexpr(m.group(2), site))
                continue
            m = re.match(r"^([A-Za-z_>\-]+) (=|\+=|-=) (.+)$", ln)
            if m and m.group(1) in self.LEXVARS:
                v = self.LEXVARS[m.group(1)]
                rhs = m.group(3)
                if re.match(r"^add_program_file \(", rhs):
                    body.append("let %s := newfid" % v)
                    continue
                e = self._cexpr(rhs, site)
                body.append("let %s := %s" % (v, e if m.group(2) == "=" else "%s %s (%s)" % (v, m.group(2)[0], e)))
                continue
            m = re.match(r"^([A-Za-z_>\-]+)(\+\+|--)$", ln)
            if m and m.group(1) in self.LEXVARS:
                v = self.LEXVARS[m.group(1)]
                body.append("let %s := %s %s 1" % (v, v, m.group(2)[0]))
                continue
            if re.match(r"^handle_include \(", ln):
                continue
            raise X.TieBroken(site, "statement not understood: %s" % ln)
        return ("def %s %s : %s :=\n  %s\n  %s" % (name, " ".join("(%s : Int)" % p for p in params),
                                                    " × ".join(["Int"] * len(result)), "\n  ".join(body),
                                                    "(" + ", ".join(result) + ")"))

    def lexer_arithmetic(self):
        """the line bookkeeping of `#include` (directive + handle_include), of the include pop and of the final segment,
        transcribed statement by statement (-> NV.Gen.C18.lexPushGen / lexPopGen / lexFinalGen)"""
        st = dict(self.source_statements())
        push = st["srcIncludeDirective"] + st["srcHandleInclude"]
        return [
            self._lex_steps("lexPushGen", push, "lex:include-push", ["cur", "saved", "base", "fid", "newfid"],
                            ["sfid", "scount", "isline", "isfid", "cur", "saved", "base", "fid"]),
            self._lex_steps("lexPopGen", st["srcIncludePop"], "lex:include-pop", ["cur", "saved", "base", "fid", "pline", "pfid"],
                            ["sfid", "scount", "cur", "saved", "base", "fid"]),
            self._lex_steps("lexFinalGen", [l for l in st["srcFinalProgram"] if l.startswith("save_file_info")], "icode:final",
                            ["cur", "saved", "fid"], ["sfid", "scount"]),
            "def nodeLineGen (cur : Int) (base : Int) : Int := %s" % self._cexpr(
                re.match(r"^next_node->line = \(short\)\((.+)\)$", st["srcNodeLine"][0]).group(1)
                if re.match(r"^next_node->line = \(short\)\((.+)\)$", st["srcNodeLine"][0]) else "?", "parse_trees:new_node"),
        ]

    def accept_tests(self):
        """epilog(): `if (... && A + B + 8 > USHRT_MAX) yyerror ("Program too large: ... bytes of code")` and
        `if (... && current_line_base + current_line > USHRT_MAX) yyerror ("Program too large: ... lines")`"""
        comp = open(os.path.join(E.REPO, "lib/lpc/compiler.c")).read()
        eb = self._body(comp, "static program_t *epilog ()", "epilog")
        ops = r"(<=|>=|==|!=|<|>)"
        mc = re.search(r"mem_block\[A_PROGRAM\]\.current_size\s*\+\s*mem_block\[A_INITIALIZER\]\.current_size\s*\+\s*(\d+)\s*%s\s*USHRT_MAX\s*\)\s*yyerror\s*\(\s*\"Program too large" % ops, eb)
        ml = re.search(r"current_line_base\s*\+\s*current_line\s*%s\s*USHRT_MAX\s*\)\s*yyerror\s*\(\s*\"Program too large" % ops, eb)
        if not mc:
            raise X.TieBroken("epilog:code-size", "the refusal of a program with more than 65535 bytes of code no longer has a known shape")
        if not ml:
            raise X.TieBroken("epilog:line-count", "the refusal of a unit with more than 65535 lines no longer has a known shape")
        return ["/-- C (lib/lpc/compiler.c, epilog): `%s …` — is a unit with `p` bytes of function code and `i` bytes of initialiser code refused? -/" % mc.group(0)[:90].replace("\n", " "),
                "def codeRefused (p : Nat) (i : Nat) : Bool := decide (p + i + %s %s ushrtMax)" % (mc.group(1), self.LEAN_OP[mc.group(2)]),
                "/-- C (lib/lpc/compiler.c, epilog): `%s …` — is a unit refused whose lexer ends with these counters? -/" % ml.group(0)[:70].replace("\n", " "),
                "def linesRefused (base : Int) (cur : Int) : Bool := decide (base + cur %s (ushrtMax : Int))" % self.LEAN_OP[ml.group(1)]]

    SIZEOF = {"unsigned short": "szUShort", "short": "szShort", "int": "szInt", "char": "szChar", "unsigned char": "szChar"}

    def fileid_scan(self):
        """program_file_id (or a helper of it): `n = mem_block[A_FILE_INFO].current_size / sizeof (X); for (i = A; i < n; i += S)
        if (fi[i] == (CAST) file_id)` -> start index, step, what `sizeof (X)` is (a type, `*fi`, or — wrongly — the pointer
        `fi`), width of the cast"""
        comp = open(os.path.join(E.REPO, "lib/lpc/compiler.c")).read()
        i = comp.find("static short store_prog_string_again")
        j = comp.find("\nint add_program_file (")
        if i < 0 or j < 0:
            raise X.TieBroken("program_file_id", "region store_prog_string_again .. add_program_file not found")
        reg = re.sub(r"(?s)/\*.*?\*/", "", comp[i:j])
        mn = re.search(r"n\s*=\s*mem_block\[A_FILE_INFO\]\.current_size\s*/\s*sizeof\s*\(\s*([^)]+?)\s*\)", reg)
        mf = re.search(r"for\s*\(\s*i\s*=\s*(\d+)\s*;\s*i\s*(<|<=)\s*n\s*;\s*i\s*\+=\s*(\d+)\s*\)\s*\{?\s*if\s*\(\s*fi\s*\[\s*i\s*\]\s*==\s*\(\s*([a-z ]+?)\s*\)\s*file_id\s*\)", reg)
        md = re.search(r"([a-z ]+?)\s*\*\s*fi\s*=", reg)
        if not (mn and mf and md):
            raise X.TieBroken("program_file_id:scan", "the scan of A_FILE_INFO for a used file id no longer has the shape n = size / sizeof (X); for (i = A; i < n; i += S) if (fi[i] == (T) file_id)")
        x = mn.group(1).strip()
        elem = md.group(1).strip()
        if x in self.SIZEOF:
            div = self.SIZEOF[x]
        elif x == "*fi" and elem in self.SIZEOF:
            div = self.SIZEOF[elem]
        elif x == "fi":
            div = "szPtr"
        else:
            raise X.TieBroken("program_file_id:scan", "sizeof (%s) not understood" % x)
        if mf.group(4).strip() not in self.SIZEOF or elem not in self.SIZEOF:
            raise X.TieBroken("program_file_id:scan", "cast / element type not understood")
        return ["/-- C (lib/lpc/compiler.c, program_file_id): `%s` and `%s` -/" % (mn.group(0), re.sub(r"\s+", " ", mf.group(0))),
                "def fidScanStart : Nat := %s" % mf.group(1),
                "def fidScanIncl : Bool := %s" % ("true" if mf.group(2) == "<=" else "false"),
                "def fidScanStep : Nat := %s" % mf.group(3),
                "def fidEntries (bytes : Nat) : Nat := bytes / %s" % div,
                "def fidElemBytes : Nat := %s" % self.SIZEOF[elem],
                "def fidCastMod : Nat := 2 ^ (8 * %s)" % self.SIZEOF[mf.group(4).strip()]]

    def source_statements2(self):
        """regions tied in the extend round (frozen copies in NV/C18/SourceTexts2.lean)"""
        R = lambda *p: open(os.path.join(E.REPO, *p)).read()
        sim, icode, frame = R("src/simulate.c"), R("lib/lpc/program/icode.c"), R("src/frame.c")
        L = self._lines
        ansi = lambda ls: [re.sub(r'" (YEL|NOR|CYN|HIY|HIC) "', "", l) for l in ls]
        return [
            ("srcDumpTrace", ansi(L(sim, "char* dump_trace (int how) {", "fflush (current_log_file);",
                                    r"log_message \(NULL, \"\\t\"|get_line_number|get_trace_details|num_arg =|num_local =|ret =|strcmp|for \(p|case FRAME|switch|if \(\(how|if \(num_arg|if \(current_prog|if \(csp|return",
                                    "simulate:dump_trace"))),
            ("srcTraceDetails", L(sim, "static void get_trace_details (", "ftd->num_local = func_entry->def.num_local;", None, "simulate:get_trace_details")),
            ("srcGetLineNumber", L(sim, "char* get_line_number (const char *p, const program_t * progp) {", "return buf;\n}", None, "simulate:get_line_number")),
            ("srcPopControl", L(frame, "void pop_control_stack () {", "fp = csp->fp;", r"^(current_object|current_prog|pc) =", "frame:pop_control_stack")),
            ("srcSetupFrame", sorted(set(L(frame, "compiler_function_t* setup_new_frame (int index) {", "\n}\n", r"fr\.table_index", "frame:setup_new_frame") +
                                         L(frame, "compiler_function_t* setup_inherited_frame (int index) {", "\n}\n", r"fr\.table_index", "frame:setup_inherited_frame")))),
            ("srcInheritedInit", L(icode, "\ni_generate_inherited_init_call (int index, int f)", "ins_byte (F_CALL_INHERITED);", r"switch_to_line", "icode:inherited_init")),
        ]

    def gen_extra(self, ctx, bdir):
        """the guards of the three scan loops, transcribed from the source (regex over the function bodies)"""
        prog = open(os.path.join(E.REPO, "lib/lpc/program.c")).read()
        sim = open(os.path.join(E.REPO, "src/simulate.c")).read()
        icode = open(os.path.join(E.REPO, "lib/lpc/program/icode.c")).read()
        tb = self._body(prog, "int translate_absolute_line", "translate_absolute_line")
        first = tb.split("p2 = file_info")[0]
        g1, c1 = self._loop_guard(first, r"line_tmp", r"\*\s*p1", "translate_absolute_line:pass1")
        fb = self._body(sim, "static int find_line", "find_line")
        g2, c2 = self._loop_guard(fb, r"offset", r"\*\s*lns", "find_line:scan")
        # dump_trace / get_svalue_trace: the innermost frame shows no variables while it is still being set up
        db = self._body(sim, "char* dump_trace (int how) {", "dump_trace")
        gb = self._body(sim, "array_t* get_svalue_trace (int how) {", "get_svalue_trace")
        ub = r"if\s*\(\s*num_arg\s*!=\s*-1\s*&&\s*fp\s*\+\s*num_arg\s*\+\s*num_local\s*-\s*(\d+)\s*(<=|>=|==|!=|<|>)\s*sp\s*\)\s*num_arg\s*=\s*-1\s*;"
        mu1, mu2 = re.search(ub, db), re.search(ub, gb)
        if not mu1 or not mu2 or mu1.groups() != mu2.groups() or len(re.findall(ub, db)) != 1:
            raise X.TieBroken("dump_trace:unbuilt-frame", "the test that hides the variables of an innermost frame that is still being set up no longer has the shape if (num_arg != -1 && fp + num_arg + num_local - K OP sp) num_arg = -1; once in dump_trace and once in get_svalue_trace")
        if db.find(mu1.group(0)) < db.rfind("case FRAME_CATCH:"):
            raise X.TieBroken("dump_trace:unbuilt-frame", "the test is no longer behind the switch for the innermost frame")
        # find_line: is the walk over the runs bounded by an end pointer, and where does that pointer come from?
        uses_end = re.search(r"lns_end|file_info\s*\[\s*0\s*\]", fb)
        m_end = re.search(r"lns_end\s*=\s*\(unsigned char \*\)\s*progp->file_info\s*\+\s*progp->file_info\s*\[\s*0\s*\]\s*;", fb)
        m_chk = re.search(r"lns\s*\+=\s*3\s*;\s*if\s*\(\s*lns\s*>=\s*lns_end\s*\)\s*return\s+4\s*;", re.sub(r"/\*.*?\*/", "", fb, flags=re.S))
        if uses_end and not (m_end and m_chk):
            raise X.TieBroken("find_line:scan-bound", "find_line uses an end pointer / file_info[0] in a shape that is not understood")
        scan_bounded = bool(m_end and m_chk)
        # find_line: `if (offset > (int) progp->program_size)` => "(no line numbers)"
        mps = re.search(r"if\s*\(\s*offset\s*(<=|>=|==|!=|<|>)\s*\(int\)\s*progp->program_size\s*\)", fb)
        if not mps:
            raise X.TieBroken("find_line:program_size", "the test of the offset against program_size no longer has the shape if (offset OP (int) progp->program_size)")
        # translate_absolute_line, second pass: `if (p2[1] == file) line_tmp += *p2;`
        second = tb.split("p2 = file_info")[1] if "p2 = file_info" in tb else ""
        mp2 = re.search(r"if\s*\(\s*p2\s*\[\s*1\s*\]\s*(<=|>=|==|!=|<|>)\s*file\s*\)\s*line_tmp\s*(\+=|-=)\s*\*\s*p2\s*;", second)
        mw2 = re.search(r"while\s*\(\s*p2\s*(<=|>=|==|!=|<|>)\s*p1\s*\)", second)
        if not (mp2 and mw2):
            raise X.TieBroken("translate_absolute_line:pass2", "the second pass no longer has the shape while (p2 OP p1) { if (p2[1] OP file) line_tmp += *p2; p2 += 2; }")
        sb = self._body(icode, "static void switch_to_line", "switch_to_line")
        m = re.search(r"while\s*\(\s*sz\s*(<=|>=|==|!=|<|>)\s*(\d+)\s*\)", sb)
        m2 = re.findall(r"\*p\+\+\s*=\s*(\d+)\s*;", sb)
        m3 = re.search(r"sz\s*-=\s*(\d+)\s*;", sb)
        if not (m and m2 and m3):
            raise X.TieBroken("switch_to_line:split", "the run split loop no longer has the shape while (sz OP N) { *p++ = N; ... sz -= N; }")
        ap = open(os.path.join(E.REPO, "src/apply.c")).read()
        ab = self._body(ap, "\nint apply_low (", "apply_low")
        stores = [(m.start(), m.group(1).strip()) for m in re.finditer(r"csp->fr\.table_index\s*=\s*([^;]+);", ab)]
        cut = ab.find("APPLY_CACHE miss")
        if len(stores) != 2 or cut < 0 or not (stores[0][0] < cut < stores[1][0]):
            raise X.TieBroken("apply_low:table_index", "apply_low no longer stores fr.table_index once on the cache-hit and once on the cache-miss path")
        IDX = {"entry->index": "ei", "index": "ei", "funp->runtime_index": "ri", "entry->progp->function_table[entry->index].runtime_index": "ri"}
        for _, e in stores:
            if e not in IDX:
                raise X.TieBroken("apply_low:table_index", "unknown expression stored into fr.table_index: %s" % e)
        out = []
        out.append("/-- C (src/apply.c apply_low, cache HIT): `csp->fr.table_index = %s;` — `ei` = function-table index kept in the\n"
                   "    cache entry, `ri` = the function's runtime index -/" % stores[0][1])
        out.append("def hitIndex (ei ri : Nat) : Nat := %s" % IDX[stores[0][1]])
        out.append("/-- C (src/apply.c apply_low, cache MISS): `csp->fr.table_index = %s;` -/" % stores[1][1])
        out.append("def missIndex (ei ri : Nat) : Nat := %s" % IDX[stores[1][1]])
        out.append("/-- C (lib/lpc/program.c, first pass of translate_absolute_line): `%s` — does the scan go on to the next\n"
                   "    segment when `a` lines are left and the segment has `b` lines? -/" % c1)
        out.append("def pass1Continues (a : Int) (b : Int) : Bool := decide (%s)" % g1)
        out.append("/-- C (src/simulate.c, find_line): `%s` -/" % c2)
        out.append("def scanContinues (a : Int) (b : Int) : Bool := decide (%s)" % g2)
        out.append("/-- C (src/simulate.c, dump_trace and get_svalue_trace, innermost frame only): `%s` — `d` = sp - fp -/" % mu1.group(0))
        out.append("def innerUnbuilt (na : Int) (nl : Int) (d : Int) : Bool := decide (na + nl - %s %s d)" % (mu1.group(1), self.LEAN_OP[mu1.group(2)]))
        out.append("/-- C (src/simulate.c, find_line): does the walk over the runs stop at the end pointer `(unsigned char *) file_info +\n"
                   "    file_info[0]` (`if (lns >= lns_end) return 4;` after every `lns += 3`)?  %s -/"
                   % ("YES: " + m_end.group(0) if scan_bounded else "no such test in the source"))
        out.append("def scanBounded : Bool := %s" % ("true" if scan_bounded else "false"))
        out.append("/-- C (src/simulate.c, find_line): `%s` — is the offset rejected (\"(no line numbers)\")? -/" % mps.group(0))
        out.append("def psizeRejects (a : Int) (b : Int) : Bool := decide (a %s b)" % self.LEAN_OP[mps.group(1)])
        out.append("/-- C (lib/lpc/program.c, second pass of translate_absolute_line): `%s` inside `%s`: does an earlier segment of\n"
                   "    file `a` count for file `b`, how is it applied, and which segments are visited (all in front of the one found) -/" % (mp2.group(0), mw2.group(0)))
        out.append("def pass2Adds (a : Nat) (b : Nat) : Bool := decide (a %s b)" % self.LEAN_OP[mp2.group(1)])
        out.append("def pass2Sign : Int := %s" % ("1" if mp2.group(2) == "+=" else "-1"))
        out.append('def pass2LoopOp : String := "%s"' % mw2.group(1))
        out.append("/-- C (lib/lpc/program/icode.c, switch_to_line): `%s`, the length written for a full run and the decrement -/" % m.group(0))
        out.append('def splitOp : String := "%s"' % m.group(1))
        out.append("def splitBound : Nat := %s" % m.group(2))
        out.append("def splitLen : Nat := %s" % m2[0])
        out.append("def splitDec : Nat := %s" % m3.group(1))
        out.append("\n/-! the size tests of epilog(): which compilation units are refused -/")
        out += self.accept_tests()
        out.append("\n/-! the scan of A_FILE_INFO for a file id that is already in use (program_file_id) -/")
        out += self.fileid_scan()
        out.append("\n/-! the lexer's line arithmetic, transcribed statement by statement -/")
        out += self.lexer_arithmetic()
        out.append("\n/-! the statements the model was written from, as they are in the source now -/")
        for name, lines in self.source_statements() + self.source_statements2():
            out.append("def %s : List String := [\n  %s]" % (name, ",\n  ".join('"%s"' % l.replace("\\", "\\\\").replace('"', '\\"') for l in lines)))
        return "\n".join(out)

    def prepare(self, ctx):
        self.exe = E.compile_harness("c18", [os.path.join(E.VERIF, "harness/c18/c18.c")])
        self.conf = E.make_mudlib(ctx.rundir, master="/c18/master.c", extra_conf="SaveBinaryDir /bin\n")
        t = open(self.conf).read()
        t = re.sub(r"(?m)^SimulEfunFile\s+\S+", "SimulEfunFile   /c18/simul_efun.c", t)
        open(self.conf, "w").write(t)
        # second configuration: every compilation unit starts inside a global include file (cases with `mode ginc`)
        self.conf_g = self.conf[:-5] + "-ginc.conf"
        open(self.conf_g, "w").write(t + 'GlobalInclude   "/c18/ginc.h"\n')

    def canon(self, lines):
        # a recoverable UBSan `pointer-overflow` report of binaries.c:locate_in (`ADD (prog->inherit, prog)` on a program
        # without inherits: NULL offset + base) still shows up for a few address layouts when a saved binary is loaded;
        # it is not an observation about C18: the run continues and is judged
        return [l.rstrip() for l in lines if l.strip() != ""
                and not (l.startswith("sanitizer ") and "binaries.c" in l and "pointer index expression" in l)]

    def run_impl(self, ctx, cases):
        plain = [c for c in cases if "mode ginc" not in c.lines]
        ginc = [c for c in cases if "mode ginc" in c.lines]
        res = {}
        if plain or not ginc:
            res.update(E.run_harness(self.exe, self.conf, plain, ctx.rundir, timeout=3000))
        if ginc:
            res.update(E.run_harness(self.exe, self.conf_g, ginc, ctx.rundir, timeout=3000))
        self._last = (tuple(c.id for c in cases), tuple(len(c.lines) for c in cases), res)
        return res

    def run_judge(self, ctx, cases, impl):
        """the engine's line-removal shrinker does not understand that the lines of a case depend on each other (files,
        loads, applies and records are aligned): its candidates (ids s<k>) are refused, so a replay is always a case
        exactly as it was generated"""
        if cases and all(re.match(r"^s\d+$", c.id) for c in cases):
            return {c.id: ["bad setup not-shrunk"] for c in cases}
        return Prop.run_judge(self, ctx, cases, impl)

    def run_model(self, ctx, cases):
        """the model is driven by the observations of the implementation run (hook events, dumped tables, control
        stack): see lean/NV/C18/Drive.lean"""
        last = getattr(self, "_last", None)
        if last and last[0] == tuple(c.id for c in cases) and last[1] == tuple(len(c.lines) for c in cases):
            impl = last[2]
        else:
            impl = self.run_impl(ctx, cases)
        js = [E.Case(c.id, c.lines + ["--"] + self.canon(impl.get(c.id, []))) for c in cases]
        return E.nvdrive(self.id, "model", E.cases_text(js))

    def generate(self, rng, n, tier):
        out = []
        if tier in ("thorough", "search"):
            # LARGE programs around the 16 bit boundaries of the tables, the failing statement behind every run:
            # 64684 bytes of code, line tables of 65.7 KB (file_info[0] wrapped), 21.7 thousand runs, 96 file ids
            out.append(E.Case("g-bigtable", case_bigtable("g_bigt", 43, 500, 0, binary=False, nincl=rng.range(96, 120)),
                              {"fail": "div", "origin": "generated", "long": 1}))
            # one element per line: line tables just below / just above / far above 65535 bytes with 40-60 KB of code
            for i, nl in enumerate((21700 + rng.range(0, 60), 21850 + rng.range(0, 200), 23000 + rng.range(0, 6000))):
                out.append(E.Case("g-manyruns%d" % i, case_manyruns("g_runs%d" % i, nl, per=rng.range(300, 420), tail=rng.range(0, 200),
                                                                  binary=(i == 1)),
                                  {"fail": "div", "origin": "generated", "long": 1}))
        for i in range(n):
            tag = "g%d_%d" % (rng.below(100000), i)
            if rng.chance(1, 25):
                nf = rng.range(1, 45)
                pos = sorted(rng.range(0, nf) for _ in range(rng.range(2, 5)))
                out.append(E.Case("g%d" % i, (["mode ginc"] if rng.chance(1, 3) else []) + case_include_history(tag, nf, pos, rng.range(1, len(pos) - 1), rng),
                                  {"fail": "reinclude", "origin": "generated"}))
                continue
            if rng.chance(1, 14):
                v = rng.choice(["again", "self", "back"])
                out.append(E.Case("g%d" % i, case_multi_include(tag, v, rng), {"fail": "reinclude", "origin": "generated"}))
                continue
            if rng.chance(1, 60):
                tot = rng.choice([65533, 65534, 65535, 65536, 65537, 65600, 131072 + rng.range(0, 40)])
                out.append(E.Case("g%d" % i, case_linecount(tag, tot, in_include=rng.choice([0, 0, 7, 20000, 65000]), fail_early=rng.chance(1, 3)),
                                  {"fail": "div" if tot <= 65535 else "compile-error", "origin": "generated", "maxline": tot}))
                continue
            if rng.chance(1, 30):
                k = rng.choice(sorted(DIAGS))
                out.append(E.Case("g%d" % i, (["mode ginc"] if rng.chance(1, 3) else []) + case_diag(tag, k, rng.range(0, 3), rng),
                                  {"fail": "compile-error", "origin": "generated"}))
                continue
            if rng.chance(1, 40):
                lines = case_overlap(tag, rng.choice(["main", "inc"]), rng.range(0, 400))
                out.append(E.Case("g%d" % i, (["mode ginc"] if rng.chance(1, 3) else []) + lines, {"fail": "compile-error", "origin": "generated"}))
                continue
            if rng.chance(1, 40):
                out.append(E.Case("g%d" % i, case_after_failed_compile(tag, rng, rng.range(1, 4)) if rng.chance(1, 2) else
                                  case_after_fatal_in_include(tag, rng.range(1, 4), rng), {"fail": "div", "origin": "generated"}))
                continue
            if rng.chance(1, 40):
                out.append(E.Case("g%d" % i, case_init_big(tag, rng.range(2, 10), rng.range(8, 45), rng.range(0, 100),
                                                           prefill=rng.choice([0, 0, 440 + rng.range(0, 60), 960 + rng.range(0, 60)])),
                                  {"fail": "init", "origin": "generated"}))
                continue
            if rng.chance(1, 20):
                out.append(E.Case("g%d" % i, case_init_pair(tag, pad=rng.range(0, 300)) if rng.chance(1, 3) else
                                  case_init(tag, pad=rng.range(0, 300), funcs=rng.range(0, 4), sameline=rng.choice([False, False, True, 2])),
                                  {"fail": "init", "origin": "generated"}))
                continue
            big = rng.chance(1, 12) if tier != "thorough" else rng.chance(1, 10)
            g = Gen(rng, tag, big=big, thorough=(tier == "thorough"))
            out.append(E.Case("g%d" % i, g.build(), dict(g.meta, origin="generated")))
        return out

    def boundary(self):
        B = []
        rng = E.Rng(4242)

        def mk(name, lines, **meta):
            B.append(E.Case("b-" + name, lines, dict(meta, origin="boundary")))

        def gen(name, **kw):
            g = Gen(rng, "b_" + name.replace("-", "_"), warn=kw.pop("warn", False), ginc=kw.pop("ginc", False))
            kw.setdefault("other", False)
            kw.setdefault("override", False)
            kw.setdefault("via", "apply")
            kw.setdefault("rep", 1)
            lines = g.build(**kw)
            mk(name, lines, **g.meta)

        # run length boundary: one statement with exactly T bytes of code
        for t in (200, 253, 254, 255, 256, 257, 258, 509, 510, 511, 512, 765, 766):
            gen("sized%d" % t, fail_kind="sized:%d" % t, depth=0, nchild=1, nbase=0, binary=False, prepad=("n", 2))
        # failing statement in every slot of a three level include tree, and after the includes returned
        for slot in range(7):
            gen("inc3-slot%d" % slot, fail_kind="div", depth=3, nchild=2, nbase=0, binary=False, fail_slot=slot)
        for slot in range(3):
            gen("inh-inc1-slot%d" % slot, fail_kind="error", depth=1, bdepth=1, nchild=2, nbase=2, binary=(slot == 1),
                fail_slot=slot)
        # many lines in front of the statement (16 bit boundaries; >= 32768 needs the fix of find_line)
        for n in (253, 254, 255, 256, 32760, 32764, 32765, 32766, 32767, 32768, 40000, 64000):
            gen("lines%d" % n, fail_kind="div", depth=0, nchild=1, nbase=0, binary=False, prepad=("n", n))
        gen("lines40000-inc", fail_kind="error", depth=2, nchild=3, nbase=0, binary=True, prepad=("c", 40000))
        gen("fillers3000", fail_kind="index", depth=1, nchild=2, nbase=0, binary=False, prepad=("n", 1))
        for k in ("funlit", "funlit2", "funlitml", "longwrap", "longarr", "multi", "macrodef", "macrouse", "strml", "cstack"):
            gen("kind-" + k, fail_kind=k, depth=1, nchild=2, nbase=1, binary=True)
        # efun call_stack() in the failing frame: through catch / function pointers / simul_efun / another object / heart beat
        for i, kw in enumerate((dict(depth=1, nchild=4, nbase=2, bdepth=1), dict(depth=0, nchild=3, nbase=1, other=True),
                                dict(depth=2, nchild=4, nbase=0, via="hb", rep=2), dict(depth=1, nchild=3, nbase=2, override=True, binary=True),
                                dict(depth=0, nchild=4, nbase=0, via="clone", rep=2))):
            kw.setdefault("binary", False)
            gen("call-stack-%d" % i, fail_kind="cstack", **kw)
        # function literals (plain, nested, spanning lines) whose code sits in an INCLUDED file: deepest include, an include
        # that is resumed behind a nested one, the include of an inherited program; fresh and from the saved binary
        for i, (k, kw) in enumerate((("funlit", dict(depth=2, nchild=2, nbase=0, fail_slot=2)), ("funlit2", dict(depth=3, nchild=3, nbase=0, fail_slot=3)),
                                     ("funlitml", dict(depth=3, nchild=3, nbase=0, fail_slot=4)), ("funlit2", dict(depth=1, nchild=2, nbase=2, bdepth=2, fail_slot=2, binary=True)),
                                     ("funlitml", dict(depth=2, nchild=2, nbase=1, bdepth=1, fail_slot=1, binary=True, other=True)),
                                     ("funlit", dict(depth=2, nchild=3, nbase=0, fail_slot=1, ginc=True, tails=["nl", "oneline-nonl", "nonl"])))):
            kw.setdefault("binary", False)
            gen("funlit-in-include-%d" % i, fail_kind=k, **kw)
        # the failing statement / a call site on the LAST line of a file: with and without a newline at the end of the
        # file, trailing blank lines, a file that is one line, an #include as the last line of its parent
        LL = [("main-nonl", dict(depth=0, nchild=2, nbase=0, tails=["oneline-nonl"])),
              ("main-nl", dict(depth=0, nchild=2, nbase=0, tails=["oneline"])),
              ("main-blank", dict(depth=0, nchild=1, nbase=0, tails=["blank"])),
              ("inc1-nonl", dict(depth=1, nchild=2, nbase=0, fail_slot=1, tails=["nl", "oneline-nonl"])),
              ("inc1-nl", dict(depth=1, nchild=2, nbase=0, fail_slot=1, tails=["nonl", "oneline"])),
              ("inc1-single", dict(depth=1, nchild=1, nbase=0, fail_slot=1, tails=["nl", "single"])),
              ("inc1-single-parent-nonl", dict(depth=1, nchild=1, nbase=0, fail_slot=1, tails=["nonl", "single"])),
              ("inc3-deepest-nonl", dict(depth=3, nchild=2, nbase=0, fail_slot=3, tails=["nl", "nl", "nl", "oneline-nonl"])),
              ("inc3-all-nonl", dict(depth=3, nchild=4, nbase=0, fail_slot=3, tails=["oneline-nonl"] * 4)),
              ("inc2-post-nonl", dict(depth=3, nchild=2, nbase=0, fail_slot=4, tails=["nl", "nl", "oneline-nonl", "nonl"])),
              ("inc1-post-nonl", dict(depth=2, nchild=3, nbase=0, fail_slot=3, tails=["oneline-nonl"] * 3)),
              ("main-post-nonl", dict(depth=2, nchild=3, nbase=0, fail_slot=4, tails=["oneline-nonl", "nonl", "single"])),
              ("base-main-nonl", dict(depth=1, nchild=2, nbase=2, bdepth=0, btails=["oneline-nonl"], tails=["oneline-nonl"] * 2)),
              ("base-inc-nonl", dict(depth=0, nchild=1, nbase=2, bdepth=1, fail_slot=1, btails=["nonl", "oneline-nonl"])),
              ("base-inc-single-binary", dict(depth=0, nchild=1, nbase=1, bdepth=1, fail_slot=1, btails=["nl", "single"], binary=True)),
              ("other-nonl-binary", dict(depth=1, nchild=2, nbase=1, bdepth=1, fail_slot=1, other=True, binary=True,
                                         tails=["oneline-nonl"] * 2, btails=["oneline-nonl"] * 2))]
        for i, (name, kw) in enumerate(LL):
            kw.setdefault("binary", False)
            gen("lastline-" + name, fail_kind=("div", "error", "index", "funlit")[i % 4], **kw)
        # the scenario run 2 and 3 times in one driver (frames through the apply-cache HIT path) and started by the driver
        for i, (via, rep) in enumerate((("apply", 2), ("apply", 3), ("reset", 2), ("hb", 2), ("callout", 2), ("clone", 2), ("clone", 3))):
            gen("again-%s-%d" % (via, rep), fail_kind=("div", "error", "funlit")[i % 3], depth=i % 3, nchild=3, nbase=i % 2 * 2,
                bdepth=1, binary=(i % 2 == 0), via=via, rep=rep, other=(i == 1), override=(i == 3))
        # inherited programs reached through `::` and through call_other, fresh and from the saved binaries
        for i, k in enumerate(("div", "funlit2", "error")):
            gen("override-%d" % i, fail_kind=k, depth=i, bdepth=1, nchild=2, nbase=2, binary=(i != 1), override=True)
            gen("other-inh-%d" % i, fail_kind=k, depth=1, bdepth=i % 2, nchild=2, nbase=2, binary=(i != 0), other=True)
        gen("other-plain", fail_kind="funlitml", depth=2, nchild=3, nbase=0, binary=True, other=True)
        # compile-time diagnostics on known lines: main file, include levels 1..3 (going down and after the return),
        # inherited program, other object, with a saved binary (second load does not compile: no second report)
        for i, kw in enumerate((dict(depth=0, nchild=2, nbase=0), dict(depth=1, nchild=3, nbase=0), dict(depth=3, nchild=4, nbase=0),
                                dict(depth=2, nchild=3, nbase=2, bdepth=1), dict(depth=1, nchild=2, nbase=1, bdepth=2, other=True),
                                dict(depth=2, nchild=3, nbase=1, bdepth=1, binary=True),
                                dict(depth=3, nchild=4, nbase=0, prepad=("n", 300), tails=["nonl", "nonl", "nonl", "nonl"]))):
            kw.setdefault("binary", False)
            gen("warn-%d" % i, fail_kind=("div", "error")[i % 2], warn=True, **kw)
        # every compilation unit starts inside the global include file (zero-length first segment of the main file)
        for i, kw in enumerate((dict(depth=0, nchild=1, nbase=0), dict(depth=2, nchild=3, nbase=0, fail_slot=2),
                                dict(depth=1, nchild=2, nbase=2, bdepth=1, binary=True), dict(depth=1, nchild=2, nbase=1, other=True),
                                dict(depth=0, nchild=1, nbase=0, prepad=("n", 40000)), dict(depth=3, nchild=4, nbase=0, warn=True,
                                                                                             tails=["oneline-nonl"] * 4))):
            kw.setdefault("binary", False)
            gen("ginc-%d" % i, fail_kind=("div", "error", "funlit")[i % 3], ginc=True, **kw)
        mk("overlap-main", case_overlap("b_ovl_main"), fail="compile-error")
        mk("overlap-main-far", case_overlap("b_ovl_far", pad=300), fail="compile-error")
        mk("overlap-include", case_overlap("b_ovl_inc", where="inc", pad=4), fail="compile-error")
        mk("overlap-include-ginc", ["mode ginc"] + case_overlap("b_ovl_ginc", where="inc", pad=11), fail="compile-error")
        # 16 bit limits of the tables: code just below 65535 bytes whose line tables are LARGER than 64 KB (file_info[0]
        # wraps; 120 inclusions add segments without code), and a program beyond 65535 bytes (must be refused)
        # include nesting: deepest chain the lexer accepts, and one level more (refused with a compile error)
        mk("include-depth-5", case_deep_include("b_deep5", 5), fail="div")
        mk("include-depth-max", case_deep_include("b_deepmax", 31, rng), fail="div")
        mk("include-depth-max-ginc", ["mode ginc"] + case_deep_include("b_deepmaxg", 30), fail="div")
        mk("include-depth-refused", case_deep_include("b_deepref", 32, refuse=True), fail="compile-error")
        # line tables around 65535 bytes (file_info[0], their size, is an unsigned short): 21 000 / 21 900 / 22 600 runs with
        # about 22 KB of code; the failing statement is the last code of the program
        mk("long-file-name", case_longname("b_longname", 250), fail="div")
        mk("long-include-name", case_longname("b_longinc", 244, include=True), fail="div")
        mk("manyruns-3000", case_manyruns("b_runs3k", 3000, tail=50), fail="div", long=1)
        mk("manyruns-below-64k", case_manyruns("b_runs21k", 21000, tail=20), fail="div", long=1)
        mk("manyruns-above-64k", case_manyruns("b_runs22k", 21900, tail=100), fail="div", long=1)
        for i, k in enumerate(sorted(DIAGS)):
            mk("diag-%s-main" % k, case_diag("b_dg_%s_0" % k, k, 0), fail="compile-error")
            mk("diag-%s-inc%d" % (k, 1 + i % 3), case_diag("b_dg_%s_i" % k, k, 1 + i % 3), fail="compile-error")
        mk("bigtable-12k", case_bigtable("b_bigt12", 8, 500, 40, nincl=10), fail="div", long=1)
        mk("program-too-large", case_toolarge("b_toolarge"), fail="compile-error")
        mk("ginc-init", ["mode ginc"] + case_init("b_ginc_init", pad=5, funcs=1), fail="init")
        mk("ginc-multi-include", ["mode ginc"] + case_multi_include("b_ginc_mi", "back"), fail="reinclude")
        # 16 bit absolute lines: the unit is accepted up to 65535 absolute lines and refused beyond (fix of finding C18-F3)
        for name, kw in (("lines-65535-accepted", dict(total=65535)), ("lines-65536-refused", dict(total=65536)),
                         ("lines-65535-include", dict(total=65535, in_include=30000)),
                         ("lines-65536-include-refused", dict(total=65536, in_include=40000)),
                         ("lines-70040-refused", dict(total=70040, fail_early=True)),
                         ("lines-65500-early", dict(total=65500, fail_early=True))):
            mk(name, case_linecount("b_" + name.replace("-", "_"), **kw), fail="div" if kw["total"] <= 65535 else "compile-error")
        mk("init", case_init("b_init"), fail="init")
        mk("init-after-functions", case_init("b_init2", pad=40, funcs=3), fail="init")
        mk("init-same-line-as-function", case_init("b_init5", pad=4, funcs=1, sameline=True), fail="init")
        mk("init-same-line-only", case_init("b_init6", pad=0, funcs=0, sameline=True), fail="init")
        mk("init-big-block", case_init_big("b_init8"), fail="init")
        for pf in (470, 990, 2010):
            mk("init-block-grows-program-%d" % pf, case_init_big("b_initg%d" % pf, nlines=10, nterms=30, prefill=pf), fail="init")
        mk("init-big-block-far", case_init_big("b_init9", nlines=12, nterms=40, pad=300), fail="init")
        mk("after-failed-compile", case_after_failed_compile("b_afc"), fail="div")
        mk("after-fatal-in-include", case_after_fatal_in_include("b_afi"), fail="div")
        mk("after-fatal-in-include-3", case_after_fatal_in_include("b_afi3", depth=3), fail="div")
        mk("after-failed-compile-3", case_after_failed_compile("b_afc3", nfun=5), fail="div")
        mk("init-same-line-twice", case_init("b_init7", pad=2, funcs=1, sameline=2), fail="init")
        mk("init-after-other-compile", case_init_pair("b_init3", pad=3), fail="init")
        mk("init-after-other-compile-far", case_init_pair("b_init4", pad=300), fail="init")
        for v in ("again", "self", "back"):
            mk("multi-include-" + v, case_multi_include("b_mi_" + v, v), fail="reinclude")
            mk("multi-include-pad-" + v, case_multi_include("b_mip_" + v, v, rng), fail="reinclude")
        # the earlier inclusion lies at the first / a middle / the last entries of the include history
        for name, nf, pos, failing in (("first-last", 24, [0, 24], 1), ("first-mid-last", 30, [0, 15, 30], 2), ("adjacent", 20, [10, 10], 1),
                                       ("late-pair", 40, [38, 40], 1), ("mid-fails", 16, [2, 9, 16], 1), ("five", 12, [0, 3, 6, 9, 12], 4),
                                       ("early-pair", 40, [1, 3], 1)):
            mk("include-history-" + name, case_include_history("b_ih_" + name.replace("-", "_"), nf, pos, failing), fail="reinclude")
        mk("reinclude-second", case_reinclude("b_reinc"), fail="reinclude")
        mk("reinclude-first", case_reinclude("b_reinc1", first_ok=True), fail="reinclude-first")
        return B

    def frozen_texts(self):
        """the frozen copies `def exp<Region> : List String := [...]` of NV/C18/SourceTexts*.lean"""
        out = {}
        for fn in ("SourceTexts.lean", "SourceTexts2.lean"):
            t = open(os.path.join(E.VERIF, "lean/NV/C18", fn)).read()
            for m in re.finditer(r"def exp(\w+) : List String := \[\n(.*?)\]\n", t, re.S):
                items = re.findall(r'^\s*"((?:[^"\\]|\\.)*)",?$', m.group(2), re.M)
                out["src" + m.group(1)] = [i.replace('\\"', '"').replace("\\\\", "\\") for i in items]
        return out

    def text_tie_report(self):
        """which hand-modelled source region differs from the text the model was written from, and where: the Lean
        obligations source_statements_agree(2) only say THAT a region changed"""
        probs = []
        try:
            frozen = self.frozen_texts()
            for name, lines in self.source_statements() + self.source_statements2():
                exp = frozen.get(name)
                if exp is None or exp == lines:
                    continue
                k = next((i for i in range(min(len(exp), len(lines))) if exp[i] != lines[i]), min(len(exp), len(lines)))
                probs.append({"kind": "tie-broken", "name": "source-text:%s" % name,
                              "detail": "statement %d of the region: source now `%s`, model written from `%s`" % (
                                  k + 1, lines[k] if k < len(lines) else "<removed>", exp[k] if k < len(exp) else "<added>")})
        except X.TieBroken as e:
            probs.append({"kind": "tie-broken", "name": "source-text", "detail": str(e)})
        return probs

    def extra_checks(self, ctx, tier, rng):
        """the oracle's own positive / negative examples (lean/NV/C18/OracleTests.lean); a precise report for a changed
        source region"""
        probs = self.text_tie_report()
        p = E.run([E.nvdrive_exe(), "C18", "selftest"])
        if p.returncode == 0 and p.stdout.startswith("selftest ok"):
            self.selftest = p.stdout.strip()
            return probs
        return probs + [{"kind": "obligation-broken", "name": "oracle-selftest", "detail": (p.stdout + p.stderr)[-500:]}]

    def histogram(self, cases, impl):
        h = {"binary_all_reloaded_from_binary": 0, "binary_some_recompiled": 0, "fail": {}, "calls": {}, "depth": {}, "slots": {}, "inherit": 0, "binary": 0, "caught": 0, "long": 0,
             "maxline_ge_255": 0, "maxline_ge_32768": 0, "eh_lines": 0, "other": 0, "override": 0,
             "lastline": {}, "files_without_final_newline": 0, "via": {}, "rep": {}, "compile_diagnostics_placed": 0,
             "dump_trace_lines": 0, "global_include": 0}
        for c in cases:
            m = c.meta
            if "fail" in m:
                h["fail"][m["fail"]] = h["fail"].get(m["fail"], 0) + 1
            for k in m.get("calls", []):
                h["calls"][k] = h["calls"].get(k, 0) + 1
            for k in m.get("slots", []):
                h["slots"][k] = h["slots"].get(k, 0) + 1
            if "depth" in m:
                h["depth"][str(m["depth"])] = h["depth"].get(str(m["depth"]), 0) + 1
            for k in ("via", "rep"):
                if k in m:
                    h[k][str(m[k])] = h[k].get(str(m[k]), 0) + 1
            for k in m.get("lastline", []):
                h["lastline"][k] = h["lastline"].get(k, 0) + 1
            h["files_without_final_newline"] += len(m.get("nonl", []))
            for k in ("inherit", "binary", "caught", "other", "override"):
                if m.get(k):
                    h[k] += 1
            if m.get("long"):
                h["long"] += 1
            if m.get("maxline", 0) >= 255:
                h["maxline_ge_255"] += 1
            if m.get("maxline", 0) >= 32768:
                h["maxline_ge_32768"] += 1
            h["eh_lines"] += sum(1 for l in impl.get(c.id, []) if l.startswith("eh "))
            h["compile_diagnostics_placed"] += m.get("ce", 0)
            h["global_include"] += 1 if "mode ginc" in c.lines else 0
            h["dump_trace_lines"] += sum(l.count("|") + 1 for l in impl.get(c.id, []) if l.startswith("dt ") and not l.endswith(" -"))
            if m.get("binary"):
                evs = [l.split()[1] for l in impl.get(c.id, []) if l.startswith("ev ")]
                h["binary_all_reloaded_from_binary" if len(evs) == len(set(evs)) else "binary_some_recompiled"] += 1
        return h


PROP = C18()
