"""C14 translator part (DESIGN.md 2.3, T4): regenerate from src/comm.c the expressions the ring model is built from.

Located by text patterns inside the bodies of flush_message / add_message / add_vmessage and translated by a tiny
C expression grammar (int fields of `ip`, MESSAGE_BUF_SIZE, num_bytes, literals, + - * / %, comparisons, && || !) into
Lean definitions over `Int`.  Anything that cannot be located, or whose shape leaves the grammar, is a broken tie.
"""
import re

from nvlib import extract as X

IDENT = {
    "ip->message_consumer": "consumer",
    "ip->message_producer": "producer",
    "ip->message_length": "length",
    "MESSAGE_BUF_SIZE": "size",
    "num_bytes": "k",
}
PARAMS = "(consumer producer length size k : Int)"

TOK = re.compile(r"\s*(ip->\w+|[A-Za-z_]\w*|\d+|==|!=|<=|>=|&&|\|\||[-+*/%<>!()])")


class ParseError(Exception):
    pass


def tokenize(s):
    out, pos = [], 0
    s = s.strip()
    while pos < len(s):
        m = TOK.match(s, pos)
        if not m:
            raise ParseError("cannot tokenize %r at %d" % (s, pos))
        out.append(m.group(1))
        pos = m.end()
    return out


class P:
    """recursive descent -> Lean text; `kind` is 'int' or 'prop'"""

    def __init__(self, toks):
        self.t = toks
        self.i = 0

    def peek(self):
        return self.t[self.i] if self.i < len(self.t) else None

    def eat(self, x=None):
        v = self.peek()
        if v is None or (x is not None and v != x):
            raise ParseError("expected %r, got %r" % (x, v))
        self.i += 1
        return v

    def parse(self):
        r = self.lor()
        if self.peek() is not None:
            raise ParseError("trailing token %r" % self.peek())
        return r

    def lor(self):
        l = self.land()
        while self.peek() == "||":
            self.eat()
            r = self.land()
            l = ("prop", "(%s ∨ %s)" % (self.prop(l), self.prop(r)))
        return l

    def land(self):
        l = self.cmp()
        while self.peek() == "&&":
            self.eat()
            r = self.cmp()
            l = ("prop", "(%s ∧ %s)" % (self.prop(l), self.prop(r)))
        return l

    def cmp(self):
        l = self.add()
        if self.peek() in ("==", "!=", "<", "<=", ">", ">="):
            op = self.eat()
            r = self.add()
            lean = {"==": "=", "!=": "≠", "<": "<", "<=": "≤", ">": ">", ">=": "≥"}[op]
            return ("prop", "(%s %s %s)" % (self.int(l), lean, self.int(r)))
        return l

    def add(self):
        l = self.mul()
        while self.peek() in ("+", "-"):
            op = self.eat()
            r = self.mul()
            l = ("int", "(%s %s %s)" % (self.int(l), op, self.int(r)))
        return l

    def mul(self):
        l = self.unary()
        while self.peek() in ("*", "/", "%"):
            op = self.eat()
            r = self.unary()
            # C division / remainder truncate towards zero
            if op == "*":
                l = ("int", "(%s * %s)" % (self.int(l), self.int(r)))
            elif op == "/":
                l = ("int", "(Int.tdiv %s %s)" % (self.int(l), self.int(r)))
            else:
                l = ("int", "(Int.tmod %s %s)" % (self.int(l), self.int(r)))
        return l

    def unary(self):
        if self.peek() == "-":
            self.eat()
            return ("int", "(- %s)" % self.int(self.unary()))
        if self.peek() == "!":
            self.eat()
            return ("prop", "(¬ %s)" % self.prop(self.unary()))
        return self.primary()

    def primary(self):
        v = self.eat()
        if v == "(":
            r = self.lor()
            self.eat(")")
            return r
        if v.isdigit():
            return ("int", v)
        if v in IDENT:
            return ("int", IDENT[v])
        raise ParseError("identifier %r is outside the translated set" % v)

    @staticmethod
    def int(x):
        if x[0] != "int":
            raise ParseError("integer expected, got condition %s" % x[1])
        return x[1]

    @staticmethod
    def prop(x):
        if x[0] == "int":
            return "(%s ≠ 0)" % x[1]
        return x[1]


def to_lean(site, expr, want):
    try:
        r = P(tokenize(expr)).parse()
        return P.int(r) if want == "int" else P.prop(r)
    except ParseError as e:
        raise X.TieBroken("guard:" + site, "%s: `%s` left the expression grammar: %s" % (site, expr.strip(), e))


def func_body(src, header_re, site):
    m = re.search(header_re, src)
    if not m:
        raise X.TieBroken("guard:" + site, "cannot locate %s in src/comm.c" % site)
    end = src.find("\n}", m.end())
    if end < 0:
        raise X.TieBroken("guard:" + site, "cannot find the end of %s" % site)
    return src[m.end():end]


def balanced(text, start):
    """text[start] is just after an opening parenthesis; return (inner, index after the matching ')')"""
    depth, i = 1, start
    while i < len(text) and depth:
        if text[i] == "(":
            depth += 1
        elif text[i] == ")":
            depth -= 1
        i += 1
    return text[start:i - 1], i


def need(site, pat, text, count=None, flags=0):
    ms = re.findall(pat, text, flags)
    if not ms or (count is not None and len(ms) != count):
        raise X.TieBroken("guard:" + site, "%s: pattern %r found %d time(s), expected %s" % (site, pat, len(ms), count))
    return ms


def one(site, values):
    vs = set(re.sub(r"\s+", " ", v.strip()) for v in values)
    if len(vs) != 1:
        raise X.TieBroken("guard:" + site, "%s: the sites disagree: %r" % (site, sorted(vs)))
    return vs.pop()


def extract(src, errno_value):
    """src = text of src/comm.c; errno_value(name) -> int.  Returns Lean text for NV/Gen/C14.lean"""
    out = ["set_option linter.unusedVariables false"]

    def emit(name, doc, body, ty="Int"):
        out.append("/-- C (%s) -/\ndef %s %s : %s :=\n  %s" % (doc.replace("-/", "- /"), name, PARAMS, ty, body))

    fl = func_body(src, r"\nint flush_message \(interactive_t \* ip\) \{", "flush_message")
    # --- contiguous-chunk rule
    m = need("flush_message.chunk",
             r"if \(([^{};]+)\)\s*\{\s*length = ([^;]+);\s*\}\s*else\s*\{\s*length = ([^;]+);\s*\}", fl, 1)[0]
    emit("chunkLen", "flush_message: `if (%s) length = %s; else length = %s;`" % tuple(x.strip() for x in m),
         "if %s then %s else %s" % (to_lean("flush_message.chunk", m[0], "prop"),
                                    to_lean("flush_message.chunk", m[1], "int"),
                                    to_lean("flush_message.chunk", m[2], "int")))
    need("flush_message.loop", r"while \(ip->message_length != 0\)", fl, 1)
    need("flush_message.send", r"SOCKET_SEND \(ip->fd, ip->message_buf \+ ip->message_consumer, length, ip->out_of_band\)", fl, 1)
    # --- consumer / length update
    e = need("flush_message.consumer", r"ip->message_consumer = ([^;]+);", fl, 1)[0]
    emit("consumerNext", "flush_message: `ip->message_consumer = %s;`" % e.strip(), to_lean("flush_message.consumer", e, "int"))
    e = need("flush_message.length", r"ip->message_length -= ([^;]+);", fl, 1)[0]
    emit("lengthAfterSend", "flush_message: `ip->message_length -= %s;`" % e.strip(),
         "length - %s" % to_lean("flush_message.length", e, "int"))
    # --- errno classification: which errno values keep the data (return 1 without NET_DEAD)
    m = re.search(r"if \(num_bytes == -1\)\s*\{\s*if \(((?:SOCKET_ERRNO == \w+)(?:\s*\|\|\s*SOCKET_ERRNO == \w+)*)\)\s*\{(.*?)return 1;\s*\}"
                  r"(.*?)ip->iflags \|= NET_DEAD;\s*return 0;", fl, re.S)
    if not m or "NET_DEAD" in m.group(2) or "return" in m.group(2):
        raise X.TieBroken("guard:flush_message.errno", "cannot locate the errno classification of flush_message")
    names = re.findall(r"SOCKET_ERRNO == (\w+)", m.group(1))
    vals = [errno_value(n) for n in names]
    out.append("/-- C (flush_message: `if (%s) { ... return 1; }` - these errno values keep the data; every other one sets "
               "NET_DEAD) -/\ndef keepErrnos : List Nat := [%s]" % (re.sub(r"\s+", " ", m.group(1)), ", ".join(map(str, vals))))
    # --- add_message / add_vmessage
    bodies = {"add_message": func_body(src, r"\nvoid add_message \(object_t \* who, char \*data\) \{", "add_message"),
              "add_vmessage": func_body(src, r"\nvoid add_vmessage \(object_t \* who, char \*format, \.\.\.\) \{", "add_vmessage")}
    full, lf, prod = [], [], []
    for fn, b in bodies.items():
        tests = []
        for mm in re.finditer(r"if \(ip->message_length == ", b):
            inner, after = balanced(b, mm.end())
            tests.append((inner, b[after:after + 120]))
        if len(tests) != 4:
            raise X.TieBroken("guard:%s.full" % fn, "%s: %d `message_length ==` tests, expected 4" % (fn, len(tests)))
        # 1st/3rd are followed by the flush, 2nd/4th by `break;` (the tail is dropped, nothing else is touched)
        for idx in (0, 2):
            if not re.match(r"\s*\{\s*if \(!flush_message \(ip\)\)", tests[idx][1]):
                raise X.TieBroken("guard:%s.full" % fn, "%s: ring-full test %d is not followed by the flush" % (fn, idx))
        for idx in (1, 3):
            if not re.match(r"\s*break;", tests[idx][1]):
                raise X.TieBroken("guard:%s.full" % fn, "%s: ring-still-full test %d is not followed by `break;`" % (fn, idx))
        full += [tests[0][0], tests[1][0]]
        lf += [tests[2][0], tests[3][0]]
        need("%s.lf" % fn, r"if \(\*cp == '\\n'\)", b, 1)
        need("%s.cr" % fn, r"ip->message_buf\[ip->message_producer\] = '\\r';", b, 1)
        need("%s.byte" % fn, r"ip->message_buf\[ip->message_producer\] = \*cp;", b, 1)
        need("%s.len" % fn, r"ip->message_length\+\+;", b, 2)
        need("%s.loop" % fn, r"for \(cp = \w+; \*cp; cp\+\+\)", b, 1)
        prod += need("%s.producer" % fn, r"ip->message_producer = ([^;]+);", b, 2)
    e = one("add_message.full", full)
    emit("fullThr", "add_message/add_vmessage: `if (ip->message_length == %s)` flush; still equal => break" % e,
         to_lean("add_message.full", e, "int"))
    e = one("add_message.fullLF", lf)
    emit("lfThr", "add_message/add_vmessage, before CR LF: `if (ip->message_length == %s)` flush; still equal => break" % e,
         to_lean("add_message.fullLF", e, "int"))
    e = one("add_message.producer", prod)
    emit("producerNext", "add_message/add_vmessage: `ip->message_producer = %s;` (all four stores)" % e,
         to_lean("add_message.producer", e, "int"))
    # --- negotiation written to a telnet port at connect (setup_accepted_connection)
    sac = func_body(src, r"\nstatic void setup_accepted_connection \(port_def_t \*port, socket_fd_t new_socket_fd, struct sockaddr_in \*addr\) \{",
                    "setup_accepted_connection")
    m = re.search(r"if \(port->kind == PORT_TELNET\)\s*\{\s*query_addr_name \(user_ob\);((?:\s*add_message \(user_ob, \w+\);)+)"
                  r"\s*flush_message \(user_ob->interactive\);\s*\}", sac)
    if not m:
        raise X.TieBroken("guard:setup_accepted_connection.telnet", "cannot locate the telnet negotiation block at connect")
    msgs = []
    for name in re.findall(r"add_message \(user_ob, (\w+)\);", m.group(1)):
        d = re.search(r"static char %s\[\] = \{([^}]*)\};" % re.escape(name), src)
        if not d:
            raise X.TieBroken("guard:" + name, "cannot locate the initialiser of %s" % name)
        toks = [re.sub(r"^INT_CHAR\((.*)\)$", r"\1", t.strip()) for t in d.group(1).split(",") if t.strip()]
        if not toks or toks[-1] != "0":
            raise X.TieBroken("guard:" + name, "%s is not a 0-terminated byte list" % name)
        vals = [errno_value(t) & 0xFF for t in toks[:-1]]
        if any(v == 0 for v in vals):
            raise X.TieBroken("guard:" + name, "%s contains an inner NUL" % name)
        msgs.append((name, vals))
    out.append("/-- C (setup_accepted_connection, PORT_TELNET: add_message of %s, then flush_message) -/\n"
               "def connectTelnet : List (List Nat) := [%s]"
               % (", ".join(n for n, _ in msgs), ", ".join("[" + ", ".join(map(str, v)) + "]" for _, v in msgs)))
    out.append("/-- C (`if (*cp == '\\n')`) -/\ndef lfByte : Nat := 10")
    out.append("/-- C (`message_buf[producer] = '\\r'`) -/\ndef crByte : Nat := 13")
    return "\n\n".join(out)
