"""C14 translator part (DESIGN.md 2.3, T4): regenerate from src/comm.c the expressions the ring model is built from.

Located by text patterns inside the bodies of flush_message / add_message / add_vmessage and translated by a tiny
C expression grammar (int fields of `ip`, MESSAGE_BUF_SIZE, num_bytes, literals, + - * / %, comparisons, && || !) into
Lean definitions over `Int`.  Anything that cannot be located, or whose shape leaves the grammar, is a broken tie.
"""
import re

from nvlib import extract as X

IDENT = {
    "ip->message_consumer": "consumer",
    "ip->message_producer": "producer",
    "ip->message_length": "length",
    "MESSAGE_BUF_SIZE": "size",
    "num_bytes": "k",
}
PARAMS = "(consumer producer length size k : Int)"

TOK = re.compile(r"\s*(ip->\w+|[A-Za-z_]\w*|\d+|==|!=|<=|>=|&&|\|\||[-+*/%<>!()])")


class ParseError(Exception):
    pass


def tokenize(s):
    out, pos = [], 0
    s = s.strip()
    while pos < len(s):
        m = TOK.match(s, pos)
        if not m:
            raise ParseError("cannot tokenize %r at %d" % (s, pos))
        out.append(m.group(1))
        pos = m.end()
    return out


class P:
    """recursive descent -> Lean text; `kind` is 'int' or 'prop'"""

    def __init__(self, toks):
        self.t = toks
        self.i = 0

    def peek(self):
        return self.t[self.i] if self.i < len(self.t) else None

    def eat(self, x=None):
        v = self.peek()
        if v is None or (x is not None and v != x):
            raise ParseError("expected %r, got %r" % (x, v))
        self.i += 1
        return v

    def parse(self):
        r = self.lor()
        if self.peek() is not None:
            raise ParseError("trailing token %r" % self.peek())
        return r

    def lor(self):
        l = self.land()
        while self.peek() == "||":
            self.eat()
            r = self.land()
            l = ("prop", "(%s ∨ %s)" % (self.prop(l), self.prop(r)))
        return l

    def land(self):
        l = self.cmp()
        while self.peek() == "&&":
            self.eat()
            r = self.cmp()
            l = ("prop", "(%s ∧ %s)" % (self.prop(l), self.prop(r)))
        return l

    def cmp(self):
        l = self.add()
        if self.peek() in ("==", "!=", "<", "<=", ">", ">="):
            op = self.eat()
            r = self.add()
            lean = {"==": "=", "!=": "≠", "<": "<", "<=": "≤", ">": ">", ">=": "≥"}[op]
            return ("prop", "(%s %s %s)" % (self.int(l), lean, self.int(r)))
        return l

    def add(self):
        l = self.mul()
        while self.peek() in ("+", "-"):
            op = self.eat()
            r = self.mul()
            l = ("int", "(%s %s %s)" % (self.int(l), op, self.int(r)))
        return l

    def mul(self):
        l = self.unary()
        while self.peek() in ("*", "/", "%"):
            op = self.eat()
            r = self.unary()
            # C division / remainder truncate towards zero
            if op == "*":
                l = ("int", "(%s * %s)" % (self.int(l), self.int(r)))
            elif op == "/":
                l = ("int", "(Int.tdiv %s %s)" % (self.int(l), self.int(r)))
            else:
                l = ("int", "(Int.tmod %s %s)" % (self.int(l), self.int(r)))
        return l

    def unary(self):
        if self.peek() == "-":
            self.eat()
            return ("int", "(- %s)" % self.int(self.unary()))
        if self.peek() == "!":
            self.eat()
            return ("prop", "(¬ %s)" % self.prop(self.unary()))
        return self.primary()

    def primary(self):
        v = self.eat()
        if v == "(":
            r = self.lor()
            self.eat(")")
            return r
        if v.isdigit():
            return ("int", v)
        if v in IDENT:
            return ("int", IDENT[v])
        raise ParseError("identifier %r is outside the translated set" % v)

    @staticmethod
    def int(x):
        if x[0] != "int":
            raise ParseError("integer expected, got condition %s" % x[1])
        return x[1]

    @staticmethod
    def prop(x):
        if x[0] == "int":
            return "(%s ≠ 0)" % x[1]
        return x[1]


def to_lean(site, expr, want):
    try:
        r = P(tokenize(expr)).parse()
        return P.int(r) if want == "int" else P.prop(r)
    except ParseError as e:
        raise X.TieBroken("guard:" + site, "%s: `%s` left the expression grammar: %s" % (site, expr.strip(), e))


VERIF_BLOCK = re.compile(r"^#ifdef NEOLITH_VERIF\n(?:(?!#endif|#ifdef|#if |#ifndef|#else).*\n)*#endif[^\n]*\n", re.M)


def strip_hooks(src):
    """guarded verification hooks (`#ifdef NEOLITH_VERIF` ... `#endif`, add-only, no nesting, no #else) are not part of
    the code the model mirrors: they are cut out before any pattern is matched"""
    return VERIF_BLOCK.sub("", src)


def func_body(src, header_re, site):
    src = strip_hooks(src)
    m = re.search(header_re, src)
    if not m:
        raise X.TieBroken("guard:" + site, "cannot locate %s in src/comm.c" % site)
    end = src.find("\n}", m.end())
    if end < 0:
        raise X.TieBroken("guard:" + site, "cannot find the end of %s" % site)
    return src[m.end():end]


def balanced(text, start):
    """text[start] is just after an opening parenthesis; return (inner, index after the matching ')')"""
    depth, i = 1, start
    while i < len(text) and depth:
        if text[i] == "(":
            depth += 1
        elif text[i] == ")":
            depth -= 1
        i += 1
    return text[start:i - 1], i


def need(site, pat, text, count=None, flags=0):
    ms = re.findall(pat, text, flags)
    if not ms or (count is not None and len(ms) != count):
        raise X.TieBroken("guard:" + site, "%s: pattern %r found %d time(s), expected %s" % (site, pat, len(ms), count))
    return ms


def one(site, values):
    vs = set(re.sub(r"\s+", " ", v.strip()) for v in values)
    if len(vs) != 1:
        raise X.TieBroken("guard:" + site, "%s: the sites disagree: %r" % (site, sorted(vs)))
    return vs.pop()


TEL_REPLIES = [("telBreak", "telnet_break_response"), ("telInterrupt", "telnet_interrupt_response"),
               ("telAbort", "telnet_abort_response"), ("telDoTm", "telnet_do_tm_response"), ("telDoSga", "telnet_do_sga"),
               ("telWillSga", "telnet_will_sga"), ("telWontSga", "telnet_wont_sga"), ("telTermQuery", "telnet_term_query"),
               ("telSbLmMode", "telnet_sb_lm_mode"), ("telSbLmSlc", "telnet_sb_lm_slc"), ("telSe", "telnet_se")]


def extract(src, errno_value, pkgver=("neolith", "0")):
    """src = text of src/comm.c; errno_value(name) -> int.  Returns Lean text for NV/Gen/C14.lean"""
    out = ["set_option linter.unusedVariables false"]

    def emit(name, doc, body, ty="Int"):
        out.append("/-- C (%s) -/\ndef %s %s : %s :=\n  %s" % (doc.replace("-/", "- /"), name, PARAMS, ty, body))

    fl = func_body(src, r"\nint flush_message \(interactive_t \* ip\) \{", "flush_message")
    # --- contiguous-chunk rule
    m = need("flush_message.chunk",
             r"if \(([^{};]+)\)\s*\{\s*length = ([^;]+);\s*\}\s*else\s*\{\s*length = ([^;]+);\s*\}", fl, 1)[0]
    emit("chunkLen", "flush_message: `if (%s) length = %s; else length = %s;`" % tuple(x.strip() for x in m),
         "if %s then %s else %s" % (to_lean("flush_message.chunk", m[0], "prop"),
                                    to_lean("flush_message.chunk", m[1], "int"),
                                    to_lean("flush_message.chunk", m[2], "int")))
    need("flush_message.loop", r"while \(ip->message_length != 0\)", fl, 1)
    need("flush_message.send", r"SOCKET_SEND \(ip->fd, ip->message_buf \+ ip->message_consumer, length, ip->out_of_band\)", fl, 1)
    # --- consumer / length update
    e = need("flush_message.consumer", r"ip->message_consumer = ([^;]+);", fl, 1)[0]
    emit("consumerNext", "flush_message: `ip->message_consumer = %s;`" % e.strip(), to_lean("flush_message.consumer", e, "int"))
    e = need("flush_message.length", r"ip->message_length -= ([^;]+);", fl, 1)[0]
    emit("lengthAfterSend", "flush_message: `ip->message_length -= %s;`" % e.strip(),
         "length - %s" % to_lean("flush_message.length", e, "int"))
    # --- errno classification: which errno values keep the data (return 1 without NET_DEAD)
    m = re.search(r"if \(num_bytes == -1\)\s*\{\s*if \(((?:SOCKET_ERRNO == \w+)(?:\s*\|\|\s*SOCKET_ERRNO == \w+)*)\)\s*\{(.*?)return 1;\s*\}"
                  r"(.*?)ip->iflags \|= NET_DEAD;\s*return 0;", fl, re.S)
    if not m or "NET_DEAD" in m.group(2) or "return" in m.group(2):
        raise X.TieBroken("guard:flush_message.errno", "cannot locate the errno classification of flush_message")
    names = re.findall(r"SOCKET_ERRNO == (\w+)", m.group(1))
    vals = [errno_value(n) for n in names]
    out.append("/-- C (flush_message: `if (%s) { ... return 1; }` - these errno values keep the data; every other one sets "
               "NET_DEAD) -/\ndef keepErrnos : List Nat := [%s]" % (re.sub(r"\s+", " ", m.group(1)), ", ".join(map(str, vals))))
    # --- add_message / add_vmessage
    bodies = {"add_message": func_body(src, r"\nvoid add_message \(object_t \* who, char \*data\) \{", "add_message"),
              "add_vmessage": func_body(src, r"\nvoid add_vmessage \(object_t \* who, char \*format, \.\.\.\) \{", "add_vmessage")}
    full, lf, prod = [], [], []
    for fn, b in bodies.items():
        tests = []
        for mm in re.finditer(r"if \(ip->message_length == ", b):
            inner, after = balanced(b, mm.end())
            tests.append((inner, b[after:after + 120]))
        if len(tests) != 4:
            raise X.TieBroken("guard:%s.full" % fn, "%s: %d `message_length ==` tests, expected 4" % (fn, len(tests)))
        # 1st/3rd are followed by the flush, 2nd/4th by `break;` (the tail is dropped, nothing else is touched)
        for idx in (0, 2):
            if not re.match(r"\s*\{\s*if \(!flush_message \(ip\)\)", tests[idx][1]):
                raise X.TieBroken("guard:%s.full" % fn, "%s: ring-full test %d is not followed by the flush" % (fn, idx))
        for idx in (1, 3):
            if not re.match(r"\s*break;", tests[idx][1]):
                raise X.TieBroken("guard:%s.full" % fn, "%s: ring-still-full test %d is not followed by `break;`" % (fn, idx))
        full += [tests[0][0], tests[1][0]]
        lf += [tests[2][0], tests[3][0]]
        need("%s.lf" % fn, r"if \(\*cp == '\\n'\)", b, 1)
        need("%s.cr" % fn, r"ip->message_buf\[ip->message_producer\] = '\\r';", b, 1)
        need("%s.byte" % fn, r"ip->message_buf\[ip->message_producer\] = \*cp;", b, 1)
        need("%s.len" % fn, r"ip->message_length\+\+;", b, 2)
        need("%s.loop" % fn, r"for \(cp = \w+; \*cp; cp\+\+\)", b, 1)
        prod += need("%s.producer" % fn, r"ip->message_producer = ([^;]+);", b, 2)
    e = one("add_message.full", full)
    emit("fullThr", "add_message/add_vmessage: `if (ip->message_length == %s)` flush; still equal => break" % e,
         to_lean("add_message.full", e, "int"))
    e = one("add_message.fullLF", lf)
    emit("lfThr", "add_message/add_vmessage, before CR LF: `if (ip->message_length == %s)` flush; still equal => break" % e,
         to_lean("add_message.fullLF", e, "int"))
    e = one("add_message.producer", prod)
    emit("producerNext", "add_message/add_vmessage: `ip->message_producer = %s;` (all four stores)" % e,
         to_lean("add_message.producer", e, "int"))
    # --- negotiation written to a telnet port at connect (setup_accepted_connection)
    sac = func_body(src, r"\nstatic void setup_accepted_connection \(port_def_t \*port, socket_fd_t new_socket_fd, struct sockaddr_in \*addr\) \{",
                    "setup_accepted_connection")
    m = re.search(r"if \(port->kind == PORT_TELNET\)\s*\{\s*query_addr_name \(user_ob\);((?:\s*add_message \(user_ob, \w+\);)+)"
                  r"\s*flush_message \(user_ob->interactive\);\s*\}", sac)
    if not m:
        raise X.TieBroken("guard:setup_accepted_connection.telnet", "cannot locate the telnet negotiation block at connect")
    msgs = []
    for name in re.findall(r"add_message \(user_ob, (\w+)\);", m.group(1)):
        d = re.search(r"static char %s\[\] = \{([^}]*)\};" % re.escape(name), src)
        if not d:
            raise X.TieBroken("guard:" + name, "cannot locate the initialiser of %s" % name)
        toks = [re.sub(r"^INT_CHAR\((.*)\)$", r"\1", t.strip()) for t in d.group(1).split(",") if t.strip()]
        if not toks or toks[-1] != "0":
            raise X.TieBroken("guard:" + name, "%s is not a 0-terminated byte list" % name)
        vals = [errno_value(t) & 0xFF for t in toks[:-1]]
        if any(v == 0 for v in vals):
            raise X.TieBroken("guard:" + name, "%s contains an inner NUL" % name)
        msgs.append((name, vals))
    out.append("/-- C (setup_accepted_connection, PORT_TELNET: add_message of %s, then flush_message) -/\n"
               "def connectTelnet : List (List Nat) := [%s]"
               % (", ".join(n for n, _ in msgs), ", ".join("[" + ", ".join(map(str, v)) + "]" for _, v in msgs)))
    # --- replies written by copy_chars (telnet decoder) while input is processed
    def byte_array(name):
        d = re.search(r"static char %s\[\] = \{([^}]*)\};" % re.escape(name), src)
        if not d:
            raise X.TieBroken("guard:" + name, "cannot locate the initialiser of %s" % name)
        toks = [re.sub(r"^INT_CHAR\((.*)\)$", r"\1", t.strip()) for t in d.group(1).split(",") if t.strip()]
        if not toks or toks[-1] != "0":
            raise X.TieBroken("guard:" + name, "%s is not a 0-terminated byte list" % name)
        return [errno_value(t) & 0xFF for t in toks[:-1]]
    cc = func_body(src, r"\nstatic size_t copy_chars \(UCHAR\* from, UCHAR\* to, size_t count, interactive_t\* ip\) \{", "copy_chars")
    for lean, cname in TEL_REPLIES:
        if not re.search(r"add_message \(ip->ob, %s\);" % cname, cc):
            raise X.TieBroken("guard:copy_chars." + cname, "copy_chars no longer writes %s" % cname)
        out.append("/-- C (`static char %s[]`, written by copy_chars) -/\ndef %s : List Nat := [%s]"
                   % (cname, lean, ", ".join(map(str, byte_array(cname)))))
    m = re.search(r'add_message \(ip->ob, "((?:\\.|[^"\\])*)"\);', cc)
    if not m or m.group(1) != "\\r\\n":
        raise X.TieBroken("guard:copy_chars.newline", "copy_chars: the CR LF echo is no longer add_message (ip->ob, \"\\r\\n\")")
    out.append("/-- C (copy_chars, CR LF / CR NUL received: `add_message (ip->ob, \"\\r\\n\")`) -/\ndef telNewline : List Nat := [13, 10]")
    m = re.search(r'add_vmessage \(ip->ob, "\\n\[%s-%s\] \\n", PACKAGE, VERSION\);', cc)
    if not m:
        raise X.TieBroken("guard:copy_chars.ayt", "copy_chars: the AYT answer is no longer add_vmessage (ip->ob, \"\\n[%s-%s] \\n\", PACKAGE, VERSION)")
    out.append("/-- C (copy_chars, IAC AYT: `add_vmessage (ip->ob, \"\\n[%%s-%%s] \\n\", PACKAGE, VERSION)`) -/\n"
               "def telAyt : List Nat := [%s]" % ", ".join(str(b) for b in ("\n[%s-%s] \n" % pkgver).encode()))
    m = re.search(r"telnet_sb_lm_mode\[(\d+)\] = MODE_EDIT \| MODE_TRAPSIG;", cc)
    if not m:
        raise X.TieBroken("guard:copy_chars.lm-mode", "copy_chars: WILL LINEMODE no longer stores MODE_EDIT | MODE_TRAPSIG into telnet_sb_lm_mode")
    out.append("/-- C (copy_chars, WILL LINEMODE: `telnet_sb_lm_mode[%s] = MODE_EDIT | MODE_TRAPSIG`) -/\ndef lmModeIndex : Nat := %s"
               % (m.group(1), m.group(1)))
    out.append("/-- C (`if (*cp == '\\n')`) -/\ndef lfByte : Nat := 10")
    out.append("/-- C (`message_buf[producer] = '\\r'`) -/\ndef crByte : Nat := 13")
    return "\n\n".join(out)


# ---------------------------------------------------------------------------------------------------------------------
# shape checks: control flow that Model.lean mirrors by hand (statement order, entry tests, which branch touches the
# write interest, the flush triggers).  Each entry: (site, file, function header regex or None, pattern, count).
# A pattern that no longer matches is a broken tie (the model may no longer mirror the code).

WS = r"\s*"
SHAPES = [
    ("flush_message.entry", "src/comm.c", "flush", r"if \(!ip \|\| \(ip->iflags & \(CLOSING \| NET_DEAD\)\)\)" + WS + r"return 0;", 1),
    ("flush_message.console-branch", "src/comm.c", "flush",
     r"num_bytes = \(ip == all_users\[0\]\) \?" + WS + r"FILE_WRITE \(STDOUT_FILENO, ip->message_buf \+ ip->message_consumer, length\) :", 1),
    ("flush_message.refused", "src/comm.c", "flush",
     r"if \(ip != all_users\[0\]\)" + WS + r"\{" + WS + r"async_runtime_modify \(g_runtime, ip->fd, EVENT_READ \| EVENT_WRITE, ip\);"
     + WS + r"\}" + WS + r"return 1;", 1),
    ("flush_message.dead", "src/comm.c", "flush", r"ip->iflags \|= NET_DEAD;" + WS + r"return 0;" + WS + r"\}" + WS
     + r"ip->message_consumer =", 1),
    ("flush_message.drained", "src/comm.c", "flush",
     r"if \(ip != all_users\[0\]\)" + WS + r"\{" + WS + r"async_runtime_modify \(g_runtime, ip->fd, EVENT_READ, ip\);" + WS + r"\}"
     + WS + r"return 1;", 1),
    ("add_message.entry", "src/comm.c", "add",
     r"if \(!who \|\| \(who->flags & O_DESTRUCTED\) \|\| !who->interactive \|\|" + WS
     + r"\(who->interactive->iflags & \(NET_DEAD \| CLOSING\)\)\)", 1),
    ("add_message.broken-return", "src/comm.c", "add",
     r"if \(!flush_message \(ip\)\)" + WS + r"\{" + WS + r"debug_message \(\"Broken connection during add_message.\\n\"\);" + WS + r"return;", 2),
    ("add_message.order", "src/comm.c", "add",
     r"ip->message_buf\[ip->message_producer\] = '\\r';" + WS + r"ip->message_producer = [^;]+;" + WS + r"ip->message_length\+\+;" + WS
     + r"\}" + WS + r"ip->message_buf\[ip->message_producer\] = \*cp;" + WS + r"ip->message_producer = [^;]+;" + WS
     + r"ip->message_length\+\+;" + WS + r"\}", 1),
    ("add_message.tail", "src/comm.c", "add",
     r"#ifdef FLUSH_OUTPUT_IMMEDIATELY" + WS + r"flush_message \(ip\);" + WS + r"#else" + WS
     + r"if \(ip == all_users\[0\]\)[^{]*\{" + WS + r"flush_message \(ip\);" + WS + r"\}" + WS
     + r"else" + WS + r"\{[^}]*async_runtime_modify \(g_runtime, ip->fd, EVENT_READ \| EVENT_WRITE, ip\);" + WS + r"\}" + WS + r"#endif" + WS
     + r"add_message_calls\+\+;" + WS + r"/\*(?:[^*]|\*(?!/))*\*/" + WS
     + r"if \(ip->snoop_by\)" + WS + r"receive_snoop \(data, ip->snoop_by->ob\);" + WS + r"$", 1),
    ("add_vmessage.broken-break", "src/comm.c", "addv",
     r"if \(!flush_message \(ip\)\)" + WS + r"\{" + WS + r"debug_message \(\"Broken connection during add_message.\\n\"\);" + WS + r"break;", 2),
    ("add_vmessage.tail", "src/comm.c", "addv",
     r"if \(\(ip->message_length != 0\) && !flush_message \(ip\)\)" + WS + r"debug_message \([^;]*\);" + WS + r"/\*[^*]*\*/" + WS
     + r"if \(ip->snoop_by\)" + WS + r"receive_snoop \(str, ip->snoop_by->ob\);", 1),
    ("get_user_command.flush", "src/comm.c", None,
     r"ip = all_users\[s_next_user\];" + WS + r"if \(ip && ip->message_length\)" + WS + r"\{" + WS + r"object_t \*ob = ip->ob;" + WS
     + r"flush_message \(ip\);", 1),
    ("process_io.write-ready", "src/comm.c", None, r"if \(evt->event_type & EVENT_WRITE\)" + WS + r"\{" + WS + r"flush_message \(ip\);", 1),
    ("process_io.close-event", "src/comm.c", None,
     r"if \(evt->event_type & \(EVENT_ERROR \| EVENT_CLOSE\)\)" + WS + r"\{[^}]*remove_interactive \(ip->ob, 0\);" + WS + r"continue;", 1),
    ("process_io.console", "src/comm.c", None, r"if \(all_users && all_users\[0\]\)" + WS + r"flush_message \(all_users\[0\]\);", 1),
    ("remove_interactive.flush-then-closing", "src/comm.c", None, r"flush_message \(ip\);" + WS + r"ip->iflags \|= CLOSING;", 1),
    ("get_user_data.eof", "src/comm.c", None,
     r"case 0:" + WS + r"if \(ip->iflags & CLOSING\)" + WS + r"debug_message \([^;]*\);" + WS + r"ip->iflags \|= NET_DEAD;" + WS
     + r"remove_interactive \(ip->ob, 0\);", 1),
    ("new_interactive.ring-init", "src/comm.c", None,
     r"master_ob->interactive->message_producer = 0;" + WS + r"master_ob->interactive->message_consumer = 0;" + WS
     + r"master_ob->interactive->message_length = 0;", 1),
    ("new_interactive.register-read-only", "src/comm.c", None, r"async_runtime_add \(g_runtime, socket_fd, EVENT_READ, master_ob->interactive\)", 1),
    ("f_flush_messages", "lib/efuns/unsorted.c", None,
     r"if \(sp->u.ob->interactive\)" + WS + r"flush_message \(sp->u.ob->interactive\);[^#]*for \(i = 0; i < max_users; i\+\+\)" + WS + r"\{" + WS
     + r"if \(all_users\[i\] && !\(all_users\[i\]->iflags & CLOSING\)\)" + WS + r"flush_message \(all_users\[i\]\);", 1),
    ("epoll.events-map", "lib/async/async_runtime_epoll.c", None,
     r"if \(events & EVENT_READ\) epoll_events \|= EPOLLIN;" + WS + r"if \(events & EVENT_WRITE\) epoll_events \|= EPOLLOUT;", 1),
    ("epoll.events-back", "lib/async/async_runtime_epoll.c", None,
     r"if \(epoll_events & EPOLLOUT\) events \|= EVENT_WRITE;" + WS + r"if \(epoll_events & EPOLLERR\) events \|= EVENT_ERROR;" + WS
     + r"if \(epoll_events & EPOLLHUP\) events \|= EVENT_CLOSE;", 1),
    ("epoll.modify", "lib/async/async_runtime_epoll.c", None,
     r"ev.events = events_to_epoll\(events\);" + WS + r"ev.data.ptr = context;[^\n]*" + WS + r"return epoll_ctl\(runtime->epoll_fd, EPOLL_CTL_MOD, fd, &ev\);", 1),
    ("epoll.add", "lib/async/async_runtime_epoll.c", None,
     r"ev.events = events_to_epoll\(events\);" + WS + r"ev.data.ptr = context;" + WS + r"return epoll_ctl\(runtime->epoll_fd, EPOLL_CTL_ADD, fd, &ev\);", 1),
    # snoop relation, re-entrancy (Multi.lean: dropSnooper, MOp.snoop, reactStep / writeW)
    ("receive_snoop.body", "src/comm.c", None,
     r"static void receive_snoop \(char \*buf, object_t \* snooper\) \{(?:\s|/\*(?:[^*]|\*(?!/))*\*/)*copy_and_push_string \(buf\);"
     + r"(?:\s|/\*(?:[^*]|\*(?!/))*\*/)*safe_apply \(APPLY_RECEIVE_SNOOP, snooper, 1, ORIGIN_DRIVER\);" + WS + r"\}", 1),
    ("remove_interactive.snoop-links", "src/comm.c", None,
     r"if \(ip->snoop_by\)" + WS + r"\{" + WS + r"ip->snoop_by->snoop_on = 0;" + WS + r"ip->snoop_by = 0;" + WS + r"\}" + WS
     + r"if \(ip->snoop_on\)" + WS + r"\{" + WS + r"ip->snoop_on->snoop_by = 0;" + WS + r"ip->snoop_on = 0;" + WS + r"\}", 1),
    ("remove_interactive.close-fd", "src/comm.c", None, r"if \(SOCKET_CLOSE \(ip->fd\) == SOCKET_ERROR\)", 1),
    ("new_set_snoop.loop-guard", "src/comm.c", None,
     r"for \(tmp = on; tmp; tmp = tmp->snoop_on\)" + WS + r"\{" + WS + r"if \(tmp == by\)" + WS + r"return \(0\);" + WS + r"\}", 1),
    ("new_set_snoop.relink", "src/comm.c", None,
     r"if \(by->snoop_on\)" + WS + r"\{" + WS + r"by->snoop_on->snoop_by = 0;" + WS + r"by->snoop_on = 0;" + WS + r"\}" + WS
     + r"if \(on->snoop_by\)" + WS + r"\{" + WS + r"on->snoop_by->snoop_on = 0;" + WS + r"on->snoop_by = 0;" + WS + r"\}" + WS
     + r"on->snoop_by = by;" + WS + r"by->snoop_on = on;", 1),
    ("f_receive", "lib/efuns/interactive.c", None,
     r"if \(current_object->interactive\)" + WS + r"\{" + WS + r"check_legal_string \(sp->u.string\);" + WS
     + r"add_message \(current_object, sp->u.string\);", 1),
    ("tell_object.interactive", "lib/lpc/object.c", None, r"if \(ob->interactive\)" + WS + r"add_message \(ob, str\);", 1),
    ("add_vmessage.format", "src/comm.c", "addv",
     r"va_start \(args, format\);" + WS + r"#ifdef _GNU_SOURCE" + WS + r"ret = vasprintf \(&str, format, args\);" + WS + r"#else", 1),
    ("socket_comm.send-macro", "lib/port/socket_comm.h", None, r"#define SOCKET_SEND\(s, b, l, f\)\s+send\(s, b, l, f\)", 1),
    ("socket_comm.errno-macro", "lib/port/socket_comm.h", None, r"#define SOCKET_ERRNO\s+errno", 1),
]

HEADERS = {
    "flush": (r"\nint flush_message \(interactive_t \* ip\) \{", "flush_message"),
    "add": (r"\nvoid add_message \(object_t \* who, char \*data\) \{", "add_message"),
    "addv": (r"\nvoid add_vmessage \(object_t \* who, char \*format, \.\.\.\) \{", "add_vmessage"),
}


def local_buffers(src):
    """fixed-size local arrays of add_message / add_vmessage / flush_message (a formatting or staging buffer): their sizes aim
    the length sweep of the generators.  [(function, name, size expression)]"""
    out = []
    for key in ("add", "addv", "flush"):
        try:
            body = func_body(src, HEADERS[key][0], HEADERS[key][1])
        except X.TieBroken:
            continue
        for m in re.finditer(r"\b(?:unsigned\s+|signed\s+|const\s+)*(?:char|UCHAR|BYTE|unsigned char)\s+(\w+)\s*\[([^\]]+)\]", body):
            out.append((HEADERS[key][1], m.group(1), m.group(2).strip()))
    return out


def shape_checks(read):
    """read(relative path) -> text.  Raises TieBroken on the first shape that no longer matches; returns the list of
    checked site names (written into the Gen file as a comment and into the evidence)"""
    done = []
    for site, path, fn, pat, count in SHAPES:
        text = strip_hooks(read(path))
        if fn:
            text = func_body(text, HEADERS[fn][0], HEADERS[fn][1])
        n = len(re.findall(pat, text, re.S))
        if n != count:
            raise X.TieBroken("shape:" + site, "%s (%s): the mirrored statement shape matches %d time(s), expected %d" % (site, path, n, count))
        done.append(site)
    return done
