"""C11 - heart_beat runs once per interval per enabled object; faults stay local."""
import os

from nvlib import engine as E
from nvlib.check import Prop

# intervals: 0 = disable; around the short / int boundaries the clamp (fix: C11) is exercised
INTERVALS = [(0, 14), (1, 14), (2, 8), (3, 5), (4, 2), (5, 1), (-1, 2), (-7, 1), (32767, 1), (32768, 1), (40000, 1),
             (65536, 1), (65537, 1), (4294967296, 1), (4294967297, 1), (-4294967296, 1)]


# every branch of call_heart_beat / set_heart_beat / f_set_heart_beat / query_heart_beat / error_handler that the model has
# (tags produced by `nvdrive C11 branches`, lean/NV/C11/Branches.lean)
BRANCHES = [
    "chb.num_hb_to_do=0", "chb.num_hb_to_do>0", "chb.entry.no-heart_beat-function", "chb.entry.not-due",
    "chb.entry.due:call", "chb.next-entry", "chb.exit:++index==num_hb_to_do", "chb.exit:heart_beat_flag(truncated)",
    "chb.round-abandoned", "error.in-heart_beat:switch-off", "error.no-current_heart_beat",
    "shb.destructed-return", "shb.clamp-to-SHRT_MAX", "shb.remove.not-on-list",
    "shb.remove.outside-round(num_hb_to_do=0)", "shb.remove.index<=heart_beat_index:decrement",
    "shb.remove.index>heart_beat_index:keep", "shb.remove.index<num_hb_to_do:decrement",
    "shb.remove.index>=num_hb_to_do:keep", "shb.enabled.negative-refused", "shb.enabled.retune",
    "shb.append.first-allocation", "shb.append.grow-array", "shb.append.room", "shb.append.negative->1",
    "efun.saturate-high", "efun.saturate-low", "efun.pass", "qhb.on-list", "qhb.flag-off->0",
    "destruct.no-inventory", "destruct.inventory-hooks", "destruct.hook-enabled-the-dying-object",
    "destruct.hook-disabled-the-dying-object", "take",
    "clone.blueprint-heart-beat-switched-off", "clone.blueprint-has-no-heart-beat", "timer-fired", "heart_beats()",
    "move_object", "replace_program", "replace_programs:program-swapped", "error.after-self-destruct", "error.caught-by-catch", "reload_object", "enable_commands", "eval_cost-used", "timer_flags-set",
    "chb.call.living:command_giver=ob", "chb.call.not-living:command_giver=0", "chb.call.eval_cost-was-full",
    "chb.call.eval_cost-reset-after-use", "chb.timer_flags-without-HEARTBEAT:empty",
    "chb.timer_flags-without-HEARTBEAT:list-kept", "backend.start-up-call", "backend.further-passes-after-error",
    "backend.tick-served-right-after-an-abandoned-round", "backend.pass-limit", "cotick",
    "call_out.dispatch-after-the-round", "call_out.error-after-a-round-with-beats", "own-set_heart_beat",
    "shb.destructed-return:own-call-after-self-destruct",
]


class C11(Prop):
    id = "C11"
    title = "heart_beat runs once per interval per enabled object; faults stay local"
    lean_modules = ["NV.C11.Props", "NV.C11.Witness", "NV.C11.Search", "NV.C11.Trace", "NV.C11.Period", "NV.C11.Negative"]
    theorems = [
        "NV.C11.model_satisfies_spec",
        "NV.C11.hb_index_in_bounds",
        "NV.C11.hbs_is_service_order",
        "NV.C11.at_most_once_per_tick",
        "NV.C11.disabled_or_destructed_never_called",
        "NV.C11.judge_ok_implies_clauses",
        "NV.C11.accepted_trace_ok",
        "NV.C11.JI_step",
        "NV.C11.complete_round_visits_each_once",
        "NV.C11.beat_only_from_pending",
        "NV.C11.beat_accepted_iff",
        "NV.C11.period_n",
        "NV.C11.period_n_countdown",
        "NV.C11.interval_stored",
        "NV.C11.error_local",
        "NV.C11.error_local_others",
        "NV.C11.gen_clampTo_eq",
        "NV.C11.gen_rmCompensate_eq",
        "NV.C11.gen_appendStore_eq",
        "NV.C11.gen_efunSat_eq",
        "NV.C11.gen_hbBody_eq",
        "NV.C11.gen_loopStep_eq",
        "NV.C11.gen_loopContinues_eq",
        "NV.C11.gen_destructOrder_eq",
        "NV.C11.destructFull_ref",
        "NV.C11.sim_hooksPhase",
        "NV.C11.sim_stepOp",
        "NV.C11.setHeartBeat_eq_ref",
        "NV.C11.round_eq_ref",
        "NV.C11.sim_disable",
        "NV.C11.sim_set",
        "NV.C11.sim_round",
        "NV.C11.sim_reload",
        "NV.C11.sim_tick",
        "NV.C11.sim_tickCore",
        "NV.C11.sim_applyRp",
        "NV.C11.sim_morePasses",
        "NV.C11.sim_tickRound",
        "NV.C11.sim_coStep",
        "NV.C11.sim_coLoop",
        "NV.C11.sim_coDispatch",
        "NV.C11.gen_chbTail_eq",
        "NV.C11.sim_runDead",
        "NV.C11.destructed_never_enabled",
        "NV.C11.oracle_own_set_heart_beat_of_destructed",
        "NV.C11.error_outside_heart_beat_switches_off_nobody",
        "NV.C11.oracle_error_outside_heart_beat",
        "NV.C11.sim_hookStep",
        "NV.C11.roundRef_cg",
        "NV.C11.tick_cg_none",
        "NV.C11.searchLoop_eq",
        "NV.C11.searchBack_eq_idxOf",
        "NV.C11.searchBack_none_iff",
        "NV.C11.hbs_nodup",
        "NV.C11.search_direction_unobservable",
        "NV.C11.gen_efunWrappers_eq",
        "NV.C11.gen_backendOrder_eq",
        "NV.C11.gen_timerSetsFlag_eq",
        "NV.C11.gen_shbGuard_eq",
        "NV.C11.gen_retuneStore_eq",
        "NV.C11.gen_growCap_eq",
        "NV.C11.gen_ctxSaveRestore_eq",
        "NV.C11.gen_heartBeatsReversed_eq",
        "NV.C11.gen_rmMove_eq",
        "NV.C11.applyMove_eq_erase",
        "NV.C11.gen_queryReturns_eq",
        "NV.C11.gen_reloadOrder_eq",
        "NV.C11.gen_cloneOrder_eq",
        "NV.C11.gen_search_eq",
        "NV.C11.gen_roundEntry_eq",
        "NV.C11.gen_roundExit_eq",
        "NV.C11.gen_roundSkip_eq",
        "NV.C11.gen_callFrame_eq",
        "NV.C11.gen_errOrder_eq",
        "NV.C11.gen_errBlock_eq",
        "NV.C11.timerFlagHeartbeat_val",
        "NV.C11.errorHandler_eq_ref",
        "NV.C11.callSetup_ref",
        "NV.C11.callAfter_ref",
        "NV.C11.finish_ref",
        "NV.C11.tick_eq_ref",
        "NV.C11.interval_stored_any",
        "NV.C11.retune_keeps_position",
        "NV.C11.runRound_eq",
        "NV.C11.quiet_body",
        "NV.C11.quiet_round",
        "NV.C11.quiet_ticks",
        "NV.C11.missed_beat_rejected",
        "NV.C11.serveN_period",
        "NV.C11.quiet_step",
        "NV.C11.accepted_quiet_when_off",
        "NV.C11.judge_ok_implies_quiet_when_off",
        "NV.C11.no_beat_while_heart_beats_off",
        "NV.C11.accepted_cg_clean",
        "NV.C11.judge_ok_implies_cg_clean",
        "NV.C11.no_command_giver_left_behind",
        "NV.C11.accepted_ctx_clean",
        "NV.C11.judge_ok_implies_ctx_clean",
        "NV.C11.context_clean_every_beat",
        "NV.C11.call_context_clean",
        "NV.C11.call_context_accepted",
        "NV.C11.caught_error_keeps_heart_beat",
        "NV.C11.no_round_without_heartbeat_flag",
        "NV.C11.round_entered_iff",
    ]
    witness_theorems = [
        "NV.C11.truncation_values",
        "NV.C11.truncated_interval_beats_every_tick",
        "NV.C11.truncated_32768_wraps",
        "NV.C11.clamp_witness",
        "NV.C11.clamp_witness_int",
    ]
    consts = [("shrtMax", "SHRT_MAX"), ("heartBeatChunk", "HEART_BEAT_CHUNK"),
              ("timerFlagHeartbeat", "TIMER_FLAG_HEARTBEAT"), ("timerFlagCallout", "TIMER_FLAG_CALLOUT")]
    const_headers = ["lib/efuns/options.h", "src/main.h"]
    quick_n = 400
    thorough_n = 8000
    search_n = 1500
    design_ref = "5/C11"
    technique = ("Lean 4 proof (refinement of the index-compensating round loop to an index-free reference "
                 "semantics, induction over rounds; trace-level corollaries) + clang-AST translator (symbolic execution of the "
                 "decisive statements of set_heart_beat / f_set_heart_beat / call_heart_beat / query_heart_beat / error_handler / "
                 "destruct_object / reload_object / clone_object into Lean definitions the model uses, bridging lemmas as "
                 "obligations) + model/implementation correspondence")
    level_text = ("Lean 4 theorems about an executable model of one pass of the backend() loop (start-up call, "
                  "remove_destructed_objects / replace_programs, call_heart_beat incl. the call_out dispatch behind the round, further "
                  "passes after an error), set_heart_beat / "
                  "query_heart_beat / error_handler (restrict_destruct reset, catch branch, switch-off) / destruct_object "
                  "(inventory hooks incl. errors, self-destructing and departing items, restrict_destruct) / clone_object / "
                  "reload_object / replace_program for all populations, heart_beat scripts, timer_flags and tick counts; the "
                  "model is tied to the source by definitions regenerated from the clang AST on every run (round frame with the "
                  "timer_flags guard, index compensation, search loop, memmove, tick test/reset, statements around the call, "
                  "clamp, retune, growth, argument saturation, loop exit, while condition, error_handler block and order, "
                  "destruct / reload / clone / backend-loop order; constants appear symbolically - the model uses them, bridging "
                  "lemmas are obligations) and by running the REAL backend() loop (cycle hook; poll point and "
                  "remove_destructed_objects wrapped at link level) and the model on the same generated histories; the Lean "
                  "specification oracle (incl. 'every heart_beat starts with a clean command_giver / eval cost' and 'no "
                  "command_giver is left behind after a pass') judges every implementation trace")
    level_note = ("trusted: Lean kernel; extract.py + props/c11_extract.py (symbolic execution of the listed statements, grammar "
                  "in its header); the correspondence harness (differential, only the generated histories); "
                  "heart_beat bodies are oracle scripts; the timer thread is an explicit 'flag' operation (the timer tick itself "
                  "is delivered at the poll point the way heartbeat_timer_callback does); backend() is entered anew for every "
                  "tick of a case (its start-up call_heart_beat runs with timer_flags = 0 and is part of the model); at most "
                  "maxPass = 5 further rounds are served inside one tick command (harness rule, mirrored)")
    rule = ("cases = corpus + boundary list + seeded random histories: populations of 1..6 (sometimes 35..42, boundary: > 128) "
            "clones of two blueprints (with / without heart_beat function), some living, some carrying others; per-beat and "
            "one-shot heart_beat scripts of set_heart_beat(self/other, 0/1/n/out-of-range), query, destruct(self/other, + error "
            "afterwards), clone(+enable), reload_object(self/other), replace_program, move_object, error, caught error, "
            "enable_commands, eval-cost use, timer-fired and heart_beats(); move_or_destruct hooks incl. failing, self-destructing, "
            "departing and illegally destructing ones; the same operations between ticks; timer_flags changes; 3..25 ticks; a "
            "case is non-trivial when its trace has a beat; distinct = distinct canonical implementation trace")
    not_covered = ["the direction of set_heart_beat's search loop is proved unobservable (entries unique per object) instead of being modelled",
                   "perc_hb_probes / num_hb_calls statistics, heart_beat_status()",
                   "truncation of a round by the real timer thread is an explicit scripted operation (the thread is C19)",
                   "current_interactive; user commands / I/O in the same pass of the backend loop (C09, C12)",
                   "reset()/clean_up() applied by look_for_objects_to_swap inside call_heart_beat (position tied, no failing ones scripted: C05); the call_out wheel timing (C10) - every call_out here is due at the next dispatch",
                   "nested inventories (items carrying items); 'errR only inside a hook' is not an oracle clause (a left-over restrict_destruct is observed directly by the harness instead)",
                   "wrap of the short countdown of an object without heart_beat function (needs 32769 ticks, not observable: such an object is never called)",
                   "errors in the master's error handler (in_error re-entry)"]

    def gen_extra(self, ctx, bdir):
        """T4: the decisive conditions / updates of set_heart_beat, f_set_heart_beat and call_heart_beat, recovered from
        the clang AST of the working tree (props/c11_extract.py); raises TieBroken when a site cannot be located"""
        from props import c11_extract
        text, self.extracted = c11_extract.extract(bdir)
        return text

    def prepare(self, ctx):
        self.exe = E.compile_harness("c11", [os.path.join(E.VERIF, "harness/c11/c11.c")],
                                     extra=("-Wl,--wrap=do_comm_polling", "-Wl,--wrap=remove_destructed_objects", "-Wl,--wrap=call_out"))
        self.conf = E.make_mudlib(ctx.rundir)

    def run_impl(self, ctx, cases):
        return E.run_harness(self.exe, self.conf, cases, ctx.rundir)

    def nontrivial_key(self, case, out):
        if not any(l.startswith("beat ") for l in out):
            return None
        return super().nontrivial_key(case, out)

    # ---- generators ------------------------------------------------------
    def boundary(self):
        B = []

        def mk(name, lines):
            B.append(E.Case("b-" + name, lines, {"origin": "boundary"}))
        pop3 = ["do o0 clone,o2,0,1", "do o0 clone,o3,0,1", "do o0 clone,o4,0,1"]
        mk("plain-intervals", ["do o0 clone,o2,0,1", "do o0 clone,o3,0,2", "do o0 clone,o4,0,3", "do o0 hbs"] + ["tick"] * 7)
        mk("self-disable", pop3 + ["script o3 hb:1 shb,o3,0;q,o3", "tick", "tick", "tick", "do o0 hbs"])
        mk("disable-earlier", pop3 + ["script o3 hb:0 shb,o2,0", "tick", "tick"])
        mk("disable-later", pop3 + ["script o3 hb:0 shb,o4,0", "tick", "tick"])
        mk("disable-all-others", pop3 + ["script o3 hb:0 shb,o2,0;shb,o4,0;hbs", "tick", "tick"])
        mk("disable-self-and-others", pop3 + ["script o2 hb:0 shb,o3,0;shb,o2,0;shb,o4,0;shb,o2,1;hbs", "tick", "tick"])
        mk("reenable-in-round", pop3 + ["script o2 hb:0 shb,o3,0;shb,o3,1", "tick", "tick"])
        mk("self-destruct", pop3 + ["script o3 hb:0 dest,o3;q,o3", "tick", "tick", "do o0 q,o3"])
        mk("destruct-earlier-later", pop3 + ["script o3 hb:0 dest,o2;dest,o4", "tick", "tick"])
        mk("error-local", pop3 + ["script o3 hb:1 err", "tick", "tick", "do o0 hbs", "do o0 q,o3", "tick", "tick"])
        mk("error-after-self-disable", pop3 + ["script o3 hb:0 shb,o3,0;err", "tick", "do o0 hbs", "tick"])
        mk("error-after-reenable", pop3 + ["script o3 hb:0 shb,o3,0;shb,o3,1;err", "tick", "do o0 hbs", "tick"])
        mk("error-stale-cursor", pop3 + ["script o2 hb:0 err", "tick", "do o0 shb,o3,0", "do o0 shb,o4,0", "do o0 clone,o5,0,1",
                                        "tick", "tick"])
        # error_handler must clear current_heart_beat: a later unrelated error must not switch the object off again
        mk("error-then-unrelated-top-level-error", pop3 + ["script o2 hb:0 err", "tick", "do o0 shb,o2,1", "do o3 err",
                                                            "do o0 hbs", "do o0 q,o2", "tick", "tick"])
        mk("error-then-unrelated-error-in-hook-free-destruct", pop3 + ["script o3 hb:1 err", "tick", "tick", "do o3 shb,o3,2",
                                                                        "do o4 err", "do o2 err", "do o0 hbs", "tick", "tick"])
        mk("clone-in-round", pop3 + ["script o2 hb:0 clone,o5,0,1;clone,o6,0,2;hbs", "tick", "tick", "tick"])
        mk("clone-disables-blueprint", ["do o0 shb,o0,1", "do o0 q,o0", "tick", "do o0 clone,o2,0,1", "do o0 q,o0", "tick"])
        mk("blueprint-clone-in-own-beat", ["do o0 shb,o0,1", "do o0 clone,o2,0,1", "do o0 shb,o0,1",
                                          "script o0 hb:0 clone,o3,0,1;hbs", "tick", "tick"])
        mk("no-heart_beat-function", ["do o0 clone,o2,1,1", "do o0 clone,o3,0,2", "do o0 hbs", "tick", "tick", "do o0 q,o2",
                                     "do o0 shb,o2,0", "tick"])
        mk("retune-before-turn", pop3 + ["script o2 hb:0 shb,o4,3;shb,o2,2", "tick", "tick", "tick", "tick", "tick"])
        mk("retune-after-turn", pop3 + ["script o4 hb:0 shb,o2,3", "tick", "tick", "tick", "tick", "tick"])
        mk("negative-interval", ["do o0 clone,o2,0,-1", "do o0 q,o2", "do o0 shb,o2,5", "do o0 shb,o2,-3", "do o0 q,o2",
                                 "tick"])
        mk("interval-short-boundary", ["do o0 clone,o2,0,32767", "do o0 clone,o3,0,32768", "do o0 clone,o4,0,40000",
                                      "do o0 clone,o5,0,65536", "do o0 clone,o6,0,65537", "do o0 hbs", "tick", "tick",
                                      "do o0 shb,o2,1", "do o0 shb,o2,65536", "do o0 q,o2", "tick", "tick"])
        mk("interval-int-boundary", ["do o0 clone,o2,0,1", "do o0 shb,o2,4294967296", "do o0 q,o2", "tick",
                                    "do o0 shb,o2,4294967297", "do o0 shb,o2,-4294967296", "do o0 q,o2", "tick", "tick"])
        mk("timer-fires-mid-round", pop3 + ["script o2 hb:1 flag", "script o4 hb:* q,o4", "tick", "tick", "tick"])
        mk("timer-fires-last", pop3 + ["script o4 hb:1 flag", "tick", "tick", "tick"])
        mk("timer-fires-between", pop3 + ["do o2 flag", "tick", "tick"])
        chunk = self.heart_beat_chunk()
        mk("grow-array", ["do o0 clone,o%d,0,1" % i for i in range(2, 2 * chunk + 6)] + ["script o5 hb:0 clone,o%d,0,1" % (2 * chunk + 20),
                          "tick", "do o0 hbs", "tick"])
        # --- many entries (index types wider than a char): removals / retunes at the far end of a long list, in a round
        big = 4 * chunk + 7
        mk("many-objects", ["do o0 clone,o%d,0,1" % i for i in range(2, big)] +
           ["script o3 hb:0 shb,o%d,0;shb,o%d,3;dest,o%d;hbs" % (big - 1, big - 2, big - 3),
            "script o%d hb:0 shb,o2,0;shb,o%d,0;hbs" % (big - 5, big - 4), "tick", "tick", "do o0 shb,o%d,0" % (big - 6),
            "do o0 q,o%d" % (big - 2), "do o0 hbs", "tick"])
        # --- retune of ANOTHER, already enabled object from inside a round (C11-5 lived here): every (from, to) pair of a
        #     list of 4, same and different interval; the object must keep its place: visited in this round iff not yet served
        for frm in range(4):
            for to in range(4):
                for iv in (1, 2):
                    mk("retune-from%d-to%d-iv%d" % (frm, to, iv),
                       ["do o0 clone,o%d,0,1" % (i + 2) for i in range(4)] +
                       ["script o%d hb:1 shb,o%d,%d;hbs" % (frm + 2, to + 2, iv), "tick", "tick", "do o0 hbs", "tick", "tick"])
        # --- destruct_object is a SEQUENCE: inventory hooks run before the heart-beat removal and the O_DESTRUCTED store
        carrier = ["do o0 clone,o2,0,1", "do o0 clone,o3,0,0", "do o0 clone,o4,0,1", "do o2 take,o3", "do o0 clone,o5,0,1"]
        mk("hook-wakes-dying-carrier", carrier + ["script o3 md shb,o2,1;q,o2;hbs", "tick", "do o0 dest,o2", "do o0 hbs",
                                                   "tick", "tick"])
        mk("hook-wakes-sleeping-dying-carrier", carrier + ["script o3 md shb,o2,1;hbs", "do o2 shb,o2,0", "do o0 dest,o2",
                                                            "do o0 hbs", "tick", "tick"])
        mk("hook-wakes-carrier-self-destruct-in-beat", carrier + ["script o3 md shb,o2,3;shb,o2,1", "script o2 hb:1 dest,o2",
                                                                   "tick", "tick", "do o0 hbs", "tick", "tick"])
        mk("hook-wakes-carrier-destructed-by-earlier-beat", carrier + ["script o3 md shb,o2,0;shb,o2,1", "do o0 shb,o2,0",
                                                                        "do o0 shb,o2,1", "script o4 hb:1 dest,o2;hbs",
                                                                        "tick", "tick", "tick", "tick"])
        mk("hook-touches-others", carrier + ["do o2 take,o4", "script o3 md shb,o5,0;clone,o6,0,1", "script o4 md shb,o5,2;flag",
                                              "tick", "do o0 dest,o2", "do o0 hbs", "tick", "tick"])
        mk("item-with-heart-beat-destructed-by-driver", ["do o0 clone,o2,0,2", "do o0 clone,o3,0,1", "do o2 take,o3",
                                                          "script o3 md hbs", "tick", "do o0 dest,o2", "do o0 hbs", "tick"])
        mk("item-destructs-its-carrier-in-own-beat", carrier + ["do o0 shb,o3,1", "script o3 md shb,o2,1;hbs",
                                                                 "script o3 hb:0 dest,o2;hbs;q,o3", "tick", "do o0 hbs", "tick"])
        # --- an error raised inside move_or_destruct() leaves destruct_object: the carrier survives, the caller's
        #     heart beat (and only that) is switched off when the destruct was issued from a heart_beat
        mk("hook-error-at-top-level", carrier + ["script o3 md shb,o5,0;err;shb,o5,1", "tick", "do o0 dest,o2", "do o0 hbs",
                                                  "do o0 q,o2", "tick", "do o0 dest,o2", "tick"])
        mk("hook-error-inside-heart-beat", carrier + ["script o3 md shb,o2,2;err", "script o4 hb:1 dest,o2;hbs", "tick", "tick",
                                                       "do o0 hbs", "tick", "tick"])
        mk("hook-error-second-item", carrier + ["do o2 take,o4", "script o3 md err", "script o4 md hbs;cerr", "tick",
                                                 "do o5 dest,o2", "do o0 hbs", "do o0 dest,o3", "do o5 dest,o2", "do o0 hbs", "tick"])
        mk("hook-error-carrier-destructs-itself-in-beat", carrier + ["script o3 md err", "script o2 hb:0 dest,o2;hbs", "tick",
                                                                      "do o0 hbs", "tick"])
        # --- move_or_destruct(): the item destructs ITSELF (allowed), tries to destruct somebody else (restrict_destruct:
        #     error, the carrier survives), or moves away (it survives, keeps its heart beat, the carrier dies)
        carrier3 = ["do o0 clone,o2,0,1", "do o0 clone,o3,0,1", "do o0 clone,o4,0,1", "do o0 clone,o5,0,2", "do o0 clone,o6,0,1",
                    "do o2 take,o3", "do o2 take,o4"]
        mk("hook-item-destructs-itself", carrier3 + ["script o4 md hbs;dest,o4;hbs", "script o3 md shb,o3,3", "tick", "do o0 dest,o2",
                                                     "do o0 hbs", "tick"])
        mk("hook-item-moves-away", carrier3 + ["script o4 md mv,o5;hbs", "script o3 md mv,o2;mv,o9;hbs", "tick", "do o0 dest,o2",
                                               "do o0 hbs", "tick", "do o0 dest,o5", "do o0 hbs", "tick"])
        mk("hook-item-moves-away-inside-heart-beat", carrier3 + ["script o4 md mv,o6", "script o6 hb:1 dest,o2;hbs", "tick", "tick",
                                                                 "do o0 hbs", "tick"])
        mk("hook-restricted-destruct", carrier3 + ["script o4 md dest,o5;hbs", "script o5 hb:1 dest,o2;hbs", "tick", "tick",
                                                   "do o0 hbs", "do o0 dest,o2", "do o0 hbs", "do o0 dest,o5", "tick"])
        mk("move-between-carriers", carrier3 + ["do o3 mv,o5", "do o3 mv,o3", "do o5 mv,o6", "do o2 mv,o6", "do o4 mv,o0", "tick",
                                                "do o0 dest,o5", "do o0 hbs", "do o0 dest,o2", "do o0 hbs", "tick"])
        mk("take-refusals", ["do o0 clone,o2,0,1", "do o0 clone,o3,0,1", "do o0 clone,o4,0,1", "do o2 take,o3", "do o3 take,o4",
                             "do o4 take,o2", "do o2 take,o2", "do o2 take,o0", "do o2 take,o9", "do o4 take,o3",
                             "do o0 dest,o2", "do o4 take,o3", "tick"])
        # --- the LAST entry of the list is removed during a round, from every position, by itself or by an earlier /
        #     later object, by set_heart_beat(0) and by destruct, list lengths 1..4 (interval 1: a stale slot would beat)
        for n in range(1, 5):
            pop = ["do o0 clone,o%d,0,1" % (i + 2) for i in range(n)]
            last = n + 1
            for actor in range(n):
                for how in ("shb,o%d,0" % last, "dest,o%d" % last):
                    mk("last-entry-removed-n%d-by%d-%s" % (n, actor, how.split(",")[0]),
                       pop + ["script o%d hb:1 %s;hbs" % (actor + 2, how), "tick", "tick", "do o0 hbs", "tick"])
            # ... and the last entry removed together with an earlier one / re-enabled in the same beat
            if n >= 2:
                mk("last-and-first-removed-n%d" % n, pop + ["script o%d hb:1 shb,o2,0;shb,o%d,0;hbs" % (last, last), "tick",
                                                            "tick", "tick"])
                mk("last-removed-and-reenabled-n%d" % n, pop + ["script o2 hb:1 shb,o%d,0;shb,o%d,1;hbs" % (last, last),
                                                                "tick", "tick", "tick"])
        # --- errors caught inside a heart_beat never reach the switch-off
        mk("catch-in-beat", pop3 + ["script o3 hb:* cerr;hbs", "tick", "tick", "do o0 hbs", "do o0 q,o3"])
        mk("catch-then-uncaught", pop3 + ["script o3 hb:0 cerr;cerr;err", "script o2 hb:1 cerr", "tick", "do o0 hbs", "tick", "tick"])
        mk("catch-at-top-level-after-aborted-round", pop3 + ["script o2 hb:0 err", "tick", "do o0 shb,o2,1", "do o3 cerr",
                                                             "do o0 hbs", "tick"])
        # --- reload_object: set_heart_beat (ob, 0), variables cleared (the script counter restarts), create() again
        for pos in (2, 3, 4):
            mk("reload-self-in-beat-o%d" % pos, pop3 + ["script o%d hb:0 reload,o%d,1;hbs" % (pos, pos), "tick", "tick",
                                                         "do o0 hbs", "tick"])
            mk("reload-o%d-by-o3" % pos, pop3 + ["script o3 hb:1 reload,o%d,2;hbs;q,o%d" % (pos, pos), "tick", "tick", "tick",
                                                  "tick"])
        mk("reload-to-zero-and-back", pop3 + ["script o2 hb:0 reload,o4,0;q,o4", "tick", "do o0 hbs", "do o3 reload,o4,3",
                                              "do o0 reload,o0,1", "do o0 reload,o9,1", "tick", "tick", "tick", "tick"])
        mk("reload-nohb-and-dead", ["do o0 clone,o2,1,1", "do o0 clone,o3,0,1", "do o0 reload,o2,1", "do o0 dest,o3",
                                    "do o0 reload,o3,1", "do o0 hbs", "tick", "tick"])
        mk("reload-clamps", ["do o0 clone,o2,0,1", "do o0 reload,o2,40000", "do o0 reload,o2,-3", "do o0 q,o2",
                             "do o0 reload,o2,4294967297", "do o0 q,o2", "tick"])
        # --- an error raised by an object that destructed itself in its own heart_beat: error_handler calls
        #     set_heart_beat (current_heart_beat, 0) on a destructed object (the O_DESTRUCTED return)
        mk("error-after-self-destruct", pop3 + ["script o3 hb:0 dest,o3;err;hbs", "tick", "do o0 hbs", "tick", "do o0 q,o3"])
        mk("error-after-self-destruct-first-and-last", pop3 + ["script o2 hb:0 dest,o2;err", "script o4 hb:1 shb,o4,0;dest,o4;err",
                                                               "tick", "tick", "tick", "do o0 hbs"])
        mk("error-after-self-destruct-with-inventory", pop3 + ["do o3 take,o4", "script o4 md shb,o3,1;hbs",
                                                               "script o3 hb:0 dest,o3;err", "tick", "do o0 hbs", "tick"])
        # --- replace_program: the program is swapped at the top of the backend loop; call_heart_beat re-reads
        #     ob->prog->heart_beat on every visit, the entry stays on the list and is counted down but never called
        mk("replace-program-in-own-beat", pop3 + ["script o3 hb:0 rp;hbs", "tick", "tick", "do o0 hbs", "do o0 q,o3", "tick"])
        mk("replace-program-between-ticks", pop3 + ["tick", "do o2 rp", "do o4 rp", "do o2 rp", "tick", "tick", "do o2 rp",
                                                    "do o0 rp", "do o0 hbs"])
        mk("replace-program-then-reenable-and-reload", pop3 + ["do o3 rp", "tick", "do o3 shb,o3,0", "do o3 shb,o3,1",
                                                               "do o0 reload,o3,1", "tick", "do o0 hbs", "tick"])
        mk("replace-program-pending-object-destructed", pop3 + ["script o2 hb:0 rp;dest,o2", "script o3 hb:0 rp",
                                                                "tick", "tick", "do o0 hbs"])
        mk("replace-program-nohb-kind-and-living", ["do o0 clone,o2,1,1", "do o0 clone,o3,0,1", "do o3 living", "do o2 rp",
                                                    "do o3 rp", "tick", "do o0 clone,o4,0,1", "tick", "tick"])
        mk("replace-program-while-timer-flags-off", pop3 + ["tflags 0", "do o2 rp", "tick", "tflags 2", "tick", "tick"])
        # --- every heart_beat starts from a clean context: command_giver only for living objects, fresh eval cost
        mk("context-living-and-not", pop3 + ["do o3 living", "script o2 hb:* burn", "script o3 hb:* burn;living", "tick", "tick"])
        mk("context-after-error-of-living-object", pop3 + ["do o2 living", "script o2 hb:0 burn;err", "tick", "tick",
                                                           "do o0 shb,o2,1", "tick"])
        mk("context-living-becomes-living-in-beat", pop3 + ["script o2 hb:0 living", "script o3 hb:0 burn;burn", "tick", "tick"])
        mk("context-reload-clears-living", pop3 + ["do o3 living", "tick", "do o0 reload,o3,1", "tick", "do o3 living", "tick"])
        mk("context-living-item-and-carrier", pop3 + ["do o2 living", "do o3 living", "do o2 take,o3", "tick", "do o4 take,o2",
                                                      "tick", "do o0 dest,o4", "tick"])
        # --- timer_flags without TIMER_FLAG_HEARTBEAT: no round; the cursor variables keep stale values
        mk("timer-flags-off", pop3 + ["tick", "tflags 0", "tick", "tick", "do o0 hbs", "tflags 2", "tick"])
        mk("timer-flags-off-removals-on-stale-cursor", pop3 + ["script o3 hb:0 err", "tick", "tflags 0", "tick",
                                                                "do o0 shb,o2,0", "do o0 shb,o4,0", "do o0 clone,o5,0,1",
                                                                "do o0 shb,o5,0", "do o0 clone,o6,0,2", "do o0 hbs", "tick",
                                                                "tflags 2", "tick", "tick", "do o0 hbs"])
        mk("timer-flags-other-bits", pop3 + ["tflags 4", "tick", "tflags 6", "tick", "tflags 0", "tick", "tflags 2", "tick"])
        mk("timer-flags-off-empty-list", ["tflags 0", "tick", "do o0 clone,o2,0,1", "tick", "tflags 2", "tick"])
        mk("timer-fired-then-flags-off", pop3 + ["do o2 flag", "tflags 0", "tick", "tflags 2", "tick"])
        # --- the real backend() loop: the (emulated) timer fires during a round that is then abandoned by an error - the loop
        #     goes round again and serves the next tick right away; the harness stops delivering ticks after maxPass rounds
        mk("timer-fired-in-abandoned-round", pop3 + ["script o3 hb:0 flag;err", "tick", "do o0 hbs", "tick"])
        mk("timer-fired-in-abandoned-round-flags-off", pop3 + ["script o2 hb:0 flag;err;hbs", "script o3 hb:0 rp", "tick", "tflags 0",
                                                              "do o3 flag", "tick", "tflags 2", "tick"])
        chain = ["do o0 clone,o%d,0,1" % i for i in range(2, 12)]
        mk("pass-limit", chain + ["script o%d hb:0 flag;err" % i for i in range(2, 12)] + ["tick", "do o0 hbs", "tick", "do o0 hbs"])
        mk("pass-limit-not-reached", chain + ["script o%d hb:0 flag;err" % i for i in range(2, 7)] + ["tick", "do o0 hbs", "tick"])
        mk("command-giver-after-rounds", pop3 + ["do o4 living", "tick", "script o4 hb:1 err", "tick", "do o2 living", "do o0 shb,o4,1",
                                                "script o4 hb:2 flag", "tick", "tick"])
        # --- call_out callbacks dispatched by call_heart_beat AFTER the round (current_heart_beat is 0 by then): an uncaught
        #     error in a callback switches off nobody - also when heart beats ran in the same tick (seeded change C11-6)
        mk("callout-error-after-round-with-beats", pop3 + ["do o0 clone,o5,0,0", "cotick o5:err", "do o0 hbs", "cotick o5:err",
                                                            "do o0 hbs", "tick", "do o0 hbs"])
        mk("callout-error-in-beating-object", pop3 + ["cotick o3:err", "do o0 hbs", "cotick o2:hbs;err o4:err", "do o0 hbs", "tick"])
        mk("callout-error-after-round-without-beats", ["do o0 clone,o2,0,3", "do o0 clone,o5,0,0", "cotick o5:err", "do o0 hbs",
                                                       "cotick o5:err", "cotick o5:err", "do o0 hbs", "tick"])
        mk("callout-touches-heart-beats", pop3 + ["cotick o2:shb,o3,0;shb,o4,2;hbs o3:dest,o3;err", "do o0 hbs", "tick", "tick"])
        mk("callout-pending-after-abandoned-round", pop3 + ["script o3 hb:0 err", "cotick o2:hbs;err", "do o0 hbs", "tick", "do o0 hbs",
                                                            "tflags 6", "tick", "do o0 hbs"])
        mk("callout-served-in-second-pass", pop3 + ["script o3 hb:0 flag;err", "cotick o4:err;hbs o2:hbs", "do o0 hbs", "tick"])
        mk("callout-with-flags-off-and-dead-object", pop3 + ["tflags 0", "cotick o2:hbs;err o9:hbs", "do o0 dest,o3", "cotick o3:hbs",
                                                             "tflags 2", "cotick o4:dest,o4;err", "do o0 hbs", "tick"])
        # --- set_heart_beat by an object that has just destructed itself (seeded change C11-7): refused, the object is never
        #     on the list again - from its heart_beat (first / middle / last entry), from a call_out callback, with an
        #     error afterwards, with several calls
        for pos in (2, 3, 4):
            mk("enable-after-self-destruct-in-beat-o%d" % pos, pop3 + ["script o%d hb:1 dest,o%d;zshb,1;hbs" % (pos, pos), "tick", "tick",
                                                                       "do o0 hbs", "tick", "tick", "do o0 hbs"])
        mk("enable-after-self-destruct-several-calls", pop3 + ["script o3 hb:0 shb,o3,0;dest,o3;zshb,2;zshb,0;zshb,40000;zshb,-1;err", "tick",
                                                               "do o0 hbs", "tick", "do o0 hbs"])
        mk("enable-after-self-destruct-in-callout", pop3 + ["do o0 clone,o5,0,0", "cotick o5:dest,o5;zshb,1 o3:dest,o3;zshb,3;err", "do o0 hbs",
                                                            "tick", "do o0 hbs", "tick"])
        mk("enable-after-carrier-destructed-us", carrier + ["script o3 hb:0 dest,o2;zshb,1", "do o0 shb,o3,1", "tick", "do o0 hbs", "tick"])
        mk("own-set_heart_beat-alive", pop3 + ["script o3 hb:0 zshb,0;zshb,2;hbs", "do o2 zshb,3", "do o0 hbs", "tick", "tick", "tick"])
        mk("empty", ["tick", "do o0 hbs", "tick"])
        mk("dead-and-unknown", ["do o0 clone,o2,0,1", "do o0 dest,o2", "do o0 dest,o2", "do o0 shb,o2,1", "do o0 q,o9",
                                "do o2 hbs", "do o9 hbs", "do o0 dest,o0", "do o0 dest,o1", "do o0 clone,o2,0,1", "tick"])
        return B

    def heart_beat_chunk(self):
        """HEART_BEAT_CHUNK of the tree under test (sizes of the boundary populations are stated relative to it)"""
        import re
        try:
            m = re.search(r"#define\s+HEART_BEAT_CHUNK\s+(\d+)", open(os.path.join(E.REPO, "lib/efuns/options.h")).read())
            return min(int(m.group(1)), 256) if m else 32
        except OSError:
            return 32

    def gen_ops(self, rng, ids, allow_err=True, n=None):
        ops = []
        for _ in range(n if n is not None else rng.weighted([(1, 6), (2, 4), (3, 2), (5, 1)])):
            k = rng.weighted([("shb", 12), ("q", 2), ("dest", 4), ("clone", 2), ("err", 2 if allow_err else 0),
                              ("flag", 1), ("hbs", 2), ("take", 1), ("cerr", 2), ("reload", 3), ("living", 1), ("burn", 1), ("rp", 1), ("mv", 1), ("zshb", 2)])
            t = rng.choice(ids["all"])
            if k == "shb":
                ops.append("shb,o%d,%d" % (t, rng.weighted(INTERVALS)))
            elif k == "q":
                ops.append("q,o%d" % t)
            elif k == "dest":
                ops.append("dest,o%d" % t)
                if rng.chance(1, 3):
                    # the function runs on after destruct(this_object()): its own set_heart_beat must be refused
                    for _ in range(rng.range(1, 2)):
                        ops.append("zshb,%d" % rng.weighted([(1, 6), (2, 2), (0, 1), (-1, 1), (40000, 1)]))
                if allow_err and rng.chance(1, 4):
                    ops.append("err")      # reaches error_handler even when the object has just destructed itself
            elif k == "take":
                ops.append("take,o%d" % t)
            elif k == "mv":
                ops.append("mv,o%d" % t)
            elif k == "zshb":
                ops.append("zshb,%d" % rng.weighted(INTERVALS))
            elif k == "reload":
                ops.append("reload,o%d,%d" % (t, rng.weighted([(1, 6), (2, 3), (0, 2), (3, 1), (-1, 1), (40000, 1)])))
            elif k == "clone":
                ids["next"] += 1
                new = ids["next"] if rng.chance(14, 15) else rng.choice(ids["all"])
                if new not in ids["all"]:
                    ids["all"].append(new)
                ops.append("clone,o%d,%d,%d" % (new, rng.weighted([(0, 5), (1, 1)]), rng.weighted(INTERVALS)))
            else:
                ops.append(k)
        return ops

    def gen_case(self, rng, cid):
        # now and then a population that crosses the HEART_BEAT_CHUNK boundary (second allocation) inside a random history
        npop = rng.range(1, 6) if not rng.chance(1, 25) else rng.range(35, 42)
        ids = {"all": [0, 1], "next": 1}
        body = []
        if rng.chance(1, 5):
            body.append("do o0 shb,o0,%d" % rng.weighted([(1, 3), (2, 1)]))
        if rng.chance(1, 10):
            body.append("do o1 shb,o1,1")
        for _ in range(npop):
            ids["next"] += 1
            new = ids["next"]
            ids["all"].append(new)
            body.append("do o0 clone,o%d,%d,%d" % (new, rng.weighted([(0, 8), (1, 1)]),
                                                    rng.weighted([(1, 10), (2, 5), (3, 3), (0, 2), (4, 1)])))
        # inventories: some objects carry others; the items' move_or_destruct() hooks touch heart beats
        pop0 = [x for x in ids["all"] if x >= 2]
        if len(pop0) >= 2 and rng.chance(1, 2):
            for _ in range(rng.range(1, 2)):
                c, i = rng.choice(pop0), rng.choice(pop0)
                body.append("do o%d take,o%d" % (c, i))
                hops = []
                for _ in range(rng.range(1, 3)):
                    k = rng.weighted([("wake", 5), ("shb", 3), ("hbs", 1), ("q", 1), ("flag", 1), ("clone", 1), ("err", 1),
                                      ("cerr", 1), ("selfdest", 1), ("otherdest", 1), ("mv", 2)])
                    if k == "wake":
                        hops.append("shb,o%d,%d" % (c, rng.weighted([(1, 5), (2, 2), (0, 1)])))
                    elif k == "shb":
                        hops.append("shb,o%d,%d" % (rng.choice(ids["all"]), rng.weighted(INTERVALS)))
                    elif k == "selfdest":
                        hops.append("dest,o%d" % i)
                    elif k == "otherdest":
                        hops.append("dest,o%d" % rng.choice(ids["all"]))
                    elif k == "mv":
                        hops.append("mv,o%d" % rng.choice(ids["all"]))
                    elif k == "q":
                        hops.append("q,o%d" % c)
                    elif k == "clone":
                        ids["next"] += 1
                        ids["all"].append(ids["next"])
                        hops.append("clone,o%d,0,1" % ids["next"])
                    else:
                        hops.append(k)
                body.append("script o%d md %s" % (i, ";".join(hops)))
        # heart_beat scripts (self is much more likely than a stranger)
        pop = list(ids["all"])
        for _ in range(rng.range(0, 2 * min(npop, 8))):
            o = rng.choice(pop)
            key = "hb:*" if rng.chance(1, 5) else "hb:%d" % rng.weighted([(0, 6), (1, 4), (2, 2), (3, 1)])
            sub = {"all": ids["all"], "next": ids["next"]}
            if rng.chance(1, 2):
                sub["all"] = [o] * 3 + ids["all"]
            ops = self.gen_ops(rng, sub, allow_err=(key != "hb:*" or rng.chance(1, 4)))
            ids["next"] = sub["next"]
            for x in sub["all"]:
                if x not in ids["all"]:
                    ids["all"].append(x)
            body.append("script o%d %s %s" % (o, key, ";".join(ops)))
        for o in pop0:
            if rng.chance(1, 4):
                body.append("do o%d living" % o)
        for _ in range(rng.range(3, 25)):
            if rng.chance(1, 25):
                # timer_flags: heart beats switched off / on again globally (bit TIMER_FLAG_HEARTBEAT = 2), with and
                # without the call_out bit
                body.append("tflags %d" % rng.weighted([(0, 4), (2, 4), (4, 2), (6, 2)]))
            if rng.chance(1, 6):
                # call_out callbacks dispatched after the round of this tick; errors in them are nobody's heart-beat fault
                cbs = []
                for _ in range(rng.range(1, 3)):
                    sub = {"all": ids["all"], "next": ids["next"]}
                    ops = [o_ for o_ in self.gen_ops(rng, sub, n=rng.range(0, 2)) if not o_.startswith("take")]
                    ids["next"] = sub["next"]
                    if rng.chance(1, 2):
                        ops.append("err")
                    cbs.append("o%d:%s" % (rng.choice(ids["all"]), ";".join(ops) if ops else "hbs"))
                body.append("cotick " + " ".join(cbs))
                body.append("do o0 hbs")
            elif rng.chance(3, 5):
                body.append("tick")
                if rng.chance(1, 8):
                    # after a (possibly aborted) round: re-enable somebody and raise an unrelated top-level error
                    body.append("do o0 shb,o%d,1" % rng.choice(ids["all"]))
                    body.append("do o%d err" % rng.choice(ids["all"]))
                    body.append("do o0 hbs")
            else:
                o = rng.choice(ids["all"])
                for op in self.gen_ops(rng, ids, n=1):
                    body.append("do o%d %s" % (o, op))
        body += ["tick", "do o0 hbs", "tflags 2", "tick", "do o0 hbs", "tick"]
        return E.Case(cid, body, {"origin": "generated"})

    def generate(self, rng, n, tier):
        return [self.gen_case(rng, "g%d" % i) for i in range(n)]

    def branch_histogram(self, cases):
        """which branches of the modelled C functions the cases take (model-side instrumentation; the traces of the
        same cases agree with the implementation, see correspondence_differences)"""
        out = E.nvdrive(self.id, "branches", E.cases_text(cases))
        cnt = {b: 0 for b in BRANCHES}
        ctx = {}
        for tags in out.values():
            for t in tags:
                base = t.split(":", 1)[1] if t.split(":", 1)[0] in ("create", "destruct", "error", "reload") else t
                cnt[base] = cnt.get(base, 0) + 1
                if base != t:
                    k = t.split(":", 1)[0]
                    ctx[k] = ctx.get(k, 0) + 1
        return {"counts": cnt, "never_hit": sorted(b for b in BRANCHES if cnt.get(b, 0) == 0),
                "set_heart_beat_called_from": ctx,
                "extracted_forms": getattr(self, "extracted", None)}

    def histogram(self, cases, impl):
        h = {"branches": self.branch_histogram(cases),"ticks": 0, "aborted_rounds": 0, "beats": 0, "removals_in_round": 0, "appends_in_round": 0,
             "destructs": 0, "clones": 0, "errors": 0, "timer_fired": 0, "clamped_intervals": 0,
             "self_removals_in_round": 0}
        for c in cases:
            inround = False
            for l in impl.get(c.id, []):
                t = l.split()
                if not t:
                    continue
                if t[0] == "tickbegin":
                    inround = True
                    h["ticks"] += 1
                elif t[0] == "tickend":
                    inround = False
                elif t[0] == "tickabort":
                    inround = False
                    h["aborted_rounds"] += 1
                elif t[0] == "beat":
                    h["beats"] += 1
                elif t[0] == "err":
                    h["errors"] += 1
                elif t[0] == "r" and len(t) > 5 and t[1] == "shb" and t[5] != "!dead":
                    if inround and t[4] == "0":
                        h["removals_in_round"] += 1
                        if t[2] == t[3]:
                            h["self_removals_in_round"] += 1
                    elif inround:
                        h["appends_in_round"] += 1
                    if t[5] == "32767" and t[4] != "32767":
                        h["clamped_intervals"] += 1
                elif t[0] == "r" and t[1] == "dest" and len(t) == 4:
                    h["destructs"] += 1
                elif t[0] == "r" and t[1] == "clone" and len(t) == 7:
                    h["clones"] += 1
                elif t[0] == "r" and t[1] == "flag":
                    h["timer_fired"] += 1
        return h


PROP = C11()
