"""C02 - compiling any source text is safe and leaves the compiler reusable  (PARTIAL)."""
import glob
import os
import re

from nvlib import engine as E
from nvlib import extract as X
from nvlib.check import Prop

N = 25                      # default MaxLocalVariables (the harness prints the value really used: `cfg maxlocals`)
EFUN_NAMES = ["time", "sizeof", "write", "users", "this_object", "random", "strlen", "file_name", "keys",
              "member_array", "implode", "lower_case", "typeof", "to_int", "call_out", "vsimul_marker", "sprintf"]
KEYWORDS = ["int", "string", "object", "mixed", "mapping", "function", "void", "float", "class", "if", "else", "while",
            "for", "foreach", "in", "switch", "case", "default", "break", "continue", "return", "do", "inherit",
            "private", "static", "varargs", "nomask", "public", "catch", "new", "sscanf", "parse_command", "efun",
            "time_expression", "ref", "buffer"]
PUNCT = ["(", ")", "{", "}", "[", "]", ";", ",", ":", "::", "(:", ":)", "({", "})", "([", "])", "->", "..", "...",
         "+", "-", "*", "/", "%", "=", "==", "!=", "<", ">", "<=", ">=", "&&", "||", "!", "~", "&", "|", "^", "<<",
         ">>", "+=", "-=", "++", "--", "?", "$1", "$2", "$(", "$", "#", "##", "@", "@@", "'", "\"", "\\", "\n", "/*",
         "*/", "//", "0x", "1e", "1.5", "0", "1", "255", "99999999999999999999", "'a'", "'\\n'", "\"str\"",
         "@TXT\nabc\nTXT\n", "@@ARR\nabc\nARR\n", "#include \"inc0.h\"\n", "#define M(x) x+x\n", "M(1)", "#if 1\n",
         "#else\n", "#endif\n", "#ifdef M\n", "#undef M\n", "#pragma strict_types\n", "#elif 0\n", "#if (\n",
         "function(int a) {", "return", "L\"w\"", "(: nosuch", "(: later :)", "(: nosuch,", "(:nosuch##x"]


def hx(b):
    if isinstance(b, str):
        b = b.encode("latin-1", "replace")
    return b.hex()


def src_lines(text):
    """one `src` line per source line (so that shrinking removes source lines)"""
    if isinstance(text, str):
        text = text.encode("latin-1", "replace")
    out = []
    if text.count(b"\n") > 150:
        # big inputs: fixed-size pieces, so that the engine's line-removal shrinker stays cheap
        return ["src " + text[j:j + 4000].hex() for j in range(0, len(text), 4000)]
    parts = text.split(b"\n")
    for i, p in enumerate(parts):
        chunk = p + (b"\n" if i < len(parts) - 1 else b"")
        if chunk:
            # very long lines are split in pieces of 2000 bytes (the harness concatenates)
            for j in range(0, len(chunk), 2000):
                out.append("src " + chunk[j:j + 2000].hex())
    return out


def mkcase(cid, text, files=(), origin="generated", second=None, kind="", pretext=False):
    if pretext:
        # the source is handed to the compiler as pre_text of a file that does not exist
        return E.Case(cid, ["aprobe-arm", "probe"] + src_lines(text) + ["pretext", "probe", "aprobe"], {"origin": origin, "kind": kind})
    lines = ["aprobe-arm", "probe"] + src_lines(text)
    for fn, t in files:
        t = t.encode("latin-1", "replace") if isinstance(t, str) else t
        for j in range(0, max(len(t), 1), 2000):
            lines.append("file %s %s" % (fn, t[j:j + 2000].hex()))
    lines.append("compile")
    if second is not None:
        lines += ["newsrc"] + src_lines(second) + ["compile"]
    lines += ["probe", "aprobe"]
    return E.Case(cid, lines, {"origin": origin, "kind": kind})


IDMAP = {"type_of_locals_ptr": "tOff", "locals_ptr": "lOff", "runtime_locals_ptr": "lOff",
         "max_num_locals": "max", "current_number_of_locals": "cur", "num_local_variables_allowed": "N",
         "type_of_locals": "0", "locals": "0", "runtime_locals": "0", "type_of_locals_size": "tsize", "locals_size": "lsize"}
OPMAP = {"+": "+", ">=": "≥", ">": ">", "<=": "≤", "<": "<", "==": "=", "(": "(", ")": ")"}


def c2lean(expr, site, idmap=IDMAP):
    """translate a C comparison over the locals-table cursors into a Lean Prop over offsets"""
    e = re.sub(r"/\*.*?\*/", " ", expr, flags=re.S)
    e = re.sub(r"\(\s*(?:size_t|int|long|ptrdiff_t|unsigned|unsigned\s+int)\s*\)", " ", e)      # casts
    e = re.sub(r"&\s*(\w+)\s*\[\s*(\w+)\s*\]", r"(\1 + \2)", e)                              # &a[n] = a + n
    toks = re.findall(r"[A-Za-z_]\w*|\d+|>=|<=|==|[-+<>()]|\S", e)
    out = []
    for t in toks:
        if t in idmap:
            out.append(idmap[t])
        elif t in OPMAP:
            out.append(OPMAP[t])
        elif t.isdigit():
            out.append(t)
        else:
            raise X.TieBroken(site, "cannot translate `%s` (token `%s`)" % (" ".join(expr.split()), t))
    return " ".join(out)



def gen_grammar(repo):
    fn_body = C02.fn_body
    gy = open(os.path.join(repo, "lib/lpc/grammar.y"), errors="replace").read()
    cc = open(os.path.join(repo, "lib/lpc/compiler.c"), errors="replace").read()
    out = []
    site = "grammar.y:function literal start action"
    m = re.search(r"\$<func_block>\$\.num_local\s*=.*?push_function_context\s*\(\s*\)\s*;", gy, re.S)
    if not m:
        raise X.TieBroken(site, "cannot locate the action")
    act = re.sub(r"#ifdef NEOLITH_VERIF.*?#endif", "", m.group(0), flags=re.S)
    t = re.search(r"if\s*\(((?:[^()]|\([^()]*\))*)\)\s*reallocate_locals\s*\(\s*\)\s*;", act, re.S)
    if not t:
        raise X.TieBroken(site + " realloc test", "`if (...) reallocate_locals ();` not found")
    out.append("/-- source: %s: `if (%s) reallocate_locals ()` -/\ndef reallocTest (tOff lOff cur max N tsize lsize : Nat) : Bool :=\n  decide (%s)"
               % (site, " ".join(t.group(1).split()), c2lean(t.group(1), site + " realloc test")))

    def adv(name, ptr):
        mm = re.search(r"\b%s\s*\+=\s*(\w+)\s*;" % ptr, act)
        if not mm or mm.group(1) not in ("current_number_of_locals", "max_num_locals"):
            raise X.TieBroken(site + " " + ptr, "`%s += <counter>;` not found" % ptr)
        out.append("/-- source: %s: `%s += %s` -/\ndef %s (cur max : Nat) : Nat := %s" % (site, ptr, mm.group(1), name, IDMAP[mm.group(1)]))
        return mm.start()
    a1 = adv("enterNameAdv", "locals_ptr")
    a2 = adv("enterTypeAdv", "type_of_locals_ptr")
    a3 = adv("enterRtAdv", "runtime_locals_ptr")
    pos = [t.start(), act.find(".locals_off"), act.find(".type_off"), act.find("deactivate_current_locals"), min(a1, a2, a3),
           re.search(r"max_num_locals\s*=\s*current_number_of_locals\s*=\s*0\s*;", act).start() if re.search(r"max_num_locals\s*=\s*current_number_of_locals\s*=\s*0\s*;", act) else -1]
    s1 = re.search(r"\.num_local\s*=\s*\((?:char|short|int)\)\s*current_number_of_locals\s*;", act)
    s2 = re.search(r"\.max_num_locals\s*=\s*\((?:char|short|int)\)\s*max_num_locals\s*;", act)
    s3 = re.search(r"\.locals_off\s*=\s*\(int\)\s*\(\s*locals_ptr\s*-\s*locals\s*\)\s*;", act)
    s4 = re.search(r"\.type_off\s*=\s*\(int\)\s*\(\s*type_of_locals_ptr\s*-\s*type_of_locals\s*\)\s*;", act)
    ok = all(p >= 0 for p in pos) and pos == sorted(pos) and all((s1, s2, s3, s4)) and max(s1.start(), s2.start()) < pos[0]
    out.append("/-- source: %s: saves (num_local, max_num_locals), realloc test, saves the offsets, deactivates, moves the three "
               "pointers, clears the counters - in this order -/\ndef enterOrderOk : Bool := %s" % (site, "true" if ok else "false"))
    # literal end action
    site2 = "grammar.y:function literal end action"
    m = re.search(r"free_all_local_names\s*\(\s*\)\s*;\s*(?:/\*.*?\*/\s*)?while\s*\(\s*locals_ptr\s*>.*?reactivate_current_locals\s*\(\s*\)\s*;", gy, re.S)
    if not m:
        raise X.TieBroken(site2, "cannot locate the action")
    act2 = re.sub(r"#ifdef NEOLITH_VERIF.*?#endif", "", m.group(0), flags=re.S)
    FB = r"\$<func_block>2\."
    fields = {"num_local": "c", "max_num_locals": "m", "locals_off": "lo", "type_off": "to"}

    def restore(name, rx, what):
        mm = re.search(rx, act2)
        if not mm or mm.group(1) not in fields:
            raise X.TieBroken(site2 + " " + what, "`%s` not found" % what)
        out.append("/-- source: %s: `%s` <- func_block.%s -/\ndef %s (c m lo to : Nat) : Nat := %s" % (site2, what, mm.group(1), name, fields[mm.group(1)]))
        return mm.start()
    r = [restore("leaveCur", r"\bcurrent_number_of_locals\s*=\s*" + FB + r"(\w+)\s*;", "current_number_of_locals"),
         restore("leaveMax", r"\bmax_num_locals\s*=\s*" + FB + r"(\w+)\s*;", "max_num_locals"),
         restore("leaveNameOff", r"\blocals_ptr\s*=\s*locals\s*\+\s*" + FB + r"(\w+)\s*;", "locals_ptr"),
         restore("leaveTypeOff", r"\btype_of_locals_ptr\s*=\s*type_of_locals\s*\+\s*" + FB + r"(\w+)\s*;", "type_of_locals_ptr"),
         restore("leaveRtOff", r"\bruntime_locals_ptr\s*=\s*runtime_locals\s*\+\s*" + FB + r"(\w+)\s*;", "runtime_locals_ptr")]
    w = re.search(r"while\s*\(\s*locals_ptr\s*>\s*locals\s*\+\s*" + FB + r"(\w+)\s*\+\s*" + FB + r"(\w+)\s*\)", act2)
    if not w or w.group(1) not in fields or w.group(2) not in fields:
        raise X.TieBroken(site2 + " release loop", "`while (locals_ptr > locals + off + count)` not found")
    out.append("/-- source: %s: release loop runs down to locals + func_block.%s + func_block.%s -/\ndef leaveReleaseTo (c m lo to : Nat) : Nat := %s + %s"
               % (site2, w.group(1), w.group(2), fields[w.group(1)], fields[w.group(2)]))
    re_ = act2.find("reactivate_current_locals")
    ok2 = w.start() < min(r) and max(r) < re_ and act2.find("free_all_local_names") < w.start()
    out.append("/-- source: %s: free_all_local_names, release loop, restores, reactivate - in this order -/\ndef leaveOrderOk : Bool := %s" % (site2, "true" if ok2 else "false"))
    # compiler.c
    site3 = "compiler.c:add_local_name"
    b = fn_body(cc, "add_local_name")
    if b is None:
        raise X.TieBroken(site3, "cannot locate add_local_name()")
    b = re.sub(r"#ifdef NEOLITH_VERIF.*?#endif", "", b, flags=re.S)
    t = re.search(r"if\s*\(((?:[^()]|\([^()]*\))*)\)\s*\{\s*yyerror\s*\(\s*\"Too many local variables\"", b, re.S)
    if not t:
        raise X.TieBroken(site3 + " limit test", "the test in front of \"Too many local variables\" was not found")
    out.append("/-- source: %s: `if (%s)` refuses the declaration -/\ndef localFullTest (cur max N : Nat) : Bool :=\n  decide (%s)"
               % (site3, " ".join(t.group(1).split()), c2lean(t.group(1), site3 + " limit test")))
    i1 = re.search(r"type_of_locals_ptr\s*\[\s*(max_num_locals|current_number_of_locals)\s*\]\s*=", b)
    i2 = re.search(r"locals_ptr\s*\[\s*(max_num_locals|current_number_of_locals)(\+\+)?\s*\]\s*=\s*ihe", b)
    if not i1 or not i2:
        raise X.TieBroken(site3 + " stores", "the two table stores were not found")
    out.append("/-- source: %s: index of the type store -/\ndef addTypeIdx (cur max : Nat) : Nat := %s" % (site3, IDMAP[i1.group(1)]))
    out.append("/-- source: %s: index of the name store -/\ndef addNameIdx (cur max : Nat) : Nat := %s" % (site3, IDMAP[i2.group(1)]))
    site4 = "compiler.c:reallocate_locals"
    b = fn_body(cc, "reallocate_locals")
    if b is None:
        raise X.TieBroken(site4, "cannot locate reallocate_locals()")
    g1 = re.search(r"\(\s*type_of_locals_size\s*\+=\s*(\w+)\s*\)", b)
    g2 = re.search(r"\(\s*locals_size\s*\+=\s*(\w+)\s*\)", b)
    g3 = re.search(r"runtime_locals\s*=\s*RESIZE\s*\(\s*runtime_locals\s*,\s*(\w+)\s*,", b)
    if not (g1 and g2 and g3):
        raise X.TieBroken(site4, "the three RESIZE calls were not found")
    for nm, g in (("reallocGrowType", g1), ("reallocGrowName", g2)):
        if g.group(1) != "num_local_variables_allowed":
            raise X.TieBroken(site4, "growth is no longer `+= num_local_variables_allowed`")
        out.append("/-- source: %s `+= %s` -/\ndef %s (N : Nat) : Nat := N" % (site4, g.group(1), nm))
    # runtime_locals must get the NEW locals_size: the RESIZE of runtime_locals stands behind the one of locals
    out.append("/-- source: %s: runtime_locals is resized to `%s` behind the update of locals_size -/\ndef rtFollowsNames : Bool := %s"
               % (site4, g3.group(1), "true" if (g3.group(1) == "locals_size" and g3.start() > g2.start()) else "false"))
    # widths of the counters the grammar keeps on bison's stack
    fb = re.search(r"struct\s*\{([^{}]*)\}\s*func_block\s*;", gy, re.S)
    if not fb:
        raise X.TieBroken("grammar.y:func_block", "cannot locate the func_block member of YYSTYPE")
    wmap = {"char": 127, "signed char": 127, "unsigned char": 255, "short": 32767, "unsigned short": 65535, "int": 2147483647}
    for field, lean in (("num_local", "fbNumLocalMax"), ("max_num_locals", "fbMaxNumLocalsMax")):
        mm = re.search(r"((?:unsigned\s+|signed\s+)?(?:char|short|int))\s+%s\s*;" % field, fb.group(1))
        if not mm or " ".join(mm.group(1).split()) not in wmap:
            raise X.TieBroken("grammar.y:func_block." + field, "cannot read the type of the field")
        out.append("/-- source: grammar.y func_block.%s is `%s`: largest value it holds -/\ndef %s : Nat := %d" % (field, mm.group(1), lean, wmap[" ".join(mm.group(1).split())]))
    rt = re.search(r"\n((?:unsigned\s+|signed\s+)?(?:char|short|int))\s*\*\s*runtime_locals\s*=", cc)
    if not rt:
        raise X.TieBroken("compiler.c:runtime_locals", "cannot read the element type of runtime_locals")
    out.append("/-- source: compiler.c runtime_locals[] elements are `%s`: largest local number they hold -/\ndef rtLocalNumMax : Nat := %d" % (rt.group(1), wmap[" ".join(rt.group(1).split())]))
    ch = open(os.path.join(repo, "lib/lpc/compiler.h"), errors="replace").read()
    ym = re.search(r"#define\s+YYMAXDEPTH\s+(\d+)", ch)
    if not ym:
        raise X.TieBroken("compiler.h:YYMAXDEPTH", "cannot locate YYMAXDEPTH")
    out.append("/-- source: compiler.h YYMAXDEPTH -/\ndef yyMaxDepth : Nat := %s" % ym.group(1))
    return out



class C02(Prop):
    id = "C02"
    title = "Compiling any source text is safe and leaves the compiler reusable"
    lean_modules = ["NV.C02.Props", "NV.C02.Witness", "NV.C02.LemmasBuf", "NV.C02.Emit", "NV.C02.PropsReset", "NV.C02.PropsTie", "NV.C02.PropsWidth"]
    theorems = ["NV.C02.table_writes_in_bounds", "NV.C02.table_cursors_in_allocation", "NV.C02.mem_block_fits",
                "NV.C02.include_depth_bounded", "NV.C02.include_stack_empty_after_end", "NV.C02.lexer_flag_clear_after_start", "NV.C02.yytext_in_bounds",
                "NV.C02.scratch_writes_in_bounds", "NV.C02.scratch_empty_after_destroy", "NV.C02.idents_restored", "NV.C02.locals_reset_after_cleanup",
                "NV.C02.add_input_writes_in_bounds", "NV.C02.add_input_never_nests", "NV.C02.macro_args_in_bounds",
                "NV.C02.macro_body_in_bounds", "NV.C02.define_text_in_bounds", "NV.C02.terminator_in_bounds",
                "NV.C02.include_macro_hops_bounded", "NV.C02.reserved_covers_written", "NV.C02.code_writes_in_block",
                "NV.C02.compiler_state_reset", "NV.C02.literal_enter_matches_source", "NV.C02.add_local_matches_source",
                "NV.C02.literal_leave_matches_source", "NV.C02.counters_fit_their_fields", "NV.C02.default_locals_fit",
                "NV.C02.sem_value_bounded_by_table", "NV.C02.table_size_bounded_by_nesting", "NV.C02.sem_value_fits_short"]
    witness_theorems = []
    # how far a STORE_* macro of lib/port/byte_code.h advances the code pointer = what ins_* writes (MEASURED by
    # running the macro in the probe, not copied)
    _adv = "({ char b_[64]; char *pc_ = b_; %s v_ = 0; %s (pc_, v_); (long) (pc_ - b_); })"
    consts = [("maxline", "MAXLINE"), ("defmax", "DEFMAX"), ("startBlockSize", "START_BLOCK_SIZE"),
              ("numAreas", "NUMAREAS"), ("scratchpadSize", "SCRATCHPAD_SIZE"), ("mlen", "MLEN"), ("nargs", "NARGS"),
              ("nsize", "NSIZE"),
              ("wrShort", _adv % ("short", "STORE_SHORT")), ("wrInt", _adv % ("int", "STORE_INT")),
              ("wrLong", _adv % ("int64_t", "STORE_LONG")), ("wrReal", _adv % ("double", "STORE_FLOAT")),
              ("wrPtr", "(sizeof (intptr_t) == 4) ? " + _adv % ("intptr_t", "STORE4") + " : " + _adv % ("intptr_t", "STORE8"))]
    const_headers = ["lib/lpc/lex.h", "lib/lpc/compiler.h", "lib/misc/scratchpad.h", "lib/port/byte_code.h"]
    quick_n = 750
    thorough_n = 4000
    search_n = 600
    design_ref = "5/C02"
    technique = ("Lean 4 proof (invariants over all event sequences of the compiler's bookkeeping machines) + "
                 "translator-generated constants, located guards and measured store widths + trace replay correspondence (hook H3) + sanitizer fuzzing incl. byte-by-byte boundary sweeps "
                 "with a before/after probe program")
    level_text = ("PARTIAL.  Lean 4 theorems about an executable model of the LPC compiler's bookkeeping: locals tables "
                  "(sizes, cursors, add_local_name / pop_n_locals / reallocate_locals / function-literal enter+leave with "
                  "error-abandoned literals), mem_block doubling, include counter and stack, function-context stack, the "
                  "SAVEC bound on yytext, identifier sem_value references and bindings in every name space (local / function / global / class) with the "
                  "dirty list of permanent identifiers; the lexer's text buffers (add_input in place / linked buffer, macro argument "
                  "collector, macro body expansion, #define text, text block terminator, #include MACRO hops) and the code "
                  "emitter's cursor (every ins_* width against the block end and the doubling); the widths of the counters the grammar keeps on bison's stack; "
                  "for ALL event sequences / character streams every table access "
                  "is inside its allocation and the end-of-compile sequence puts EVERY machine of the model back into its initial state (compiler_state_reset).  "
                  "The grammar's function-literal actions, add_local_name and reallocate_locals are translated from their source text on every run "
                  "(test expressions, operands, statement order, C types) and tied to the model steps by bridging theorems.  The model is "
                  "tied to the source by regenerated constants and by replaying the event stream emitted by the real "
                  "compiler (hook H3) through the model: every (cursor, size) pair must be reproduced, incl. every add_input call; "
                  "slack constants, guard presence and the reserved / written width of every ins_* are regenerated on every run.  The Lean oracle "
                  "judges every implementation trace; sources come from three fuzzers under ASan+UBSan with a per-case "
                  "timeout; a fixed probe program is compiled before and after each input and must dump identically, and an adaptive probe "
                  "(tiny programs mentioning every identifier the input declared, as rvalue / lvalue / functional / call / class "
                  "name) must have the same outcome as in a pristine sibling process that never saw the input.")
    level_note = ("partial: refill_buffer's shift / include paths and the popping of linked buffers, bison's stacks, the parse "
                  "trees, jump patching (upd_*) and switch tables of the code generator and termination are NOT modelled - "
                  "they are only observed under sanitizers and a timeout; the macro / #define / terminator cursors are "
                  "proved in the model and only their final values are observed on the real driver (no replay); the code "
                  "emitter has no trace point (model + obligation on regenerated widths + boundary sweep); the reusability "
                  "half (probe program identical before/after) is exploration, not proof; the SAVEC bound is tied by a "
                  "regenerated constant only; trusted: Lean kernel, extract.py + the regexes of props/c02.py:gen_extra "
                  "(a guard that is no longer located yields flag=false or a broken tie), the replay abstraction in "
                  "NV/C02/Drive.lean (trace line -> event), the harness")
    rule = ("cases = corpus + known-finding inputs + boundary list + seeded sources from three generators: random bytes "
            "(raw and LPC alphabet), token-level mutation of valid LPC (examples/m3_mudlib + harness mudlib), grammar-level "
            "generator (nested function literals beyond MAX_FUNCTION_DEPTH, locals/arguments beyond MaxLocalVariables, "
            "nested blocks, redeclarations, efun names as locals, errors injected into literal headers/bodies, include "
            "chains beyond MAX_INCLUDE_DEPTH incl. missing and self includes, #if nesting, huge literals, text blocks, "
            "identifiers/lines around MAXLINE, many functions/strings to grow mem blocks); each case = probe, compile "
            "(sometimes two sources), probe; non-trivial = the fuzzed compile emitted at least 4 bookkeeping events; "
            "distinct = distinct canonical implementation trace")
    not_covered = ["refill_buffer (head buffer shift, include resume, TERM_INCLUDE linked buffers) and the popping of linked buffers: sanitizer-observed only",
                   "macro argument / body / #define text / terminator cursors: proved in the model over regenerated guards, on the real driver only the final cursor is observed",
                   "bison parser stacks (YYMAXDEPTH), parse trees, upd_* jump patching and switch tables: sanitizer-observed only; the emitter's ins_* cursor is model + obligation + boundary sweep (no trace point)",
                   "termination of compilation: observed with a 20 s per-case timeout, not proved (only #include MACRO hops are proved bounded)",
                   "probe-program reusability check is exploration (one fixed probe + adaptive probe of at most 24 declared names); the model-level statement compiler_state_reset is proved, its tie to the driver is the trace replay",
                   "MaxLocalVariables above 255 (run-time function headers keep num_local in an unsigned char) is outside this check; 128..255 is explored with one configuration (200)",
                   "errors raised by LPC code called during compilation (master log_error etc.) leave compile_file()'s static guard set; not explored",
                   "16-bit sem_value: proved not to wrap in the model for the default MaxLocalVariables under the hypothesis that at most YYMAXDEPTH function literals are open (bison's stack limit itself is not modelled); for MaxLocalVariables >= 55 the bound no longer excludes a wrap"]

    # ---- generated Lean beyond plain constants --------------------------------
    def gen_extra(self, ctx, bdir):
        lex = open(os.path.join(E.REPO, "lib/lpc/lex.c"), errors="replace").read()
        rc = open(os.path.join(E.REPO, "lib/rc/rc.cpp"), errors="replace").read()
        out = []

        def need(name, m, site):
            if not m:
                raise X.TieBroken(site, "cannot locate %s in the source" % site)
            out.append("/-- source: %s -/\ndef %s : Nat := %d" % (site, name, int(m.group(1))))
        need("maxFunctionDepth", re.search(r"#define\s+MAX_FUNCTION_DEPTH\s+(\d+)", lex), "lex.c:MAX_FUNCTION_DEPTH")
        need("maxIncludeDepth", re.search(r"#define\s+MAX_INCLUDE_DEPTH\s+(\d+)", lex), "lex.c:MAX_INCLUDE_DEPTH")
        need("defaultMaxLocals", re.search(r'"MaxLocalVariables"\s*,\s*\d+\s*,\s*(\d+)\s*\)', rc), "rc.cpp:MaxLocalVariables default")
        # guards of the yytext writes: SAVEC and refill():   yyp < yytext+MAXLINE-5
        gs = re.findall(r"if\s*\(\s*(?:yyp|p)\s*<\s*yytext\s*\+\s*MAXLINE\s*([-+])\s*(\d+)\s*\)", lex)
        if len(gs) < 2:
            raise X.TieBroken("lex.c:SAVEC", "cannot locate the SAVEC / refill bounds on yytext")
        worst = max((int(n) if sg == "+" else -int(n)) for sg, n in gs)
        m = re.search(r"#define\s+MAXLINE\s+(\d+)", open(os.path.join(E.REPO, "lib/lpc/lex.h")).read())
        if not m:
            raise X.TieBroken("lex.h:MAXLINE", "cannot locate MAXLINE")
        out.append("/-- source: weakest of the %d guards `p < yytext + MAXLINE %+d` in lex.c -/\ndef savecBound : Int := %d"
                   % (len(gs), worst, int(m.group(1)) + worst))
        # the include-depth test must exist
        if not re.search(r"if\s*\(\s*(\+\+incnum\s*==|incnum\s*\+\s*1\s*>=)\s*MAX_INCLUDE_DEPTH\s*\)", lex):
            raise X.TieBroken("lex.c:handle_include depth test", "the include depth test in handle_include was not found")
        out += self.gen_emit()
        out += gen_grammar(E.REPO)
        out += self.gen_lexbuf(lex)
        return "\n".join(out)

    # ---- icode.c: what every ins_* reserves ------------------------------------
    @staticmethod
    def fn_body(text, name):
        m = re.search(r"\n(?:static\s+)?[A-Za-z_][A-Za-z_0-9 \*]*?\b%s\s*\([^)]*\)\s*\{" % re.escape(name), text)
        if not m:
            return None
        i = m.end()
        depth = 1
        while i < len(text) and depth:
            depth += {"{": 1, "}": -1}.get(text[i], 0)
            i += 1
        return text[m.end():i]

    def gen_emit(self):
        ic = open(os.path.join(E.REPO, "lib/lpc/program/icode.c"), errors="replace").read()
        out = []
        for lean, fn in (("resShort", "ins_short"), ("resInt", "ins_int"), ("resLong", "ins_long"), ("resReal", "ins_real"),
                         ("resPtr", "ins_intptr")):
            body = self.fn_body(ic, fn)
            if body is None:
                raise X.TieBroken("icode.c:%s" % fn, "cannot locate %s() in icode.c" % fn)
            if fn == "ins_intptr":
                # the branch compiled on this platform (64-bit pointers)
                k = body.find("UINTPTR_MAX == UINT64_MAX")
                body = body[k:] if k >= 0 else body
            m = re.search(r"if\s*\(\s*prog_code\s*\+\s*(\d+)\s*>\s*prog_code_max\s*\)", body)
            if not m:
                raise X.TieBroken("icode.c:%s room test" % fn,
                                  "the test `prog_code + N > prog_code_max` in front of the store of %s() was not found: "
                                  "what the function reserves can no longer be read from the source" % fn)
            st = re.search(r"\bSTORE\w*\s*\(", body)
            if not st or st.start() < m.start():
                raise X.TieBroken("icode.c:%s order" % fn, "the store of %s() is no longer behind its room test" % fn)
            out.append("/-- source: icode.c:%s `prog_code + %s > prog_code_max` -/\ndef %s : Nat := %s" % (fn, m.group(1), lean, m.group(1)))
        body = self.fn_body(ic, "ins_byte")
        if body is None or not re.search(r"if\s*\(\s*prog_code\s*==\s*prog_code_max\s*\)", body):
            raise X.TieBroken("icode.c:ins_byte room test", "the test `prog_code == prog_code_max` of ins_byte() was not found")
        return out

    # ---- lex.c: slack constants and guards of the text buffers --------------------
    def gen_lexbuf(self, lex):
        out = []

        def const(name, rx, site, body=None, flags=0):
            m = re.search(rx, body if body is not None else lex, flags)
            if not m:
                raise X.TieBroken(site, "cannot locate %s in the source" % site)
            out.append("/-- source: %s -/\ndef %s : Nat := %d" % (site, name, int(m.group(1))))

        def flag(name, present, site):
            out.append("/-- source: %s (guard present?) -/\ndef %s : Bool := %s" % (site, name, "true" if present else "false"))
        ai = self.fn_body(lex, "add_input")
        if ai is None:
            raise X.TieBroken("lex.c:add_input", "cannot locate add_input()")
        const("addMaxSlack", r"if\s*\(\s*len\s*>=\s*DEFMAX\s*-\s*(\d+)\s*\)", "lex.c:add_input `len >= DEFMAX - N`", ai)
        const("addFrontSlack", r"if\s*\(\s*outptr\s*<\s*len\s*\+\s*(\d+)\s*\+\s*cur_lbuf->buf\s*\)", "lex.c:add_input `outptr < len + N + buf`", ai)
        const("addLineSlack", r"\(\s*\(q\s*-\s*outptr\)\s*\+\s*len\s*\)\s*>=\s*DEFMAX\s*-\s*(\d+)", "lex.c:add_input `(q - outptr) + len >= DEFMAX - N`", ai)
        const("addEndSlack", r"buf_end\s*=\s*buf\s*\+\s*DEFMAX\s*-\s*(\d+)\s*\)\s*-\s*1", "lex.c:add_input `buf_end = buf + DEFMAX - N`", ai)
        m = re.search(r"new_outp\s*=\s*new_lbuf->outptr\s*=\s*buf\s*\+\s*DEFMAX\s*-\s*(\d+)\s*-\s*size", ai)
        m2 = re.search(r"buf_end\s*=\s*buf\s*\+\s*DEFMAX\s*-\s*(\d+)\s*\)\s*-\s*1", ai)
        if not m or m.group(1) != m2.group(1):
            raise X.TieBroken("lex.c:add_input new_outp", "new_outp is no longer `buf + DEFMAX - N - size` with the N of buf_end")
        if not re.search(r"size\s*=\s*\(q\s*-\s*outptr\)\s*\+\s*len\s*\+\s*1\s*;", ai):
            raise X.TieBroken("lex.c:add_input size", "`size = (q - outptr) + len + 1` not found")
        ed = self.fn_body(lex, "expand_define")
        if ed is None:
            raise X.TieBroken("lex.c:expand_define", "cannot locate expand_define()")
        gs = [int(x) for x in re.findall(r"if\s*\(\s*q\s*>=\s*expbuf\s*\+\s*DEFMAX\s*-\s*(\d+)\s*\)", ed)]
        if not gs:
            raise X.TieBroken("lex.c:expand_define argument guard", "no `q >= expbuf + DEFMAX - N` test found")
        out.append("/-- source: lex.c:expand_define weakest `q >= expbuf + DEFMAX - N` -/\ndef argSlack : Nat := %d" % min(gs))
        top = re.search(r"for\s*\(\s*n\s*=\s*0\s*;\s*n\s*<\s*NARGS\s*;\s*\)\s*\{\s*(?:/\*.*?\*/\s*)*(?:#ifdef[^\n]*\n[^#]*#endif\s*)?if\s*\(\s*q\s*>=\s*expbuf\s*\+\s*DEFMAX",
                        ed, re.S)
        flag("argGuardAtTop", bool(top), "lex.c:expand_define test at the start of every round of the argument loop")
        inner = re.search(r"if\s*\(\s*q\s*>=\s*expbuf\s*\+\s*DEFMAX\s*-\s*\d+\s*\)\s*\{[^}]*\}\s*else\s*\{\s*\*q\+\+\s*=\s*\(char\)\s*c\s*;", ed)
        flag("argInnerGuard", bool(inner), "lex.c:expand_define test in front of the ordinary store")
        # expansion loop: every `*b++ = ...` store must be followed by the `b >= buf + DEFMAX` test
        exp = ed[ed.find("/* Do expansion */"):] if "/* Do expansion */" in ed else None
        if exp is None:
            raise X.TieBroken("lex.c:expand_define expansion loop", "cannot locate the expansion loop")
        g = r"\s*if\s*\(\s*b\s*>=\s*buf\s*\+\s*DEFMAX\s*\)"
        flag("bodyGuardMarks", bool(re.search(r"\*b\+\+\s*=\s*\*e\+\+\s*;" + g + r"[^}]*\}\s*\}\s*else\s*\{\s*for", exp)), "lex.c:expand_define MARKS MARKS store")
        flag("bodyGuardArg", bool(re.search(r"\*b\+\+\s*=\s*\*q\+\+\s*;" + g, exp)), "lex.c:expand_define argument copy store")
        flag("bodyGuardLit", len(re.findall(r"\*b\+\+\s*=\s*\*e\+\+\s*;" + g, exp)) >= (2 if re.search(r"\*b\+\+\s*=\s*\*e\+\+\s*;" + g + r"[^}]*\}\s*\}\s*else\s*\{\s*for", exp) else 1)
             and len(re.findall(r"\*b\+\+\s*=\s*\*e\+\+\s*;", exp)) == 2, "lex.c:expand_define literal store")
        hd = self.fn_body(lex, "handle_define")
        if hd is None:
            raise X.TieBroken("lex.c:handle_define", "cannot locate handle_define()")
        gs = [int(x) for x in re.findall(r"if\s*\(\s*q\s*<\s*mtext\s*\+\s*MLEN\s*-\s*(\d+)\s*\)", hd)]
        if len(gs) != 2:
            raise X.TieBroken("lex.c:handle_define guards", "expected two `q < mtext + MLEN - N` tests, found %d" % len(gs))
        out.append("/-- source: lex.c:handle_define function-like loop `q < mtext + MLEN - N` -/\ndef defFnSlack : Nat := %d" % gs[0])
        out.append("/-- source: lex.c:handle_define object-like loop `q < mtext + MLEN - N` -/\ndef defObjSlack : Nat := %d" % gs[1])
        gt = self.fn_body(lex, "get_terminator")
        if gt is None:
            raise X.TieBroken("lex.c:get_terminator", "cannot locate get_terminator()")
        m = re.search(r"if\s*\(\s*j\s*>=\s*(MAXLINE(?:\s*[-+]\s*\d+)?)\s*\)\s*return", gt)
        flag("termGuard", bool(m), "lex.c:get_terminator `j >= LIMIT` before the store")
        lim = m.group(1) if m else "MAXLINE"
        mm = re.search(r"#define\s+MAXLINE\s+(\d+)", open(os.path.join(E.REPO, "lib/lpc/lex.h")).read())
        out.append("/-- source: lex.c:get_terminator limit `%s` -/\ndef termLimit : Nat := %d" % (lim, eval(lim.replace("MAXLINE", mm.group(1)))))
        const("termBufSize", r"static\s+char\s+terminator\s*\[\s*MAXLINE\s*\+\s*(\d+)\s*\]", "lex.c:yylex `terminator[MAXLINE + N]` (N)")
        hi = self.fn_body(lex, "handle_include")
        if hi is None:
            raise X.TieBroken("lex.c:handle_include", "cannot locate handle_include()")
        m = re.search(r"macro_hops\+\+\s*<\s*MAX_INCLUDE_DEPTH", hi)
        recursive = bool(re.search(r"\bhandle_include\s*\(\s*q\s*,", hi))
        flag("includeHopGuard", bool(m) and not recursive, "lex.c:handle_include bounded `#include MACRO` loop")
        out.append("/-- source: lex.c:handle_include hop limit = MAX_INCLUDE_DEPTH -/\ndef includeHopLimit : Nat := maxIncludeDepth")
        return out

    # ---- implementation / model ---------------------------------------------
    def prepare(self, ctx):
        self.exe = E.compile_harness("c02", [os.path.join(E.VERIF, "harness/c02/c02.c")])
        self.conf = E.make_mudlib(ctx.rundir)
        self.impl_cache = {}

    def canon(self, lines):
        """clean_parser() runs clean_up_locals(); scratch_destroy(); free_unused_identifiers(), epilog() runs
        scratch_destroy() first; the model treats locals + identifier cleanup as one event, so the scratch_destroy
        trace line is moved in front of it (the three do not interact)"""
        out = [l.rstrip() for l in lines if l.strip() != ""]
        for i in range(1, len(out) - 1):
            if out[i].startswith("ev scr.destroy ") and out[i - 1].startswith("ev local.cleanup ") and out[i + 1].startswith("ev ident.free_unused"):
                out[i - 1], out[i] = out[i], out[i - 1]
        return out

    @staticmethod
    def conf_n(case):
        """cases whose first line is `# conf maxlocals N` run in a driver configured with MaxLocalVariables N"""
        for l in case.lines[:2]:
            m = re.match(r"#\s*conf\s+maxlocals\s+(\d+)", l)
            if m:
                return int(m.group(1))
        return None

    def run_impl(self, ctx, cases):
        groups = {}
        for c in cases:
            groups.setdefault(self.conf_n(c), []).append(c)
        res = {}
        for n, cs in groups.items():
            if n is None:
                conf, rd = self.conf, ctx.rundir
            else:
                rd = os.path.join(ctx.rundir, "n%d" % n)
                os.makedirs(rd, exist_ok=True)
                conf = E.make_mudlib(rd, extra_conf="\nMaxLocalVariables\t%d\n" % n)
            res.update(E.run_harness(self.exe, conf, cs, rd, args=["--timeout", "20"]))
        for k, v in res.items():
            self.impl_cache[k] = self.canon(v)
        return res

    def run_model(self, ctx, cases):
        """the model REPLAYS the event stream emitted by the implementation"""
        rs = [E.Case(c.id, self.impl_cache.get(c.id, ["crash missing"])) for c in cases]
        return E.nvdrive(self.id, "model", E.cases_text(rs))

    def nontrivial_key(self, case, out):
        import hashlib
        # events of the fuzzed compile(s): between the first and the last probe line
        idx = [i for i, l in enumerate(out) if l.startswith("probe ")]
        body = out[idx[0] + 1: idx[-1]] if len(idx) >= 2 else out
        evs = [l for l in body if l.startswith("ev ") and not l.startswith("ev mem.") and not l.startswith("ev lex.")]
        if len(evs) < 4:
            return None
        return hashlib.sha1("\n".join(body).encode()).hexdigest()

    # ---- boundary cases ------------------------------------------------------
    def boundary(self):
        B = []

        def mk(name, text, files=(), second=None):
            B.append(mkcase("b-" + name, text, files, "boundary", second))
        ids = lambda p, n: ",".join("%s%d" % (p, i) for i in range(n))
        args = lambda p, n: ",".join("int %s%d" % (p, i) for i in range(n))
        # repaired defect 1: locals of a literal beyond the initial allocation
        mk("realloc-literal-20", "void f() { int %s; function g; g = function(int a) { int %s; return a; }; }" % (ids("o", 10), ids("l", 20)))
        mk("realloc-literal-full", "void f() { int %s; function g; g = function(int a) { int %s; return a; }; }" % (ids("o", 23), ids("l", 24)))
        # repaired defect 2: more arguments than locals allowed
        for n in (N - 1, N, N + 1, 60, 200):
            mk("args-%d" % n, "int f(%s) { return 1; }" % args("a", n))
        mk("literal-args-60", "void f() { function g; g = function(%s) { return 1; }; }" % args("a", 60))
        # repaired defect 3: block with more declarations than fit
        mk("block-30", "void f() { int q; { int %s; } q = 1; }" % ids("a", 30))
        mk("switch-30", "void f(int q) { switch (q) { int %s; case 1: break; } }" % ids("a", 30))
        for n in (N - 1, N, N + 1):
            mk("locals-%d" % n, "void f() { int %s; }" % ids("a", n))
        # repaired defect 4: nesting of function literals at and beyond MAX_FUNCTION_DEPTH
        for n in (9, 10, 11, 14):
            mk("nest-%d" % n, self.nest(n))
        mk("nest-functional-12", "mixed f() { return " + "(: " * 12 + "1" + " :)" * 12 + "; }")
        # repaired defect 5: failed includes must not defeat the depth limit
        inc = "".join('#include "nonexist%d.h"\n' % i for i in range(40)) + '#include "self.h"\nint x;\n'
        mk("include-drift", '#include "self.h"\n', [("self.h", inc)])
        mk("include-self", '#include "self.h"\nint y;\n', [("self.h", '#include "self.h"\nint x;\n')])
        for d in (30, 31, 32, 33):
            files = [("i%d.h" % i, '#include "i%d.h"\nint v%d;\n' % (i + 1, i)) for i in range(d)] + [("i%d.h" % d, "int last;\n")]
            mk("include-chain-%d" % d, '#include "i0.h"\nint top;\n', files)
        # repaired defects 6/7: identifier references of locals named like efuns
        mk("redeclare-efun", "void f() { int time; { int time; } }")
        mk("efun-local-literal", "void f() { int time, sizeof; function g; g = function(int write) { return write; }; }")
        mk("abandoned-literal", "void f() { int time, a; function g; g = function(int b, int c) { int d; "
           "return function(int sizeof, + ) { return 1; }; }; a = 1; }\nint g2(int users) { return users; }")
        mk("abandoned-literal-2", "void f() { int a, b; function g; g = function(int c, int d, int e) { int h; h = function(int i, + ) { return 1; }; return c; }; }\n"
           "void k() { int z; }")
        # yytext bound
        for n in (1017, 1018, 1019, 1020, 1023, 1024, 1030, 3000):
            mk("ident-%d" % n, "int %s;\n" % ("a" * n))
            mk("number-%d" % n, "int x = %s;\n" % ("1" * n))
        mk("hex-2000", "int x = 0x%s;\n" % ("f" * 2000))
        mk("directive-2000", "#%s\n" % ("d" * 2000))
        mk("param-2000", "mixed f() { return (: $%s :); }" % ("1" * 2000))
        # #if nesting and unterminated things
        mk("if-nest-200", "#if 1\n" * 200 + "int x;\n" + "#endif\n" * 200)
        mk("if-unterminated", "#if 1\n" * 50 + "int x;\n")
        mk("if-paren-deep", "#if " + "(" * 500 + "1" + ")" * 500 + "\nint x;\n#endif\n")
        mk("text-unterminated", "string f() { return @END\nabc\n")
        mk("string-unterminated", "string f() { return \"abc\n")
        mk("comment-unterminated", "int x; /* abc\n")
        # growth of mem blocks
        mk("many-functions", "".join("int f%d(int a) { return a + %d; }\n" % (i, i) for i in range(700)))
        mk("many-strings", "string *f() { return ({ %s }); }" % ",".join('"s%d"' % i for i in range(1500)))
        mk("big-string", "string f() { return \"%s\"; }" % ("x" * 60000))
        mk("many-globals", "int %s;" % ids("g", 400))
        mk("class-many-members", "class c { int %s; }" % ids("m", 40))
        # round 2: lexer function_flag, include path buffer, pre_text length, redeclaration orders
        mk("functional-undefined-eof", "mixed f() { return (: si")
        mk("functional-forward", "mixed f() { return (: later :); }\nint later() { return 1; }\n")
        mk("functional-undefined-comma", "mixed f() { return (: nosuch, 1 :); }\nint g() { return sizeof(({})); }\n")
        D = "d" * 200
        mk("include-path-buffer", '#include "%s/i.h"\nint x;\n' % D, [("%s/i.h" % D, '#include "%s.h"\nint y;\n' % ("n" * 920))])
        mk("include-path-buffer-2", '#include "%s/%s/i.h"\nint x;\n' % (D, D), [("%s/%s/i.h" % (D, D), '#include "%s/%s.h"\nint y;\n' % ("m" * 250, "n" * 600))])
        mk("call-proto-def", "void g() { f(1); }\nint f(int a);\nint f(int a) { return a; }\n")
        mk("proto-def-def", "int f(int a);\nint f(int a) { return a; }\nint f(int a) { return a; }\nvoid h() { f(2); }\n")
        for n in (4900, 4990, 4995, 5000, 6200, 9000, 9985, 12000):
            body = ("int f0() { return 1; }\n" + "".join("int v%d;\n" % i for i in range(n // 8)))[:n]
            body = body[:body.rfind("\n") + 1]
            B.append(mkcase("b-pretext-%d" % n, body, (), "boundary", pretext=True))
        for n in (127, 128, 130, 200, 255, 256, 300):
            mk("block-%d" % n, "void f() { int q; { int %s; } q = 1; }" % ids("a", n))
        # round 3: one efun / simul_efun name bound in several name spaces at once
        mk("ns-global-function", "string write; void write(string s) { }\n")
        mk("ns-function-class", "void time() { }\nclass time { int a; }\n")
        mk("ns-global-class", "int sizeof;\nclass sizeof { int a; }\nint f() { return 1; }\n")
        mk("ns-all-three", "int vsimul_marker;\nclass vsimul_marker { int a; }\nint vsimul_marker() { return 1; }\nvoid f(int vsimul_marker) { int g; { int users; } }\n")
        mk("ns-all-three-error", "int write;\nclass write { int a; }\nint write() { return 1; }\nvoid f(int write) { int g; + }\n")
        mk("ns-global-twice", "int time; string time;\nvoid f() { time = 1; }\n")
        mk("ns-eof-in-class", "int keys() { return 1; }\nint keys;\nclass keys { int a;")
        mk("ns-then-use", "string write; void write(string s) { }\n", second="mixed f() { return write; }\nmixed g() { return (: write :); }\n")
        mk("fold-overflow", "int x = 9223372036854775807 + 1;\nint y = 4611686018427387904 * 4;\nint z = -9223372036854775807 - 10;\n")
        # audit round: scratchpad / string scanner / comment at end of file
        for n in (1, 3, 4, 6):
            mk("escapes-%d-lines" % n, 'string f() { return "%s"; }\n' % "\n".join("\\q" * 200 for _ in range(n)))
        mk("escapes-near-pad-end", 'string *g() { return ({ %s,\n "%s" }); }\n' % (",\n".join('"%s"' % (("a%03d" % i) * 20) for i in range(49)), "\\q" * 200))
        mk("escapes-text-block", 'string f() { return @END\n%s\nEND\n; }\n' % "\n".join("\\q" * 150 for _ in range(8)))
        for n in (253, 254, 255, 256, 257):
            mk("scratch-ident-%d" % n, "int %s; int after_%d;\n" % ("i" * n, n))
            mk("scratch-string-%d" % n, 'string f() { return "%s" "x"; }\n' % ("s" * n))
        mk("scratch-many-idents", "void f() { %s }\n" % " ".join("u%s = 1;" % ("v" * (i % 200)) for i in range(120)))
        mk("string-concat-long", 'string f() { return %s; }\n' % " ".join('"%s"' % ("c" * 100) for _ in range(30)))
        # the pad filled to the last bytes by pending function names, then an allocation that just fits / just not
        def padfill(extras, inner, nfull=14):
            names = ["p%02d%s" % (i, "n" * 247) for i in range(nfull)] + ["q%d%s" % (j, "m" * (e - 2)) for j, e in enumerate(extras)]
            return "mixed t() { return\n" + "(\n".join(names) + "(\n" + inner + "\n" + ")" * len(names) + "; }\n"
        for k in range(148, 158):
            mk("pad-edge-colon-%d" % k, padfill([249], "%s::b()" % ("a" * (k - 1))))
        for e in range(100, 118):
            mk("pad-edge-string-%d" % e, padfill([e], '"%s"' % ("s" * 200), nfull=15))
        for e in range(238, 255):
            mk("pad-edge-ident-%d" % e, padfill([60], "z" * e, nfull=15))
        # round 2: locals declared in blocks that are closed again (max_num_locals > current_number_of_locals) in front of
        # nested literals: the type table cursor runs ahead of the name table cursor (seeded C02-5 and its mirror images)
        def closed(nblock, nlive, body):
            return "int %s; { int %s; } %s" % (ids("k", nlive), ids("c", nblock), body)
        for nb, nl in ((23, 1), (24, 1), (12, 12), (1, 23), (0, 24), (20, 5)):
            for inner in (N - 1, N, N + 1):
                lit2 = "function(int z) { int %s; return z; }" % ids("w", inner - 1)
                lit1 = "function(int y) { %s }" % closed(nb, nl, "return %s;" % lit2).replace("k", "p").replace("c", "q")
                mk("closed-blocks-%d-%d-inner-%d" % (nb, nl, inner), "mixed f() { %s }" % closed(nb, nl, "return %s;" % lit1))
        mk("closed-blocks-three-deep", "mixed f() { %s }" % closed(23, 1, "return function() { %s };" % closed(23, 1, "return function() { %s };" % closed(23, 1, "return function() { int %s; return 1; };" % ids("w", 25)).replace("k", "m").replace("c", "n")).replace("k", "p").replace("c", "q")))
        mk("closed-blocks-args", "mixed f(%s) { { int %s; } return function(%s) { { int %s; } return function(%s) { return 1; }; }; }"
           % (args("a", 2), ids("c", 22), args("b", 2), ids("d", 22), args("e", 25)))
        # round 2: MaxLocalVariables configured above 127 (the counters kept on bison's stack / in runtime_locals[])
        for n in (126, 127, 128, 129, 130, 199, 200, 201, 255, 256, 300):
            B.append(E.Case("b-n200-locals-%d-literal" % n, ["# conf maxlocals 200"] + mkcase("x", "int f() { int %s; function g; g = function(int a) { int b; return a + b; }; return o%d; }" % (ids("o", n), min(n, 200) - 1)).lines, {"origin": "boundary", "kind": "n200"}))
        B.append(E.Case("b-n200-nested", ["# conf maxlocals 200"] + mkcase("x", "mixed f() { int %s; return function(int a) { int %s; return function(int b) { int %s; return b + r149 + q139 + o129; }; }; }" % (ids("o", 130), ids("q", 140), ids("r", 150))).lines, {"origin": "boundary", "kind": "n200"}))
        B.append(E.Case("b-n200-block-150", ["# conf maxlocals 200"] + mkcase("x", "void f() { int q; { int %s; } q = function() { int %s; return 1; }; }" % (ids("a", 150), ids("b", 190))).lines, {"origin": "boundary", "kind": "n200"}))
        B.append(E.Case("b-n200-args-180", ["# conf maxlocals 200"] + mkcase("x", "int f(%s) { return function(%s) { return y179; }; }" % (args("x", 180), args("y", 180))).lines, {"origin": "boundary", "kind": "n200"}))
        B.append(E.Case("b-n200-abandoned", ["# conf maxlocals 200"] + mkcase("x", "void f() { int %s; function g; g = function(int b) { int %s; return function(int c, + ) { return 1; }; }; o0 = 1; }\nint g2(int users) { return users; }" % (ids("o", 140), ids("p", 135))).lines, {"origin": "boundary", "kind": "n200"}))
        # extend round: the text buffers of the preprocessor (F22 - F27) at their edges
        mk("include-macro-self", "#define X X\n#include X\nint a;\n")
        mk("include-macro-cycle", "#define A B\n#define B C\n#define C A\n#include A\nint a;\n")
        mk("include-macro-chain", "#define A B\n#define B \"inc0.h\"\n#include A\nint a;\n", [("inc0.h", "int inc0;\n")])
        for n in (1000, 1019, 1023, 1024, 1025, 1030, 3001):
            body = "a" * n
            cont = "\\\n".join(body[i:i + 900] for i in range(0, n, 900))
            mk("terminator-macro-%d" % n, "#define M @%s\nstring f() { return M\nfoo\n%s\n; }\n" % (cont, body))
        for c in (9960, 9975, 9980, 9984, 9985, 9990):
            body = "1" * c
            lines = "\n".join(body[i:i + 900] for i in range(0, c, 900))
            for commas in (1, 24, 25):
                mk("macro-arg-%d-commas-%d" % (c, commas), "#define F(a) a\nint x = F(" + lines + "," * commas + ");\n")
            mk("macro-arg-%d-hash" % c, "#define F(a) a\nint x = F(" + lines + "##" * 4 + ");\n")
            mk("macro-arg-%d-bslash" % c, "#define F(a) a\nint x = F(" + lines + ' "' + "\\\\" * 4 + '");\n')
        for p_ in range(4, 13):
            mk("macro-body-marks-%d" % p_, "#define G(a) a a a a a a a a a a" + "+" * p_ + "@\nint x = G(" + "b" * 998 + ");\n")
            mk("macro-body-arg-%d" % p_, "#define G(a) a a a a a a a a a" + "+" * p_ + "a\nint x = G(" + "b" * 998 + ");\n")
        for c in range(4084, 4096):
            txt = "x" * c
            lines = "\\\n".join(txt[i:i + 900] for i in range(0, c, 900))
            mk("define-text-param-at-%d" % c, "#define H(a) " + lines + " a@\nint y;\n")
            mk("define-text-obj-%d" % c, "#define H " + lines + "@\nint y;\n")
        mk("define-empty-continuation", "#define K a\\\n\nint y;\n")
        mk("define-fn-empty-continuation", "#define K(a) a\\\n\nint y = K(1);\n")
        mk("define-continuation-eof", "#define K a\\")
        # add_input: expansions that no longer fit in front of the cursor (linked buffer) and their neighbours
        for n in (900, 1000, 1010):
            mk("add-input-linked-%d" % n, "#define A %s\n#define B A A A A A A\nint x; string s = \"B\"; int y = 0 B;\n" % ("+1" * (n // 2)))
        mk("add-input-recursive", "#define R R R\nint x = R;\n")
        mk("add-input-text-block-tail", "string f() { return @END\n%s\nEND + \"tail\"; }\n" % "\n".join("line %d" % i for i in range(700)))
        # add_input's rest-of-line test at its edge: expansion of 9853 bytes + d more characters on the line
        for d in range(130, 150):
            mk("add-input-line-edge-%d" % d, "#define G(a) a a a a a a a a a a a a\nint x = G(" + "b" * 820 + ");" + " " * (d - 1) + "\nint y;\n")
        # an item that makes the block grow, followed by enough code to reach the end of the grown block
        for kind, expr in self.EMIT_KINDS[:6]:
            for t in (25, 27, 29, 31):
                B.append(self.emit_case("b-emit-%s-%d-then" % (kind, t), expr, 1012, t, "boundary", tail=1100))
        # extend round: every kind of emitted item across every alignment of the first code block boundary
        for kind, expr in self.EMIT_KINDS:
            for t in range(20, 48):
                B.append(self.emit_case("b-emit-%s-%d" % (kind, t), expr, 1012, t, "boundary"))
        mk("include-ends-in-comment", '#include "c.h"\nint after;\n', [("c.h", "int inc_var; // trailing comment without newline")])
        mk("file-ends-in-comment", "int x; // no newline at end")
        mk("two-sources", "void f() { int time; { int time; } }", second="int g() { return time(); }")
        mk("empty", "")
        mk("nul-bytes", "int x;\x00\x00 int y;\n")
        mk("high-bytes", "int \xff\xfe x; string s = \"\xe4\xb8\xad\";\n")
        return B

    # what is emitted right behind the padding: (name, statement); the item widths are ins_byte/short/int/long/real/intptr
    EMIT_KINDS = [("real", "return 1.5;"), ("int", "return 70000;"), ("long", "return 5000000000;"), ("short", "return 300;"),
                  ("string", "return \"s\";"), ("funptr", "return (: q :);"), ("branch", "if (x) return 1; return 2;"),
                  ("switch", "switch (x) { case 1: return 1; case 70000: return 2; default: return 3; }")]

    @staticmethod
    def emit_pad(p, unit="a=b;"):
        out = []
        i = 0
        while p > 0:
            k = min(p, 100)
            out.append("void p%d() { int a, b;\n%s}\n" % (i, (unit + "\n") * k))
            p -= k
            i += 1
        return "".join(out)

    def emit_case(self, cid, stmt, p, t, origin, kind="emit", tail=0):
        """p four-byte statements, then t one-byte operators, then the item: sweeping t moves the item byte by byte"""
        text = self.emit_pad(p) + "void q() { int a, b; a = %sb; }\n" % ("~ " * t) + "mixed f(int x) { %s }\n" % stmt
        if tail:
            text += self.emit_pad(tail).replace("void p", "void tl")
        return E.Case(cid, ["probe"] + src_lines(text) + ["compile", "probe"], {"origin": origin, "kind": kind})

    @staticmethod
    def nest(n, body="return 1;"):
        s = body
        for _ in range(n):
            s = "return function() { %s };" % s
        return "mixed f() { %s }" % s

    # ---- generators ----------------------------------------------------------
    _seed_texts = None

    def seed_texts(self):
        if self._seed_texts is None:
            paths = sorted(glob.glob(os.path.join(E.REPO, "examples/m3_mudlib/**/*.c"), recursive=True))
            paths += sorted(glob.glob(os.path.join(E.VERIF, "harness/mudlib/**/*.c"), recursive=True))
            paths += sorted(glob.glob(os.path.join(E.VERIF, "harness/mudlib/include/*.h")))
            ts = []
            for p in paths:
                try:
                    t = open(p, errors="replace").read()
                except OSError:
                    continue
                if 0 < len(t) < 20000:
                    ts.append(t)
            C02._seed_texts = ts or ["int f() { return 1; }\n"]
        return self._seed_texts

    TOK = re.compile(r'"(?:\\.|[^"\\\n])*"|\'(?:\\.|[^\'\\\n])*\'|[A-Za-z_][A-Za-z_0-9]*|\d+\.?\d*|\(:|:\)|\(\{|\}\)|\(\[|\]\)|'
                     r'->|\+\+|--|[-+*/%&|^<>=!]=|&&|\|\||<<|>>|::|\.\.\.?|#[a-z]+|\s+|.', re.S)

    def gen_bytes(self, rng, cid):
        n = rng.choice([0, 1, 2, 5, 20, 100, 400, 1500, 5000])
        mode = rng.below(3)
        if mode == 0:
            b = bytes(rng.below(256) for _ in range(n))
        elif mode == 1:
            alpha = b"abcxyz_09 \n\t(){}[];,:+-*/%=<>!&|^~?.#@$'\"\\"
            b = bytes(alpha[rng.below(len(alpha))] for _ in range(n))
        else:
            b = "".join(rng.choice(PUNCT + KEYWORDS + EFUN_NAMES) + rng.choice(["", " ", " ", "\n"]) for _ in range(n // 3 + 1)).encode("latin-1")
        return mkcase(cid, b, kind="bytes")

    def gen_tokmut(self, rng, cid):
        t = rng.choice(self.seed_texts())
        toks = self.TOK.findall(t)
        if len(toks) > 1500:
            a = rng.below(len(toks) - 1500)
            toks = toks[a:a + 1500]
        pool = PUNCT + KEYWORDS + EFUN_NAMES
        for _ in range(rng.weighted([(1, 4), (2, 3), (4, 3), (10, 2), (40, 1)])):
            if not toks:
                break
            i = rng.below(len(toks))
            k = rng.below(7)
            if k == 0:
                del toks[i]
            elif k == 1:
                toks.insert(i, toks[i])
            elif k == 2:
                j = rng.below(len(toks))
                toks[i], toks[j] = toks[j], toks[i]
            elif k == 3:
                toks[i] = rng.choice(pool)
            elif k == 4:
                toks.insert(i, rng.choice(pool))
            elif k == 5:
                j = min(len(toks), i + rng.range(1, 30))
                toks[i:i] = toks[i:j] * rng.range(1, 4)
            else:
                j = min(len(toks), i + rng.range(1, 30))
                del toks[i:j]
        files = [("inc0.h", rng.choice(["int inc0;\n", '#include "inc0.h"\n', "#define Q 1\n", "#if 1\n", ""]))]
        return mkcase(cid, "".join(toks), files, kind="tokmut")

    # grammar level ------------------------------------------------------------
    def g_name(self, rng, st):
        k = rng.below(10)
        if k < 3:
            return rng.choice(EFUN_NAMES)
        if k < 6 and st["names"]:
            return rng.choice(st["names"])          # redeclaration / shadowing
        st["n"] += 1
        nm = "v%d" % st["n"]
        st["names"].append(nm)
        return nm

    def g_decls(self, rng, st, n):
        if n <= 0:
            return ""
        return "%s %s; " % (rng.choice(["int", "string", "mixed", "object", "int *"]).replace(" *", ""),
                            ", ".join(("*" if rng.chance(1, 8) else "") + self.g_name(rng, st) for _ in range(n)))

    def g_count(self, rng):
        return rng.weighted([(0, 3), (1, 6), (2, 5), (3, 4), (6, 3), (12, 2), (N - 2, 1), (N - 1, 1), (N, 1), (N + 1, 1), (N + 9, 1)])

    def g_block(self, rng, st, depth):
        """statements of a block body"""
        out = [self.g_decls(rng, st, self.g_count(rng))]
        for _ in range(rng.weighted([(0, 2), (1, 5), (2, 4), (4, 2)])):
            k = rng.weighted([("expr", 5), ("lit", 5 if depth < 13 else 0), ("blk", 3), ("sw", 1), ("for", 1), ("err", 1),
                              ("fnl", 2), ("undef", 1)])
            if k == "expr":
                out.append("%s = %d; " % (self.g_name(rng, st), rng.below(100)))
            elif k == "lit":
                out.append("%s = %s; " % (self.g_name(rng, st), self.g_literal(rng, st, depth + 1)))
            elif k == "blk":
                out.append("{ " + self.g_block(rng, st, depth) + "} ")
            elif k == "sw":
                out.append("switch (%d) { %s case 1: break; default: { %s } } " % (rng.below(3), self.g_decls(rng, st, self.g_count(rng)), self.g_decls(rng, st, rng.below(4))))
            elif k == "for":
                out.append("for (int %s = 0; 0; ) { %s } foreach (mixed %s in ({ })) { } " % (self.g_name(rng, st), self.g_decls(rng, st, rng.below(4)), self.g_name(rng, st)))
            elif k == "err":
                out.append(rng.choice(["+ ; ", ") ; ", "int ; ", "} ", "( ; ", "return return; ", "@ ", "1 = ; ", "else ; "]))
            elif k == "fnl":
                out.append("%s = (: %s :); " % (self.g_name(rng, st), rng.choice(["$1 + 1", "time", "$1, $2", "(: $1 :)", "sizeof($1)", "$(1)", "$(%s)" % self.g_name(rng, st), "nosuch%d" % rng.below(3), "nosuch, 1", "fn0", "fn1 :) + (: fn2"])))
            else:
                out.append("undef%d = undef%d + 1; " % (rng.below(5), rng.below(5)))
        if rng.chance(1, 2):
            out.append("return 0; ")
        return "".join(out)

    def g_args(self, rng, st):
        n = rng.weighted([(0, 4), (1, 5), (2, 4), (5, 2), (N - 1, 1), (N, 1), (N + 1, 1), (2 * N + 3, 1)])
        parts = ["%s %s" % (rng.choice(["int", "string", "mixed"]), self.g_name(rng, st)) for _ in range(n)]
        if parts and rng.chance(1, 10):
            parts[rng.below(len(parts))] = rng.choice(["+", "int", "int int x", ")", "void v", "..."])     # broken header
        if parts and rng.chance(1, 12):
            parts[-1] += "..."
        return ", ".join(parts)

    def g_literal(self, rng, st, depth):
        saved = list(st["names"])
        st["names"] = []
        s = "function(%s) { %s}" % (self.g_args(rng, st), self.g_block(rng, st, depth))
        st["names"] = saved
        return s

    def gen_grammar(self, rng, cid):
        st = {"n": 0, "names": []}
        parts = []
        files = []
        kind = rng.weighted([("fn", 10), ("deep", 2), ("inc", 3), ("pre", 2), ("big", 1), ("long", 2), ("ns", 5)])
        if kind == "deep":
            d = rng.range(8, 14)
            inner = self.g_block(rng, st, d)
            parts.append(self.nest(d, inner))
        elif kind == "inc":
            depth = rng.choice([1, 3, 10, 30, 31, 32, 35])
            missing = rng.choice([0, 0, 1, 5, 31, 32, 40])
            selfinc = rng.chance(1, 3)
            for i in range(depth):
                body = "".join('#include "missing%d_%d.h"\n' % (i, j) for j in range(missing if i == 0 else 0))
                body += '#include "i%d.h"\n' % (i + 1) + ("#if 1\n" if rng.chance(1, 6) else "") + "int iv%d;\n" % i
                files.append(("i%d.h" % i, body))
            if rng.chance(1, 4):
                dd = rng.choice("pq") * rng.choice([60, 100, 150, 200, 250])
                files.append(("%s/deep.h" % dd, '#include "%s.h"\nint deepv;\n' % (rng.choice("rs") * rng.choice([700, 800, 900, 920, 924, 925, 1000]))))
                parts.append('#include "%s/deep.h"\n' % dd)
            files.append(("i%d.h" % depth, ('#include "i0.h"\n' if selfinc else "") + rng.choice(["int last;\n", "int last\n", "#if 0\n", "void lf() { int a; + }\n"])))
            parts.append('#include "i0.h"\n')
        elif kind == "pre":
            n = rng.range(1, 60)
            for i in range(n):
                parts.append(rng.choice(["#if %d\n" % rng.below(2), "#ifdef X%d\n" % rng.below(3), "#ifndef X%d\n" % rng.below(3),
                                         "#else\n", "#elif %d\n" % rng.below(2), "#endif\n", "#define X%d %d\n" % (rng.below(3), i),
                                         "#define F%d(a,b) a+b+F%d(a,b)\n" % (i % 3, (i + 1) % 3), "int pv%d = F%d(1,2);\n" % (i, i % 3),
                                         "#undef X%d\n" % rng.below(3), "#if (1 +\n", "#if defined(X1) && !defined(X2)\n",
                                         "#pragma %s\n" % rng.choice(["strict_types", "warnings", "save_binary", "nonsense"]),
                                         "#include \"i0.h\"\n", "#echo x\n", "#line 5\n", "#\n", "# if 1\n"]))
            files.append(("i0.h", rng.choice(["#endif\n", "#if 1\n", "int q;\n"])))
        elif kind == "big":
            k = rng.below(5)
            if k == 0:
                parts.append("mixed f() { return ({ %s }); }\n" % ",".join(str(i) for i in range(rng.choice([300, 3000, 20000]))))
            elif k == 1:
                parts.append("string f() { return \"%s\"; }\n" % ("y" * rng.choice([1000, 9000, 11000, 100000])))
            elif k == 2:
                parts.append("string f() { return @ZZ\n%sZZ\n; }\n" % ("line of text\n" * rng.choice([10, 1000, 5000])))
            elif k == 3:
                parts.append("mapping f() { return ([ %s ]); }\n" % ",".join('"k%d":%d' % (i, i) for i in range(rng.choice([100, 2000]))))
            else:
                parts.append("".join("string s%d() { return \"str%d\" + \"%s\"; }\n" % (i, i, "z" * (i % 50)) for i in range(rng.choice([100, 600, 1200]))))
        elif kind == "long":
            n = rng.choice([1000, 1017, 1018, 1019, 1020, 1021, 1024, 1100, 5000, 12000])
            what = rng.below(5)
            if what == 0:
                parts.append("int %s;\n" % (rng.choice("ab_") * n))
            elif what == 1:
                parts.append("int x = %s%s;\n" % (rng.choice(["", "0x", "1.", "1e"]), "7" * n))
            elif what == 2:
                parts.append("#define %s 1\nint y = %s;\n" % ("M" * (n % 300 + 1), "M" * (n % 300 + 1)) + "#" + "q" * n + "\n")
            elif what == 3:
                parts.append("int z = 1 " + "+ 1 " * (n // 4) + ";\n")
            else:
                parts.append("#define L(a) a\nint w = L(" + "1+" * (n // 2) + "1);\n")
        if kind == "ns":
            # the same efun / simul_efun name in two or three name spaces (global, function, class, local, nested)
            for _ in range(rng.range(1, 4)):
                nm = rng.choice(EFUN_NAMES)
                decls = rng.shuffle(["%s %s;\n" % (rng.choice(["int", "string", "mixed", "private int", "static string"]), nm),
                                     "%s %s(%s) { %s}\n" % (rng.choice(["int", "void", "mixed", ""]), nm, self.g_args(rng, st),
                                                             self.g_block(rng, st, 0) if rng.chance(1, 2) else "return 0; "),
                                     "class %s { %s}\n" % (nm, self.g_decls(rng, st, rng.range(1, 3))),
                                     "%s %s(int a);\n" % (rng.choice(["int", "void"]), nm),
                                     "void u%d(int %s) { int q; { int %s; } q = function(int %s) { return %s; }; }\n" % (rng.below(100), nm, nm, nm, nm),
                                     "mixed w%d() { return %s; }\n" % (rng.below(100), rng.choice([nm, "(: %s :)" % nm, "%s()" % nm, "new(class %s)" % nm]))])
                parts += decls[:rng.range(2, len(decls))]
        for fi in range(rng.weighted([(1, 5), (2, 3), (4, 2), (8, 1)]) if kind in ("fn", "deep", "ns") else 1 if kind != "big" else 0):
            st["names"] = []
            head = "%s %sfn%d(%s)" % (rng.choice(["int", "void", "mixed", "", "varargs int", "private string", "static mixed *"]),
                                     "", fi, self.g_args(rng, st))
            parts.append(head + (" { " + self.g_block(rng, st, 0) + "}\n" if rng.chance(9, 10) else ";\n"))
        if rng.chance(1, 8):
            parts.insert(0, "class k%d { %s }\n" % (rng.below(3), self.g_decls(rng, st, self.g_count(rng))))
        if rng.chance(1, 10):
            parts.insert(0, rng.choice(["#pragma strict_types\n", "#pragma warnings\n", "inherit \"/c10/obj\";\n", "inherit \"/c02/none\";\n"]))
        text = "".join(parts)
        # truncation / stray byte: error at any point
        if rng.chance(1, 4) and text:
            text = text[:rng.below(len(text))]
        if rng.chance(1, 8) and text:
            i = rng.below(len(text))
            text = text[:i] + rng.choice(["+", ")", "}", "{", "(", "\"", "@", "#", ";", "function(", "\x00", "\xff"]) + text[i:]
        second = None
        if rng.chance(1, 5):
            second = rng.choice(["int probe2() { return time() + sizeof(({ })) + vsimul_marker(); }\n",
                                 "mixed p3() { return write; }\n", "mixed p4() { return ({ (: write :), (: time :), (: vsimul_marker :) }); }\n"])
        if not files and second is None and rng.chance(1, 12):
            return mkcase(cid, text, kind="grammar-" + kind + "-pretext", pretext=True)
        return mkcase(cid, text, files, second=second, kind="grammar-" + kind)

    def generate(self, rng, n, tier):
        out = []
        for i in range(n):
            k = rng.weighted([("bytes", 2), ("tok", 4), ("gram", 9), ("emit", 1)])
            cid = "g%d" % i
            if k == "emit":
                # an item of a random kind close to a code block boundary (4096, 8192, 16384)
                kind, stmt = rng.choice(self.EMIT_KINDS)
                bnd = rng.weighted([(4096, 4), (8192, 2), (16384, 1)])
                out.append(self.emit_case(cid, stmt, (bnd - 48) // 4 - (bnd // 400), rng.below(64), "generated", "emit-%d" % bnd))
            elif k == "bytes":
                out.append(self.gen_bytes(rng, cid))
            elif k == "tok":
                out.append(self.gen_tokmut(rng, cid))
            else:
                out.append(self.gen_grammar(rng, cid))
        return out

    def mutate_around(self, case, rng, n):
        return [self.gen_grammar(rng, "m%d" % i) for i in range(n)]

    def histogram(self, cases, impl):
        h = {"result": {}, "kind": {}, "events": {}, "max_literal_depth": 0, "max_include_depth": 0, "max_locals_name_cursor": 0,
             "reallocs": 0, "mem_block_doublings": 0, "local_full": 0, "fnctx_full": 0, "inc_refused": 0, "truncated_traces": 0,
             "cases_with_abandoned_literal": 0}
        for c in cases:
            k = c.meta.get("kind") or c.meta.get("origin", "?")
            h["kind"][k] = h["kind"].get(k, 0) + 1
            depth = 0
            enters = leaves = 0
            for l in impl.get(c.id, []):
                t = l.split()
                if not t:
                    continue
                if t[0] == "result":
                    r = " ".join(t[1:2])
                    h["result"][r] = h["result"].get(r, 0) + 1
                elif t[0] == "ev-truncated":
                    h["truncated_traces"] += 1
                elif t[0] == "ev" and len(t) >= 4:
                    nm = t[1]
                    h["events"][nm] = h["events"].get(nm, 0) + 1
                    try:
                        cur, size = int(t[2]), int(t[3])
                    except ValueError:
                        continue
                    if nm == "fnctx.push":
                        h["max_literal_depth"] = max(h["max_literal_depth"], cur)
                    elif nm == "inc.push":
                        h["max_include_depth"] = max(h["max_include_depth"], cur)
                    elif nm == "local.name":
                        h["max_locals_name_cursor"] = max(h["max_locals_name_cursor"], cur)
                    elif nm == "locals.realloc.type":
                        h["reallocs"] += 1
                    elif nm == "mem.alloc" and size > 4096:
                        h["mem_block_doublings"] += 1
                    elif nm == "local.full":
                        h["local_full"] += 1
                    elif nm == "fnctx.full":
                        h["fnctx_full"] += 1
                    elif nm == "inc.refused":
                        h["inc_refused"] += 1
                    elif nm == "literal.enter.name":
                        enters += 1
                    elif nm == "literal.leave.name":
                        leaves += 1
            if enters > leaves:
                h["cases_with_abandoned_literal"] += 1
        return h


PROP = C02()
