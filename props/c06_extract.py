"""Translator part for C06: the comparison expressions that decide "this string block has a single owner, modify it in
place" are regenerated from the source on every run.

  EXTEND_SVALUE_STRING, SVALUE_STRING_JOIN (src/interpret.h)   the `if (...)` in front of extend_string()
  unlink_string_svalue (src/stralloc.c)                         the `if (...)` of `case STRING_MALLOC:` that makes a copy

The macro bodies are expanded with `gcc -E` (the repository's own flags), the condition is cut out, `MSTR_REF(...)`
(after expansion `(((malloc_block_t *)(...)) - 1)->ref`) becomes the variable `r`, `(..)->subtype == STRING_MALLOC`
becomes the variable `m`, and what is left must be an expression over  r, m, integer literals, == != < <= > >= && || !
and parentheses; it is emitted as a Lean `Bool` expression.  Anything else is a broken tie.
"""
import os
import re

from nvlib import engine as E
from nvlib.extract import TieBroken


def _cpp(bdir, text):
    os.makedirs(os.path.join(E.WORK, "extract"), exist_ok=True)
    src = os.path.join(E.WORK, "extract", "c06-macro-%d.c" % os.getpid())
    with open(src, "w") as f:
        f.write(text)
    p = E.run(["gcc", "-E", "-P", "-DHAVE_CONFIG_H", "-D_GNU_SOURCE", "-D" + E.GUARD, "-w"] + E.include_flags(bdir) + [src])
    os.unlink(src)
    if p.returncode != 0:
        raise TieBroken("macro:cpp", "gcc -E failed on the string macros: " + p.stderr[-800:])
    return p.stdout


def _balanced(s, i):
    """s[i] == '(' -> index after the matching ')'"""
    d = 0
    for j in range(i, len(s)):
        if s[j] == "(":
            d += 1
        elif s[j] == ")":
            d -= 1
            if d == 0:
                return j + 1
    raise TieBroken("macro:parse", "unbalanced parentheses")


def _first_if(body, site):
    m = re.search(r"\bif\s*\(", body)
    if not m:
        raise TieBroken(site, "no if (...) found in " + site)
    a = m.end() - 1
    b = _balanced(body, a)
    return body[a + 1:b - 1]


class _P:
    """recursive descent: C condition -> Lean Bool expression over r (Nat) and m (Bool)"""

    def __init__(self, toks, site):
        self.t, self.i, self.site = toks, 0, site

    def peek(self):
        return self.t[self.i] if self.i < len(self.t) else None

    def eat(self, x=None):
        tok = self.peek()
        if tok is None or (x is not None and tok != x):
            raise TieBroken(self.site, "condition of %s leaves the grammar at token %r (expected %r): %s" % (self.site, tok, x, " ".join(self.t)))
        self.i += 1
        return tok

    def expr(self):
        l = self.andx()
        while self.peek() == "||":
            self.eat()
            l = "(%s || %s)" % (l, self.andx())
        return l

    def andx(self):
        l = self.unary()
        while self.peek() == "&&":
            self.eat()
            l = "(%s && %s)" % (l, self.unary())
        return l

    def unary(self):
        if self.peek() == "!":
            self.eat()
            return "(!%s)" % self.unary()
        if self.peek() == "(":
            # either a parenthesised boolean expression or a parenthesised arithmetic atom followed by a comparison
            save = self.i
            self.eat("(")
            try:
                e = self.expr()
                self.eat(")")
                if self.peek() not in ("==", "!=", "<", "<=", ">", ">="):
                    return e
            except TieBroken:
                pass
            self.i = save
        return self.cmp()

    def atom(self):
        tok = self.eat()
        if tok == "(":
            a = self.atom()
            self.eat(")")
            return a
        if tok in ("r", "m"):
            return tok
        if re.fullmatch(r"\d+", tok):
            return tok
        raise TieBroken(self.site, "condition of %s leaves the grammar at %r: %s" % (self.site, tok, " ".join(self.t)))

    def cmp(self):
        a = self.atom()
        op = self.peek()
        if op in ("==", "!=", "<", "<=", ">", ">="):
            self.eat()
            b = self.atom()
            if a == "m" or b == "m":
                raise TieBroken(self.site, "comparison of the subtype flag")
            lean = {"==": "==", "!=": "!=", "<": "<", "<=": "≤", ">": ">", ">=": "≥"}[op]
            if lean in ("==", "!="):
                return "(%s %s %s)" % (a, lean, b)
            return "(decide (%s %s %s))" % (a, lean, b)
        if a == "m":
            return "m"
        if a == "r":
            return "(r != 0)"          # C truth value of the counter
        raise TieBroken(self.site, "bare literal in a condition")


def _to_lean(cond, site):
    c = cond
    # MSTR_REF(x) after expansion
    c = re.sub(r"\(\(\(\s*malloc_block_t\s*\*\s*\)\s*\((?:[^()]|\([^()]*\))*\)\s*\)\s*-\s*1\s*\)\s*->\s*ref", " r ", c)
    # subtype test
    c = re.sub(r"\(\s*\w+\s*\)\s*->\s*subtype\s*==\s*(?:0x1|1)\b", " m ", c)
    c = re.sub(r"\b\w+\s*->\s*subtype\s*==\s*(?:0x1|1)\b", " m ", c)
    toks = re.findall(r"&&|\|\||==|!=|<=|>=|[()!<>]|\w+", c)
    if re.sub(r"\s+", "", "".join(toks)) != re.sub(r"\s+", "", c):
        raise TieBroken(site, "condition of %s contains something outside the grammar: %s" % (site, cond.strip()))
    p = _P(toks, site)
    e = p.expr()
    if p.peek() is not None:
        raise TieBroken(site, "trailing tokens in the condition of %s: %s" % (site, cond.strip()))
    return e


def generate(bdir):
    """returns (lean text, info dict)"""
    info = {}
    out = ["", "/-! ### in-place decisions of the string primitives, regenerated from the macro bodies / function text",
           "    r = the counter of the block (MSTR_REF), m = the svalue's subtype is STRING_MALLOC -/"]
    exp = _cpp(bdir, '#include <config.h>\n#include "src/std.h"\n#include "src/interpret.h"\n#include "src/stralloc.h"\n'
               "@@EXT@@ EXTEND_SVALUE_STRING(X, Y, Z) @@END@@\n@@JOIN@@ SVALUE_STRING_JOIN(X, Y, Z) @@END@@\n")
    for tag, name, doc in (("EXT", "extendInPlace", "EXTEND_SVALUE_STRING: extend_string() on the block itself"),
                           ("JOIN", "joinInPlace", "SVALUE_STRING_JOIN: extend_string() on the block of the left operand")):
        m = re.search(r"@@%s@@(.*?)@@END@@" % tag, exp, flags=re.S)
        if not m:
            raise TieBroken("macro:" + tag, "macro expansion not found")
        body = m.group(1)
        # skip the length check (CHECK_STRING_JOIN_LENGTH has its own `if`): the decision is the `if` that guards extend_string
        k = body.find("extend_string")
        if k < 0:
            raise TieBroken("macro:" + tag, "extend_string() no longer called by the macro")
        head = body[:k]
        j = [x.start() for x in re.finditer(r"\bif\s*\(", head)]
        if not j:
            raise TieBroken("macro:" + tag, "no condition in front of extend_string()")
        cond = _first_if(head[j[-1]:], "macro:" + tag)
        lean = _to_lean(cond, "macro:" + tag)
        info[name] = {"c": " ".join(cond.split()), "lean": lean}
        out.append("/-- %s.  C: `%s` -/\ndef %s (m : Bool) (r : Nat) : Bool := %s" % (doc, " ".join(cond.split()).replace("-/", "- /"), name, lean))
    # unlink_string_svalue
    src = open(os.path.join(E.REPO, "src/stralloc.c")).read()
    m = re.search(r"void\s+unlink_string_svalue\s*\(.*?\{(.*?)\n\}", src, flags=re.S)
    if not m:
        raise TieBroken("fn:unlink_string_svalue", "function not found")
    body = m.group(1)
    k = body.find("case STRING_MALLOC")
    k2 = body.find("break", k)
    if k < 0 or k2 < 0:
        raise TieBroken("fn:unlink_string_svalue", "case STRING_MALLOC not found")
    seg = body[k:k2]
    if "int_string_unlink" not in seg:
        raise TieBroken("fn:unlink_string_svalue", "the STRING_MALLOC case no longer calls int_string_unlink()")
    cond = _first_if(seg, "fn:unlink_string_svalue")
    exp2 = _cpp(bdir, '#include <config.h>\n#include "src/std.h"\n#include "src/interpret.h"\n#include "src/stralloc.h"\n@@U@@ %s @@END@@\n' % cond)
    cond2 = re.search(r"@@U@@(.*?)@@END@@", exp2, flags=re.S).group(1)
    cond2 = re.sub(r"\bs\s*->\s*u\s*\.\s*string", "X", cond2)
    lean = _to_lean(cond2, "fn:unlink_string_svalue")
    info["unlinkCopies"] = {"c": " ".join(cond.split()), "lean": lean}
    out.append("/-- unlink_string_svalue, case STRING_MALLOC: the block is copied (int_string_unlink) before it is written to; otherwise it is written in place.  C: `%s` -/\ndef unlinkCopies (r : Nat) : Bool := %s" % (" ".join(cond.split()), lean))
    # ---- the counter updates themselves ---------------------------------------------------------------------
    exp3 = _cpp(bdir, '#include <config.h>\n#include "src/std.h"\n#include "src/stralloc.h"\n'
                "@@INC@@ INC_COUNTED_REF(X) @@END@@\n@@DEC@@ DEC_COUNTED_REF(X) @@END@@\n")
    norm = lambda c: re.sub(r"\(\(\(\s*malloc_block_t\s*\*\s*\)\s*\((?:[^()]|\([^()]*\))*\)\s*\)\s*-\s*1\s*\)\s*->\s*ref", " r ", c)
    inc = " ".join(norm(re.search(r"@@INC@@(.*?)@@END@@", exp3, flags=re.S).group(1)).split())
    m = re.fullmatch(r"if \((.*)\) \(? ?r ?\)? ?\+\+ ?;?", inc)
    if not m:
        raise TieBroken("macro:INC_COUNTED_REF", "INC_COUNTED_REF is no longer `if (<cond>) ref++;`: " + inc)
    cond = _to_lean(m.group(1), "macro:INC_COUNTED_REF")
    info["strInc"] = {"c": inc, "lean": cond}
    out.append("/-- INC_COUNTED_REF.  C: `%s` -/\ndef strInc (r : Nat) : Nat := if %s then (r + 1) %% 2 ^ strRefBits else r" % (inc, cond))
    dec = " ".join(norm(re.search(r"@@DEC@@(.*?)@@END@@", exp3, flags=re.S).group(1)).split())
    m = re.fullmatch(r"\( ?! ?\( ?(.*?) ?\|\| ?-- ?\(? ?r ?\)? ?(==|!=|<=|>=|<|>) ?(\d+) ?\) ?\)", dec)
    if not m:
        raise TieBroken("macro:DEC_COUNTED_REF", "DEC_COUNTED_REF is no longer `!(<cond> || --ref <op> <n>)`: " + dec)
    keep = _to_lean(m.group(1), "macro:DEC_COUNTED_REF")
    after = _to_lean("r %s %s" % (m.group(2), m.group(3)), "macro:DEC_COUNTED_REF").replace("r", "r'")
    info["strDec"] = {"c": dec, "lean": "!(%s || --r: %s)" % (keep, after)}
    out.append("/-- DEC_COUNTED_REF: new counter and \"deallocate\".  C: `%s` -/\ndef strDec (r : Nat) : Nat × Bool :=\n"
               "  if %s then (r, false) else\n  let r' := (r + 2 ^ strRefBits - 1) %% 2 ^ strRefBits\n  (r', !%s)" % (dec, keep, after))
    # free_svalue / assign_svalue_no_free of lib/lpc/svalue.c
    sv = open(os.path.join(E.REPO, "lib/lpc/svalue.c")).read()
    m = re.search(r"void\s+free_svalue\s*\(.*?\n\}", sv, flags=re.S)
    if not m:
        raise TieBroken("fn:free_svalue", "free_svalue not found")
    body = m.group(0)
    k = body.find("T_REFED")
    m2 = re.search(r"if\s*\(\s*(!\s*\(\s*--\s*v->u\.refed->ref\s*\))\s*\)", body[k:]) if k >= 0 else None
    if not m2:
        raise TieBroken("fn:free_svalue", "the T_REFED branch of free_svalue is no longer `if (!(--v->u.refed->ref))`")
    info["refedDec"] = {"c": " ".join(m2.group(1).split())}
    out.append("/-- free_svalue, T_REFED branch.  C: `if (%s)` : decrement, deallocate when the result is 0 -/\n"
               "def refedDec (r : Nat) : Nat × Bool :=\n  let r' := (r + 2 ^ refBits - 1) %% 2 ^ refBits\n  (r', !(r' != 0))" % " ".join(m2.group(1).split()))
    m = re.search(r"void\s+assign_svalue_no_free\s*\(.*?\n\}", sv, flags=re.S)
    if not m:
        raise TieBroken("fn:assign_svalue_no_free", "assign_svalue_no_free not found")
    body = " ".join(m.group(0).split())
    if not re.search(r"else if \(from->type & T_REFED\) \{ from->u\.refed->ref\+\+; \}", body):
        raise TieBroken("fn:assign_svalue_no_free", "the T_REFED branch of assign_svalue_no_free is no longer the unconditional `from->u.refed->ref++;`")
    if not re.search(r"\*to = \*from;", body):
        raise TieBroken("fn:assign_svalue_no_free", "`*to = *from;` missing")
    info["refedInc"] = {"c": "else if (from->type & T_REFED) { from->u.refed->ref++; }"}
    out.append("/-- assign_svalue_no_free, T_REFED branch: the unconditional `from->u.refed->ref++;` (checked textually) -/\n"
               "def refedInc (r : Nat) : Nat := (r + 1) % 2 ^ refBits")
    sa = re.search(r"void\s+assign_svalue\s*\(.*?\n\}", sv, flags=re.S)
    if not sa or not re.search(r"free_svalue \(dest, [^)]*\); assign_svalue_no_free \(dest, v\);", " ".join(sa.group(0).split())):
        raise TieBroken("fn:assign_svalue", "assign_svalue is no longer `free_svalue(dest); assign_svalue_no_free(dest, v);` in this order")
    _programs(out, info)
    _array_stats(out, info)
    _func_ref_sites(out, info)
    return "\n".join(out) + "\n", info


def _fn(path, name, site):
    src = open(os.path.join(E.REPO, path)).read()
    m = re.search(r"\n[\w \*]*\b%s\s*\([^;{]*\)\s*\{(.*?)\n\}" % re.escape(name), src, flags=re.S)
    if not m:
        raise TieBroken(site, "%s not found in %s" % (name, path))
    return " ".join(re.sub(r"/\*.*?\*/", " ", m.group(1), flags=re.S).split())


_CMP = {"==": "==", "!=": "!=", "<": "<", "<=": "≤", ">": ">", ">=": "≥"}


def _cmp_lean(var, op, num):
    if op in ("==", "!="):
        return "(%s %s %s)" % (var, _CMP[op], num)
    return "(decide (%s %s %s))" % (var, _CMP[op], num)


def _programs(out, info):
    """program_t.ref: reference_prog / free_prog (lib/lpc/program.c) and the places that hold a program reference"""
    out.append("\n/-! ### program_t.ref: reference_prog / free_prog of lib/lpc/program.c, regenerated from the function text -/")
    rp = _fn("lib/lpc/program.c", "reference_prog", "fn:reference_prog")
    stm = [x.strip() for x in rp.split(";") if x.strip() and not x.strip().startswith("(void)")]
    if stm != ["progp->ref++"]:
        raise TieBroken("fn:reference_prog", "reference_prog is no longer the unconditional `progp->ref++;`: " + rp)
    info["progInc"] = {"c": "progp->ref++;"}
    out.append("/-- reference_prog.  C: `progp->ref++;` (the only statement; checked textually) -/\n"
               "def progInc (r : Nat) : Nat := (r + 1) % 2 ^ progRefBits")
    fp = _fn("lib/lpc/program.c", "free_prog", "fn:free_prog")
    m = re.match(r"progp->ref-- ?; if \(progp->ref (==|!=|<=|>=|<|>) (\d+)\) return ?; if \(progp->func_ref (==|!=|<=|>=|<|>) (\d+)\) return ?; "
                 r"if \(free_sub_strings\) deallocate_program \(progp\) ?;", fp)
    if not m:
        raise TieBroken("fn:free_prog", "free_prog is no longer `ref--; if (ref <op> n) return; if (func_ref <op> n) return; "
                        "if (free_sub_strings) deallocate_program (progp); ...`: " + fp[:200])
    keep = _cmp_lean("r'", m.group(1), m.group(2))
    fkeep = _cmp_lean("f", m.group(3), m.group(4))
    info["progDec"] = {"c": "progp->ref--; if (progp->ref %s %s) return; if (progp->func_ref %s %s) return;" % m.groups()}
    out.append("/-- free_prog: new counter and \"deallocate\" (f = func_ref).  C: `%s` -/\n"
               "def progDec (r f : Nat) : Nat × Bool :=\n  let r' := (r + 2 ^ progRefBits - 1) %% 2 ^ progRefBits\n  (r', !%s && !%s)"
               % (info["progDec"]["c"], keep, fkeep))
    # who holds a program reference: clone_object, dealloc_object, the inherit table (epilog / load_binary / deallocate_program)
    checks = [
        ("src/simulate.c", "clone_object", r"new_ob->prog = ob->prog;.*reference_prog \(ob->prog\b",
         "clone_object no longer does `new_ob = get_empty_object(..); ... new_ob->prog = ob->prog; reference_prog (ob->prog, ..);`"),
        ("lib/lpc/object.c", "dealloc_object", r"free_prog \(ob->prog, 1\);",
         "dealloc_object no longer releases the program with `free_prog (ob->prog, 1); ob->prog = 0;`"),
        ("lib/lpc/program.c", "deallocate_program", r"for \([^;]*; i < \(int\) progp->num_inherited; i\+\+\) \{? ?free_prog \(progp->inherit\[i\]\.prog, 1\);",
         "deallocate_program no longer releases every inherited program once"),
        ("lib/lpc/compiler.c", "epilog", r"reference_prog \(prog, [^)]*\);.*for \([^;]*; [^;]*i < prog->num_inherited; i\+\+\) \{? ?reference_prog \(prog->inherit\[i\]\.prog, [^)]*\);",
         "epilog no longer references the new program and every inherited program once"),
    ]
    checks += [
        # replace_programs(): which variables are moved, which are released, and the program switch
        ("lib/efuns/replace_program.c", "replace_programs",
         r"num_fewer = r_ob->ob->prog->num_variables_total - r_ob->new_prog->num_variables_total;.*"
         r"if \(\(offset = r_ob->var_offset\)\) \{ svp = r_ob->ob->variables; "
         r"for \(i = 0; i < r_ob->new_prog->num_variables_total; i\+\+\) \{ free_svalue \(svp, [^)]*\); \*svp = \*\(svp \+ offset\); \*\(svp \+ offset\) = const0u; svp\+\+; \} "
         r"for \(i = 0; i < num_fewer; i\+\+\) \{ free_svalue \(svp, [^)]*\); \*svp\+\+ = const0u; \} \} "
         r"else \{ svp = &r_ob->ob->variables\[r_ob->new_prog->num_variables_total\]; "
         r"for \(i = 0; i < num_fewer; i\+\+\) \{ free_svalue \(svp, [^)]*\); \*svp\+\+ = const0u; \} \} "
         r"r_ob->new_prog->ref\+\+; old_prog = r_ob->ob->prog; r_ob->ob->prog = r_ob->new_prog; r_next = r_ob->next; free_prog \(old_prog, 1\);",
         "replace_programs no longer moves the kept variables to the front, releases EVERY other variable "
         "(num_fewer slots behind them) and switches the program with `new_prog->ref++; ...; free_prog (old_prog, 1);`"),
        ("src/simulate.c", "remove_destructed_objects",
         r"replace_programs \(\);.*destruct2 \(ob\);",
         "remove_destructed_objects no longer runs replace_programs() before destruct2() of every destructed object"),
        # order of the calls of one sweep: a new call goes in front of the calls due at the same time
        ("lib/efuns/call_out.c", "new_call_out",
         r"if \(\(\*copp\)->delta >= delay\) \{.*cop->next = \*copp; \*copp = cop;",
         "new_call_out no longer inserts a call in front of the calls that are due at the same time (order of one sweep)"),
        ("src/stack.c", "remove_object_from_stack",
         r"for \(svp = start_of_stack; svp <= sp; svp\+\+\).*free_object \(svp->u\.ob, [^)]*\);",
         "remove_object_from_stack no longer releases and zeroes every slot of the whole value stack that holds the object"),
        # assignment to an array range lvalue, statement form: move (counter 1) / copy (shared), release of the replaced elements
        ("src/interpret.c", "copy_lvalue_range",
         r"if \(\(fsize = fv->size\) == ind2 - ind1\) \{ dptr = \(owner->u\.arr\)->item \+ ind1; if \(fv->ref == 1\) \{ "
         r"while \(fsize--\) \{ free_svalue \(dptr, [^)]*\); \*dptr\+\+ = \*fptr\+\+; \} free_empty_array \(fv\); \} "
         r"else \{ while \(fsize--\) assign_svalue \(dptr\+\+, fptr\+\+\); fv->ref--; \} \} "
         r"else \{ array_t \*old_dv = owner->u\.arr; svalue_t \*old_dptr = old_dv->item; dv = allocate_empty_array \(size - ind2 \+ ind1 \+ fsize\); dptr = dv->item; "
         r"while \(ind1--\) assign_svalue_no_free \(dptr\+\+, old_dptr\+\+\); if \(fv->ref == 1\) \{ while \(fsize--\) \*dptr\+\+ = \*fptr\+\+; free_empty_array \(fv\); \} "
         r"else \{ while \(fsize--\) assign_svalue_no_free \(dptr\+\+, fptr\+\+\); fv->ref--; \} "
         r"old_dptr = old_dv->item \+ ind2; size -= ind2; while \(size--\) assign_svalue_no_free \(dptr\+\+, old_dptr\+\+\); free_array \(old_dv\); owner->u\.arr = dv; \}",
         "copy_lvalue_range (array case) no longer releases every replaced element and moves / copies the right-hand elements as modelled by rangeProg"),
        ("src/interpret.c", "assign_lvalue_range",
         r"if \(\(fsize = fv->size\) == ind2 - ind1\) \{ dptr = \(owner->u\.arr\)->item \+ ind1; while \(fsize--\) assign_svalue \(dptr\+\+, fptr\+\+\); \} "
         r"else \{ array_t \*old_dv = owner->u\.arr; svalue_t \*old_dptr = old_dv->item; dv = allocate_empty_array \(size - ind2 \+ ind1 \+ fsize\); dptr = dv->item; "
         r"while \(ind1--\) assign_svalue_no_free \(dptr\+\+, old_dptr\+\+\); while \(fsize--\) assign_svalue_no_free \(dptr\+\+, fptr\+\+\); "
         r"old_dptr = old_dv->item \+ ind2; size -= ind2; while \(size--\) assign_svalue_no_free \(dptr\+\+, old_dptr\+\+\); free_array \(old_dv\); owner->u\.arr = dv; \}",
         "assign_lvalue_range (array case) no longer copies element by element (counted) as modelled by rangeProg"),
    ]
    held = []
    for path, fn, pat, msg in checks:
        body = _fn(path, fn, "fn:" + fn)
        if not re.search(pat, body):
            raise TieBroken("fn:" + fn, msg)
        held.append(fn)
    info["progHolders"] = {"c": ", ".join(held)}
    out.append("/-- holders of a program reference checked textually: %s -/\ndef progHolderSites : Nat := %d" % (", ".join(held), len(held)))


def _array_stats(out, info):
    """num_arrays / total_array_size: the statements of allocate_array, allocate_empty_array, dealloc_array,
    free_empty_array; the size formula is translated into `arrBytesOf`"""
    out.append("\n/-! ### array statistics: the size formula of allocate_array, regenerated; the four sites checked textually -/")
    exprs = []
    for fn, sign, var in (("allocate_array", "+", "n"), ("allocate_empty_array", "+", "n"),
                          ("dealloc_array", "-", "p->size"), ("free_empty_array", "-", "p->size")):
        body = _fn("lib/lpc/array.c", fn, "fn:" + fn)
        m = re.search(r"num_arrays(\+\+|--) ?; total_array_size (\+|-)= ([^;]*);", body)
        if not m or m.group(1) != sign * 2 or m.group(2) != sign:
            raise TieBroken("fn:" + fn, "%s no longer does `num_arrays%s; total_array_size %s= <size>;`" % (fn, sign * 2, sign))
        if len(re.findall(r"num_arrays(?:\+\+|--)", body)) != 1 or len(re.findall(r"total_array_size [-+]=", body)) != 1:
            raise TieBroken("fn:" + fn, "%s updates the array statistics more than once" % fn)
        exprs.append(" ".join(m.group(3).replace(var, "n").split()))
    if len(set(exprs)) != 1:
        raise TieBroken("fn:allocate_array", "the four sites no longer use the same size formula: %s" % exprs)
    e = exprs[0]
    lean = e.replace("sizeof (array_t)", "(sizeofArrayT : Int)").replace("sizeof (svalue_t)", "(sizeofSvalue : Int)")
    lean = re.sub(r"\bn\b", "(n : Int)", lean)
    rest = lean.replace("(sizeofArrayT : Int)", "").replace("(sizeofSvalue : Int)", "").replace("(n : Int)", "")
    if re.sub(r"[\s\d+*()\-]", "", rest):
        raise TieBroken("fn:allocate_array", "size formula outside the grammar: " + e)
    info["arrBytesOf"] = {"c": e, "lean": lean}
    out.append("/-- bytes accounted for an array of n elements.  C (allocate_array, allocate_empty_array, dealloc_array, "
               "free_empty_array): `%s` -/\ndef arrBytesOf (n : Nat) : Int := %s" % (e, lean))


def _func_ref_sites(out, info):
    """func_ref: which program each increment / decrement site addresses (make_functional_funp, dealloc_funp, f_bind)"""
    out.append("\n/-! ### func_ref of programs: the program expression of every increment / decrement site, regenerated -/")
    mk = _fn("lib/lpc/functional.c", "make_functional_funp", "fn:make_functional_funp")
    inc = re.findall(r"([\w>.\-]+)->func_ref\+\+", mk)
    sto = re.findall(r"funptr->f\.functional\.prog = ([\w>.\-]+) ?;", mk)
    if len(inc) != 1 or len(sto) != 1:
        raise TieBroken("fn:make_functional_funp", "make_functional_funp no longer has exactly one `<prog>->func_ref++` and one "
                        "`funptr->f.functional.prog = <prog>;`: %s / %s" % (inc, sto))
    de = _fn("lib/lpc/operator.c", "dealloc_funp", "fn:dealloc_funp")
    dec = re.findall(r"([\w>.\-]+)->func_ref--", de)
    if len(dec) != 1:
        raise TieBroken("fn:dealloc_funp", "dealloc_funp no longer has exactly one `<prog>->func_ref--`: %s" % dec)
    bi = _fn("lib/lpc/operator.c", "f_bind", "fn:f_bind")
    binc = re.findall(r"([\w>.\-]+)->func_ref\+\+", bi)
    bcopy = re.search(r"new_fp->f\.functional = old_fp->f\.functional ?;", bi)
    if len(binc) != 1 or not bcopy:
        raise TieBroken("fn:f_bind", "f_bind no longer copies the functional part and counts the copy once on `<prog>->func_ref++`: %s" % binc)
    strip = lambda e: re.sub(r"^(funptr|new_fp)->", "", e)
    info["funcRef"] = {"inc": inc[0], "stored": sto[0], "dec": dec[0], "bind": binc[0]}
    out.append("/-- make_functional_funp: the program whose func_ref is incremented.  C: `%s->func_ref++` -/\ndef funcRefIncProg : String := \"%s\"" % (inc[0], inc[0]))
    out.append("/-- make_functional_funp: the program stored in the pointer.  C: `funptr->f.functional.prog = %s;` -/\ndef funcRefStoredProg : String := \"%s\"" % (sto[0], sto[0]))
    out.append("/-- dealloc_funp: the program whose func_ref is decremented, relative to the pointer.  C: `%s->func_ref--` -/\ndef funcRefDecProg : String := \"%s\"" % (dec[0], strip(dec[0])))
    out.append("/-- f_bind: the program counted for the copy, relative to the new pointer.  C: `%s->func_ref++` -/\ndef funcRefBindProg : String := \"%s\"" % (binc[0], strip(binc[0])))
