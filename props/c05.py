"""C05 - after any LPC error the machine state is what it was before the failed call."""
import os

from nvlib import engine as E
from nvlib.check import Prop


class C05(Prop):
    id = "C05"
    title = "after any LPC error the machine state is as before the failed call"
    lean_modules = ["NV.C05.Props"]
    theorems = []
    consts = [("frameFunction", "FRAME_FUNCTION"), ("frameFunp", "FRAME_FUNP"), ("frameCatch", "FRAME_CATCH"),
              ("frameFake", "FRAME_FAKE"), ("frameMask", "FRAME_MASK"),
              ("esStackFull", "ES_STACK_FULL"), ("esMaxEvalCost", "ES_MAX_EVAL_COST"),
              ("originDriver", "ORIGIN_DRIVER"), ("originLocal", "ORIGIN_LOCAL"), ("originCallOther", "ORIGIN_CALL_OTHER"),
              ("originFunctionPointer", "ORIGIN_FUNCTION_POINTER"), ("originFunctional", "ORIGIN_FUNCTIONAL"),
              ("tErrorHandler", "T_ERROR_HANDLER")]
    const_headers = ["src/interpret.h", "lpc/types.h", "lpc/include/origin.h"]


PROP = C05()
