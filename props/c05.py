"""C05 - after any LPC error the machine state is what it was before the failed call.

Cases are generated LPC programs (written into the scratch mudlib by `src` lines) together with the abstract
op list of the evaluated function (`# ops ...`).  The harness runs the function fault-free, then once per
instruction k with a fault injected at k (hook H2) and prints the set of distinct outcomes and the set of distinct
control-stack shapes at the fault; the Lean model computes the same two sets from the op list alone.
"""
import os

from nvlib import engine as E
from nvlib.check import Prop

HEAD = ['#include "/include/vcommon.h"', 'string oid = "?";', 'int vsel; int mflag; GLOBALS',
        'void create () { seteuid (getuid ()); CREATE }',
        'void set_oid (string s) { oid = s; "/vreg"->reg (s, this_object ()); }',
        'void cb (string s) { VL ("cb " + s); }',
        'int add3 (int a, int b, int c) { return a + b + c; }']
DECL = "mixed e; object p0; mixed a; string s;"
# every prep(): a copy of the master left loaded by a reload whose create() failed is removed; the spare objects are refilled
MPREP = 'p0 = find_object ("/c05/master"); if (p0 && p0 != master ()) destruct (p0); master ()->refill (6);'

# entry points of the backend cycles (`injectbe`): the driver calls these itself
BE_WRAPPERS = ["void heart_beat () { run (); }", "void reset () { run (); }", "int clean_up (int inh) { run (); return 1; }"]
BE_OPS = {"cmd": "(becmd u1 t %s)", "hb": "(behb t %s)", "hbc": "(behbc t %s)", "reset": "(bereset t %s)", "cleanup": "(becleanup t %s)"}
# (hbc: the heart beat object has commands enabled, so call_heart_beat() makes it the command giver for its heart beat)
BE_PREP = {"cmd": "", "hb": "set_heart_beat (1);", "hbc": "set_heart_beat (1); enable_commands ();", "reset": "", "cleanup": ""}
BE_INJECT = {"cmd": "cmd", "hb": "hb", "hbc": "hb", "reset": "reset", "cleanup": "cleanup"}


class Builder:
    """builds one LPC program + its op list"""

    def __init__(self, rng, cid, budget, no_cg=False):
        self.no_cg = no_cg   # the evaluation runs without an interactive command_giver (heart beat, reset, clean_up)
        self.rng = rng
        self.cid = cid
        self.n = 0
        self.files = {"t": {"fns": [], "vname": [], "create": ""}}
        self.prep = []
        self.globals = []
        self.budget = budget
        self.kinds = {}
        self.in_rep = 0
        self.plain = 0           # > 0: only say / local call / catch / raise / throw nodes
        self.msg_used = False    # message() -> receive_message apply in t (one per program, fixed entry point)
        self.tell_used = False   # tell_object() -> catch_tell apply in t
        self.vital_used = False  # one destruct of a vital object per program (fixed entry point mcreate)
        self.verb_used = False  # one command verb per program (fixed entry point gobody)
        self.nf_used = False  # one notify_fail() callback per program (fixed entry point nfbody)
        self.in_safe = 0     # sprintf() refuses to run inside the object_name() master call
        # enable_commands() makes this_object() the command giver, after which input_to() is a no-op:
        # a program uses one of the two features
        self.use_setcg = rng.chance(1, 2)
        if no_cg:
            self.use_setcg = True    # no input_to (needs an interactive command_giver) ...

    def fresh(self):
        self.n += 1
        return self.n

    def count(self, k):
        self.kinds[k] = self.kinds.get(k, 0) + 1

    def fn(self, fctx, body, params="", ret="void", tail=""):
        i = self.fresh()
        name = "f%d" % i
        self.files[fctx]["fns"].append("%s %s (%s) { %s %s %s }" % (ret, name, params, DECL, " ".join(body), tail))
        return name

    def block(self, fctx, depth, n=None):
        """returns (statements, ops); stops after an op that always raises"""
        rng = self.rng
        stmts, ops = [], []
        if n is None:
            n = rng.range(1, 3)
        for _ in range(n):
            if self.budget <= 0:
                break
            self.budget -= 1
            dead = self.node(fctx, depth, stmts, ops)
            if dead:
                break
        return stmts, ops

    def sub(self, fctx, depth):
        if depth >= 4 or self.budget <= 0:
            i = self.fresh()
            return ['VL ("say s%d");' % i], ["(say s%d)" % i]
        return self.block(fctx, depth + 1)

    def node(self, fctx, depth, stmts, ops):
        rng = self.rng
        main = fctx == "t"
        kinds = [("say", 6), ("lcall", 5), ("tmpcall", 3), ("ocall", 4), ("surplus", 2), ("fplocal", 3), ("functional", 3),
                 ("efunp", 2), ("mapfp", 3), ("mapstr", 2), ("filterfp", 2), ("sortfp", 2), ("unique", 2), ("mapmap", 2), ("filtermap", 1), ("uniquemap", 2), ("mapstring", 2), ("implodefp", 2),
                 ("message", 2 if main and not self.msg_used and not self.no_cg else 0),
                 ("selfdestruct", 2 if main and not self.in_rep else 0),
                 ("nested", 4 if main and not self.in_rep else 0),
                 # (`...` spreads into varargs efuns; a spread into a local function needs a varargs declaration and is not generated)
                 # (sprintf() refuses to run inside the object_name() master call)
                 ("spreadefun", 2 if not self.in_safe else 0), ("spreadbad", 3 if not self.in_safe else 0),
                 ("catch", 7), ("raise", 3), ("throw", 2), ("safe", 3 if main and not self.in_safe else 0), ("setcg", 2 if main and self.use_setcg and not self.no_cg else 0),
                 ("install", 2 if main and not self.use_setcg else 0), ("installbad", 2 if main and not self.use_setcg else 0), ("load", 2 if main and not self.in_rep else 0),
                 ("clone", 2 if main else 0),
                 ("vitalmaster", 3 if main and not self.vital_used and not self.in_rep and not self.in_safe else 0),
                 ("vitalnoeuid", 2 if main and not self.in_rep else 0),
                 ("verbcmd", 3 if main and not self.no_cg and not self.verb_used and not self.in_rep else 0),
                 ("notifyfail", 3 if main and not self.no_cg and not self.nf_used and not self.in_rep else 0),
                 ("arity", 5), ("inithook", 3 if main and not self.in_rep else 0), ("dhook", 3 if main and not self.in_rep else 0)]
        if self.plain:
            kinds = [(n, w) for n, w in kinds if n in ("say", "lcall", "tmpcall", "catch", "raise", "throw")]
        k = rng.weighted(kinds)
        self.count(k)
        t = "t"
        if k == "say":
            i = self.fresh()
            stmts.append('VL ("say s%d");' % i)
            ops.append("(say s%d)" % i)
        elif k == "lcall":
            b, o = self.sub(fctx, depth)
            f = self.fn(fctx, b)
            stmts.append("%s ();" % f)
            ops.append("(call local %s 0 0 %s)" % (t, " ".join(o)))
        elif k == "tmpcall":
            b, o = self.sub(fctx, depth)
            f = self.fn(fctx, b, ret="int", tail="return 1;")
            stmts.append("add3 (1, 2, %s ());" % f)
            ops.append("(tmp 2 (call local %s 0 0 %s)) (call local %s 3 3)" % (t, " ".join(o), t))
        elif k == "ocall":
            b, o = self.sub(fctx, depth)
            f = self.fn(fctx, b)
            stmts.append("this_object ()->%s ();" % f)
            ops.append("(call other %s 0 0 %s)" % (t, " ".join(o)))
        elif k == "surplus":
            b, o = self.sub(fctx, depth)
            f = self.fn(fctx, b)
            stmts.append("this_object ()->%s (1, 2);" % f)
            ops.append("(call other %s 2 0 %s)" % (t, " ".join(o)))
        elif k == "fplocal":
            b, o = self.sub(fctx, depth)
            f = self.fn(fctx, b)
            stmts.append("evaluate ((: %s :));" % f)
            ops.append("(call fplocal %s 0 0 %s)" % (t, " ".join(o)))
        elif k == "functional":
            b, o = self.sub(fctx, depth)
            f = self.fn(fctx, b, ret="int", tail="return 1;")
            stmts.append("evaluate ((: %s () + $1 :), 1);" % f)
            ops.append("(call functional %s 1 1 (call local %s 0 0 %s))" % (t, t, " ".join(o)))
        elif k == "efunp":
            b, o = self.sub(fctx, depth)
            f = self.fn(fctx, b)
            stmts.append('evaluate ((: call_other, this_object (), "%s" :));' % f)
            ops.append("(call efunp %s 0 0 (call other %s 0 0 %s))" % (t, t, " ".join(o)))
        elif k in ("mapfp", "filterfp"):
            self.in_rep += 1
            b, o = self.sub(fctx, depth)
            self.in_rep -= 1
            f = self.fn(fctx, b, params="int x", ret="int", tail="return x;")
            stmts.append("a = %s (({ 1, 2 }), (: %s :));" % ("map" if k == "mapfp" else "filter", f))
            one = "(cb fplocal %s 1 1 %s)" % (t, " ".join(o))
            ops.append("(tmp 3 %s %s)" % (one, one))
        elif k == "mapstr":
            self.in_rep += 1
            b, o = self.sub(fctx, depth)
            self.in_rep -= 1
            f = self.fn(fctx, b, params="int x", ret="int", tail="return x;")
            stmts.append('a = map (({ 1, 2 }), "%s", this_object ());' % f)
            one = "(cb other %s 1 1 %s)" % (t, " ".join(o))
            ops.append("(tmp 4 %s %s)" % (one, one))
        elif k == "sortfp":
            b, o = self.sub(fctx, depth)
            f = self.fn(fctx, b, params="int x, int y", ret="int", tail="return x - y;")
            stmts.append("a = sort_array (({ 2, 1 }), (: %s :));" % f)
            one = "(cb fplocal %s 2 2 %s)" % (t, " ".join(o))
            ops.append("(tmp 2 %s)" % one)
        elif k == "unique":
            b, o = self.sub(fctx, depth)
            f = self.fn(fctx, b, params="object x", ret="int", tail="return 1;")
            stmts.append("a = unique_array (({ this_object () }), (: %s :));" % f)
            ops.append("(tmp 2 (handler %d (cb fplocal %s 1 1 %s)))" % (self.fresh(), t, " ".join(o)))
        elif k in ("mapmap", "filtermap"):
            # map / filter over a mapping (lib/lpc/mapping.c map_mapping / filter_mapping): callback (key, value)
            b, o = self.sub(fctx, depth)
            f = self.fn(fctx, b, params="int x, int y", ret="int", tail="return x;")
            stmts.append("a = %s (([ 1 : 2 ]), (: %s :));" % ("map" if k == "mapmap" else "filter", f))
            ops.append("(tmp 3 (cb fplocal %s 2 2 %s))" % (t, " ".join(o)))
        elif k == "mapstring":
            # map over a string (lib/lpc/array.c map_string): one callback per character, the working copy is a C local
            self.in_rep += 1
            b, o = self.sub(fctx, depth)
            self.in_rep -= 1
            f = self.fn(fctx, b, params="int x", ret="int", tail="return x;")
            stmts.append('s = map ("ab", (: %s :));' % f)
            one = "(cb fplocal %s 1 1 %s)" % (t, " ".join(o))
            ops.append("(tmp 3 %s %s)" % (one, one))
        elif k == "implodefp":
            # implode with a function (implode_array): f (accumulator, element), twice for three elements
            self.in_rep += 1
            b, o = self.sub(fctx, depth)
            self.in_rep -= 1
            f = self.fn(fctx, b, params="int x, int y", ret="int", tail="return x + y;")
            stmts.append("a = implode (({ 1, 2, 3 }), (: %s :));" % f)
            one = "(cb fplocal %s 2 2 %s)" % (t, " ".join(o))
            ops.append("(tmp 3 %s %s)" % (one, one))
        elif k == "message":
            # message() -> do_message -> apply receive_message in the interactive user, which calls the generated body
            self.msg_used = True
            b, o = self.sub(fctx, depth)
            f = self.fn(fctx, b)
            self.files[fctx]["fns"].append("void msgbody () { %s (); }" % f)
            stmts.append('message ("c", "hello", find_object ("/c05/user"));')
            ops.append("(tmp 3 (cb other u1 2 2 (call other %s 0 0 (call local %s 0 0 %s))))" % (t, t, " ".join(o)))
        elif k == "nested":
            # efun X whose callback runs efun Y; the inner one fails (generated body ending in an error), the outer callback
            # catches it and the outer efun goes on; its result is compared by value
            outer = rng.choice(sorted(NEST))
            inner = outer if rng.chance(1, 2) else rng.choice(["sort", "map", "uniquemap", "unique"])
            self.in_rep += 1
            self.plain += 1
            b, o = self.sub(fctx, depth)
            self.plain -= 1
            self.in_rep -= 1
            i = self.fresh()
            f = self.fn(fctx, b)
            st, op, fns, gl, pr = nested_efun(i, outer, inner, '%s (); error ("boom%d\\n");' % (f, i),
                                             "(call local %s 0 0 %s) (raise boom%d)" % (t, " ".join(o), i))
            self.files[fctx]["fns"] += fns
            self.globals += gl
            self.prep += pr
            stmts += st
            ops.append(op)
        elif k == "spreadefun":
            # a `...` spread into a varargs efun that completes: F_EXPAND_VARARGS adds to num_varargs, F_EFUNV consumes it
            i = self.fresh()
            stmts.append('a = ({ 1, 2 }); VL ("say s%d-" + sprintf ("%%d%%d", a...));' % i)
            ops.append("(spread 2) (consume) (say s%d-12)" % i)
        elif k == "spreadbad":
            # … into a varargs efun whose FIXED argument fails the type check (raised by the instruction itself, after the
            # spread has been counted): the count must not survive the error
            which = rng.choice(["call_other", "sprintf"])
            if which == "call_other":
                stmts.append('a = ({ 1, 2, 3 }); call_other (0, "nofn", a...);')
                ops.append("(spread 3) (consume) (craise Bad argument 1 to call_other<>, Expected: string or array or object Got: 0.)")
            else:
                stmts.append('a = ({ 1, 2, 3 }); s = sprintf (0, a...);')
                ops.append("(spread 3) (consume) (craise Bad argument 1 to sprintf<>, Expected: string Got: 0.)")
            return True
        elif k == "selfdestruct":
            # an object destructs itself and goes on executing: the frames that are unwound (or returned through) belong to a
            # destructed object
            i = self.fresh()
            name = "S%d" % i
            self.files[name] = {"fns": [], "vname": [], "create": "", "extra": []}
            self.plain += 1      # (function pointers of a destructed owner are refused by the driver: plain calls only)
            b, o = self.sub(name, depth)
            self.plain -= 1
            f = self.fn(name, b)
            path = "/c05/gen/%s" % name
            self.files[name]["extra"] = ["void go () { destruct (this_object ()); %s (); }" % f]
            self.prep.append('if (p0 = find_object ("%s")) destruct (p0); load_object ("%s");' % (path, path))
            stmts.append('"%s"->go ();' % path)
            ops.append("(call other %s 0 0 (call local %s 0 0 %s))" % (t, t, " ".join(o)))
        elif k == "uniquemap":
            # unique_mapping (lib/lpc/mapping.c): T_ERROR_HANDLER slot held across the callback
            b, o = self.sub(fctx, depth)
            f = self.fn(fctx, b, params="int x", ret="int", tail="return 1;")
            stmts.append("a = unique_mapping (({ 7 }), (: %s :));" % f)
            ops.append("(tmp 2 (handler %d (cb fplocal %s 1 1 %s)))" % (self.fresh(), t, " ".join(o)))
        elif k == "catch":
            b, o = self.sub(fctx, depth)
            f = self.fn(fctx, b)
            stmts.append('p0 = this_player (); e = catch (%s ()); VL ("catch " + e + (e && this_player () != p0 ? " cg-changed" : ""));' % f)
            ops.append("(catch (call local %s 0 0 %s)) (saycatch)" % (t, " ".join(o)))
        elif k == "raise":
            i = self.fresh()
            stmts.append('error ("boom%d\\n");' % i)
            ops.append("(raise boom%d)" % i)
            return True
        elif k == "throw":
            i = self.fresh()
            stmts.append('throw ("t%d");' % i)
            ops.append("(throw t%d)" % i)
            return True
        elif k == "safe":
            self.in_safe += 1
            b, o = self.sub(fctx, depth)
            self.in_safe -= 1
            f = self.fn(fctx, b)
            i = self.fresh()
            self.files[fctx]["vname"].append("if (vsel == %d) %s ();" % (i, f))
            stmts.append('vsel = %d; s = sprintf ("%%O", this_object ());' % i)
            ops.append("(tmp 1 (safe 1 1 (call other %s 0 0 (call local %s 0 0 %s))))" % (t, t, " ".join(o)))
        elif k == "setcg":
            stmts.append('VL ("say set-cg"); enable_commands ();')
            ops.append("(say set-cg) (setreg cg t)")
        elif k == "install":
            stmts.append('VL ("say did-input_to"); input_to ("cb");')
            ops.append("(say did-input_to) (install input_to ok)")
        elif k == "installbad":
            stmts.append('input_to ("no_such_fn");')
            ops.append("(install input_to bad)")
            return True
        elif k in ("load", "clone"):
            i = self.fresh()
            name = "%s%d" % ("L" if k == "load" else "K", i)
            self.files[name] = {"fns": [], "vname": [], "create": ""}
            b, o = self.sub(name, depth)
            f = self.fn(name, b)
            path = "/c05/gen/%s" % name
            if k == "load":
                self.files[name]["create"] = "%s ();" % f
                self.prep.append('if (p0 = find_object ("%s")) destruct (p0);' % path)
                stmts.append('load_object ("%s");' % path)
            else:
                self.files[name]["create"] = "if (clonep ()) %s ();" % f
                self.prep.append('foreach (p0 in children ("%s")) if (clonep (p0)) destruct (p0);' % path)
                self.prep.append('load_object ("%s");' % path)
                stmts.append('new ("%s");' % path)
            ops.append("(tmp 1 (load (call other %s 0 0 (call local %s 0 0 %s))))" % (t, t, " ".join(o)))
        elif k == "arity":
            # surplus / missing arguments through call_other and through a function pointer; callee with 0 or 4 locals
            passed, declared = rng.range(0, 3), rng.range(0, 3)
            b, o = self.sub(fctx, depth)
            few = rng.chance(1, 2)
            params = ", ".join("int a%d" % j for j in range(declared))
            if few:
                # a callee without locals that only calls on: the value stack is as low as it can be
                inner = self.fn(fctx, b)
                i = self.fresh()
                name = "f%d" % i
                self.files[fctx]["fns"].append("void %s (%s) { %s (); }" % (name, params, inner))
                body_ops = "(call local %s 0 0 %s)" % (t, " ".join(o))
            else:
                name = self.fn(fctx, b, params=params)
                body_ops = "(tmp 4 %s)" % " ".join(o)
            args = ", ".join(str(j + 1) for j in range(passed))
            if rng.chance(1, 2):
                stmts.append("this_object ()->%s (%s);" % (name, args))
                ops.append("(call other %s %d %d %s)" % (t, passed, declared, body_ops))
            else:
                stmts.append("evaluate ((: %s :)%s);" % (name, (", " + args) if args else ""))
                ops.append("(call fplocal %s %d %d %s)" % (t, passed, declared, body_ops))
        elif k == "vitalmaster":
            # destruct(master()): destruct_object() pushes the fix_object_names error-handler slot, records both vital names,
            # blanks the master's name and reloads the master file; create() of the new copy runs a generated body
            self.vital_used = True
            b, o = self.sub(fctx, depth)
            f = self.fn(fctx, b)
            self.files[fctx]["fns"].append("void mcreate () { if (mflag) { mflag = 0; %s (); } }" % f)
            stmts.append("mflag = 1; destruct (master ());")
            ops.append("(tmp 1 (vital master (load (call other master 0 0 (call other %s 0 0 (call local %s 0 0 %s)))) (call other master 0 0)))"
                       % (t, t, " ".join(o)))
        elif k == "vitalnoeuid":
            # destruct of a vital object asked for by an object without an effective uid: the reload is refused with an
            # error raised by load_object() while the slot is on the stack and the name is blank
            i = self.fresh()
            name = "V%d" % i
            which = rng.choice(["master", "simul"])
            self.files[name] = {"fns": [], "vname": [], "create": "", "extra": [
                "void go () { destruct (%s); }" % ("master ()" if which == "master" else 'find_object ("/simul_efun")')]}
            path = "/c05/gen/%s" % name
            self.prep.append('if (p0 = find_object ("%s")) destruct (p0); load_object ("%s");' % (path, path))
            stmts.append('"%s"->go ();' % path)
            # (this driver refuses to destruct the simul_efun object while a master exists, before anything is touched)
            ops.append(("(call other %s 0 0 (tmp 1 (vital master (craise *Can't load objects when no effective user.))))" % t) if which == "master"
                       else ("(call other %s 0 0 (tmp 1 (craise *Cannot destruct simul_efun_object while master_object exists.)))" % t))
            return True
        elif k == "verbcmd":
            # command("go"): user_parser() sets last_verb around the call of the verb function (add_action of /c05/user)
            self.verb_used = True
            b, o = self.sub(fctx, depth)
            f = self.fn(fctx, b)
            self.files[fctx]["fns"].append("void gobody () { %s (); }" % f)
            stmts.append('"/c05/user"->gocmd ();')
            ops.append("(call other u1 0 0 (tmp 1 (withcg u1 (verb go (call other u1 1 1 (say dogo) (call other %s 0 0 (call local %s 0 0 %s)))))))" % (t, t, " ".join(o)))
        elif k == "notifyfail":
            # a command nobody handles: user_parser() -> notify_no_command() pushes command_giver on its save stack and calls
            # the notify_fail() function pointer; the body of that callback is generated
            self.nf_used = True
            b, o = self.sub(fctx, depth)
            f = self.fn(fctx, b)
            self.files[fctx]["fns"].append("void nfbody () { %s (); }" % f)
            stmts.append('"/c05/user"->failcmd ();')
            ops.append("(call other u1 0 0 (say set-cg) (setreg cg u1) (tmp 1 (withcg u1 (safefp u1 0 0 (say nf) (call other %s 0 0 (call local %s 0 0 %s))))))" % (t, t, " ".join(o)))
        elif k == "inithook":
            # an object with an init() hook moves itself into the room where the living `mob` stands:
            # move_object() sets command_giver = mob and applies init() in the object
            i = self.fresh()
            name = "I%d" % i
            self.files[name] = {"fns": [], "vname": [], "create": "", "extra": []}
            b, o = self.sub(name, depth)
            f = self.fn(name, b)
            path = "/c05/gen/%s" % name
            self.files[name]["extra"] = ["void init () { %s (); }" % f, 'void go () { move_object ("/c05/room"); }']
            self.prep.append('if (p0 = find_object ("%s")) destruct (p0); load_object ("%s");' % (path, path))
            stmts.append('"%s"->go ();' % path)
            ops.append("(call other %s 0 0 (tmp 1 (withcg mob (call other %s 0 0 (call local %s 0 0 %s)))))" % (t, t, t, " ".join(o)))
        elif k == "dhook":
            # destruct() of a container applies move_or_destruct() in its content under restrict_destruct
            i = self.fresh()
            name = "D%d" % i
            self.files[name] = {"fns": [], "vname": [], "create": "", "extra": []}
            b, o = self.sub(name, depth)
            f = self.fn(name, b)
            path = "/c05/gen/%s" % name
            self.files[name]["extra"] = ["void move_or_destruct (object d) { %s (); }" % f, "void enter (object b) { move_object (b); }"]
            self.globals.append("object box%d;" % i)
            self.prep.append('if (p0 = find_object ("%s")) destruct (p0); if (box%d) destruct (box%d); '
                             'box%d = new ("/c05/box"); load_object ("%s"); "%s"->enter (box%d);' % (path, i, i, i, path, path, i))
            stmts.append("destruct (box%d);" % i)
            ops.append("(tmp 1 (dhook %s (call other %s 1 1 (call local %s 0 0 %s))))" % (t, t, t, " ".join(o)))
        return False

    def source(self, name):
        f = self.files[name]
        # prototypes first: functions call each other in any order
        protos = []
        for fn in f["fns"]:
            protos.append(fn.split("{", 1)[0].strip() + ";")
        gl = " ".join(self.globals) if name == "t" else ""
        head = HEAD if name == "t" else [l.replace("seteuid (getuid ()); ", "") for l in HEAD]
        lines = [l.replace("GLOBALS", gl) for l in head[:3]] + protos + [l.replace("CREATE", f["create"]) for l in head[3:]]
        lines += f.get("extra", [])
        lines.append("string vname () { %s return \"n\"; }" % " ".join(f["vname"]))
        lines += f["fns"]
        if name == "t":
            lines += BE_WRAPPERS
            lines.append('void prep () { object p0; vsel = 0; mflag = 0; ' + MPREP + ' %s }' % " ".join(self.prep))
        return "\n".join(lines) + "\n"


def _flex(lit):
    """a literal C fragment as a regex that does not care about spacing (the source is GNU style, but a reformatting is harmless)"""
    import re
    parts = re.findall(r"[A-Za-z_0-9]+|\s+|.", lit)
    return "".join(r"\s*" if p.isspace() else (r"\b" + re.escape(p) + r"\b" if re.match(r"\w", p) else r"\s*" + re.escape(p) + r"\s*") for p in parts)


def pos(text, lit, start=0):
    """like text.find(lit, start), insensitive to spacing"""
    import re
    m = re.compile(_flex(lit)).search(text, start)
    return m.start() if m else -1


# ---- nested efun-callback families: efun X whose callback runs efun Y (X again, or sort_array), the inner one fails, the
# ---- OUTER callback catches the error and the outer efun goes on; afterwards the outer result is compared by value
# name: (LPC call with %s = function name, callback parameters, callback return expression, arity, tmp slots, handler slot?,
#        how the result is rendered, rendered by-value result)
NEST = {
    "sort": ("sort_array (({ 3, 1, 2 }), (: %s :))", "int x, int y", "x - y", 2, 2, True,
             'implode (map (a, (: "" + $1 :)), ",")', "1,2,3"),
    "map": ("map (({ 1, 2, 3 }), (: %s :))", "int x", "x", 1, 3, False, 'implode (map (a, (: "" + $1 :)), ",")', "1,2,3"),
    "filter": ("filter (({ 1, 2, 3 }), (: %s :))", "int x", "1", 1, 3, False, 'implode (map (a, (: "" + $1 :)), ",")', "1,2,3"),
    "mapmap": ("map (([ 1 : 2, 3 : 4, 5 : 6 ]), (: %s :))", "int x, int y", "y", 2, 3, False,
               '"" + sizeof (a) + "/" + (a[1] + a[3] + a[5])', "3/12"),
    "filtermap": ("filter (([ 1 : 2, 3 : 4, 5 : 6 ]), (: %s :))", "int x, int y", "1", 2, 3, False,
                  '"" + sizeof (a) + "/" + (a[1] + a[3] + a[5])', "3/12"),
    "unique": ("unique_array (({ this_object (), this_object (), this_object () }), (: %s :))", "object x", "1", 1, 2, True,
               '"" + sizeof (a) + "/" + sizeof (a[0])', "1/3"),
    "uniquemap": ("unique_mapping (({ 7, 8, 9 }), (: %s :))", "int x", "1", 1, 2, True,
                  '"" + sizeof (a) + "/" + sizeof (a[1])', "1/3"),
}


def nested_efun(uid, outer, inner, inner_body, inner_ops, later=2):
    """LPC + ops of `outer` whose FIRST callback runs `inner` inside a catch; the inner callback runs `inner_body` (which
    fails); the outer efun then makes its remaining callbacks.  Returns (statements, ops, functions, globals, prep)."""
    ocall, opar, oret, oar, otmp, ohandler, orender, owant = NEST[outer]
    icall, ipar, iret, iar, itmp, ihandler, _, _ = NEST[inner]
    fi, fo, flag = "nfi%d" % uid, "nfo%d" % uid, "nflag%d" % uid
    ity = "mixed" if inner in ("unique",) else "int"
    fns = ["%s %s (%s) { %s return %s; }" % (ity, fi, ipar, inner_body, iret),
           "int %s (%s) { mixed e; mixed b; object p0; if (!%s) { %s = 1; p0 = this_player (); e = catch (b = %s); "
           "VL (\"catch \" + e + (e && this_player () != p0 ? \" cg-changed\" : \"\")); } return %s; }"
           % (fo, opar, flag, flag, icall % fi, oret)]
    stmts = ['a = %s; s = %s; VL ("say r=" + s + (s != "%s" ? " result-mismatch" : ""));' % (ocall % fo, orender, owant)]
    inner_cb = "(cb fplocal t %d %d %s)" % (iar, iar, inner_ops)
    inner_efun = "(tmp %d %s)" % (itmp, ("(handler %d %s)" % (1000 + uid, inner_cb)) if ihandler else inner_cb)
    first = "(cb fplocal t %d %d (catch %s) (saycatch))" % (oar, oar, inner_efun)
    rest = " ".join("(cb fplocal t %d %d)" % (oar, oar) for _ in range(later))
    body = "%s %s" % (first, rest)
    # (rendering an array result maps a functional over it: three more callbacks, made by an efun)
    render = "(tmp 3 (cb functional t 1 1) (cb functional t 1 1) (cb functional t 1 1)) " if "map (a," in orender else ""
    ops = "(tmp %d %s) %s(say r=%s)" % (otmp, ("(handler %d %s)" % (2000 + uid, body)) if ohandler else body, render, owant)
    return stmts, ops, fns, ["int %s;" % flag], ["%s = 0;" % flag]


def hexs(s):
    return s.encode().hex()


def case_from(cid, files, run_src_ops, extra_head=(), tail=(), inject="inject t run"):
    lines = []
    for name, src in files.items():
        path = "/c05/gen/%s.c" % name
        lines.append("src %s %s" % (path, hexs(src)))
    lines += ["load probe /c05/probe", "load t /c05/gen/t", "load u1 /c05/user", "user u1", "load room /c05/room",
              "load mob /c05/mob", "vapply mob enter", "setcg u1"]
    lines += list(extra_head)
    lines.append("# ops " + run_src_ops)
    lines.append(inject)
    lines += list(tail)
    return E.Case(cid, lines, {"origin": "generated"})


def build_case(rng, cid, budget):
    be = rng.choice(["cmd", "hb", "hbc", "reset", "cleanup"]) if rng.chance(1, 5) else None
    b = Builder(rng, cid, budget, no_cg=be in ("hb", "hbc", "reset", "cleanup"))
    stmts, ops = b.block("t", 0, n=rng.range(1, 4))
    b.files["t"]["fns"].append("mixed run () { %s %s return 1; }" % (DECL, " ".join(stmts)))
    if be:
        # the evaluation is one cycle of the REAL backend(): a command line of user u1 (process_user_command), the
        # heart beat of t (call_heart_beat) or reset() / clean_up() of t (look_for_objects_to_swap)
        b.prep.append(BE_PREP[be])
        b.kinds["backend_" + be] = 1
        files = {name: b.source(name) for name in b.files}
        c = case_from(cid, files, BE_OPS[be] % " ".join(ops), extra_head=["setcg 0"], inject="injectbe " + BE_INJECT[be])
        if rng.chance(1, 4):
            c.lines.insert(0, "maxdepth %d" % rng.range(7, 12))
            b.kinds["lowdepth"] = 1
        c.meta["kinds"] = b.kinds
        return c
    como = rng.chance(1, 6)
    if como:
        # the evaluation is the real call_out() sweep: prep schedules two callbacks; an error in the first must not
        # stop the second (resume point of call_out()), command_giver is the one the call_outs were scheduled with
        b.files["t"]["fns"].append('void run2 () { VL ("say second"); }')
        b.prep.append('remove_call_out ("run"); remove_call_out ("run2"); call_out ("run2", 0); call_out ("run", 0);')
        b.kinds["callout"] = 1
    files = {name: b.source(name) for name in b.files}
    if como:
        c = case_from(cid, files, "(withcg u1 (safe 0 0 %s)) (withcg u1 (safe 0 0 (say second)))" % " ".join(ops),
                      inject="injectco")
        c.meta["kinds"] = b.kinds
        return c
    reg = ""
    if rng.chance(1, 8):
        reg = " " + rng.choice(["co", "po"]) + " probe"
    c = case_from(cid, files, " ".join(ops), inject="inject t run" + reg)
    if rng.chance(1, 4):
        # a low MaxCallDepth: the program meets "Too deep recursion" / a refusing save_context wherever its depth says
        c.lines.insert(0, "maxdepth %d" % rng.range(7, 12))
        b.kinds["lowdepth"] = 1
    c.meta["kinds"] = b.kinds
    return c


def fixed_case(cid, run_body, ops, fns=(), prep="", tail=(), inject="inject t run", vname="", extra_files=None, extra_head=()):
    src = "\n".join([l.replace("CREATE", "").replace("GLOBALS", "") for l in HEAD] + ["mixed run ();"] + BE_WRAPPERS + list(fns) +
                    ['string vname () { %s return "n"; }' % vname,
                     'void prep () { object p0; vsel = 0; mflag = 0; ' + MPREP + ' %s }' % prep,
                     "mixed run () { %s %s return 1; }" % (DECL, run_body)]) + "\n"
    files = {"t": src}
    files.update(extra_files or {})
    c = case_from(cid, files, ops, tail=tail, inject=inject, extra_head=extra_head)
    c.meta["origin"] = "boundary"
    return c


DEPTH_ACTIONS = {
    # action executed in the deepest rec() frame: (LPC statements, ops)
    "catch": (None, "(catch (call local t 0 0 (say x))) (saycatch)"),
    "safe": ('vsel = 1; s = sprintf ("%O", this_object ()); VL ("say after");',
             "(tmp 1 (safe 1 1 (call other t 0 0 (call local t 0 0 (say x))))) (say after)"),
    "ocall": ("this_object ()->leaf ();", "(call other t 0 0 (say x))"),
    "lcall": ("leaf ();", "(call local t 0 0 (say x))"),
    "fplocal": ("evaluate ((: leaf :));", "(call fplocal t 0 0 (say x))"),
    "functional": ("evaluate ((: leafi () + $1 :), 1);", "(call functional t 1 1 (call local t 0 0 (say x)))"),
    "efunp": ('evaluate ((: call_other, this_object (), "leaf" :));', "(call efunp t 0 0 (call other t 0 0 (say x)))"),
}


def arity_case(passed, declared, nlocals, body):
    """the driver's safe_apply() of a function that declares `declared` parameters, handed `passed` arguments;
    the callee has `nlocals` locals; error at every instruction (and a raised one when body == 'raise')"""
    params = ", ".join("int a%d" % i for i in range(declared))
    locs = " ".join("int l%d;" % i for i in range(nlocals))
    if body == "raise":
        stmt, bops = 'error ("boom1\\n");', "(raise boom1)"
    elif body == "call":
        stmt, bops = "leaf ();", "(call local t 0 0 (say x))"
    else:
        stmt, bops = 'VL ("say x");', "(say x)"
    fns = ['void leaf () { VL ("say x"); }', "void tgt (%s) { %s %s }" % (params, locs, stmt)]
    ops = "(safe %d %d (tmp %d %s))" % (passed, declared, nlocals, bops)
    cid = "b-arity-safe-p%d-d%d-l%d-%s" % (passed, declared, nlocals, body)
    return fixed_case(cid, "", ops, fns=fns, inject="injectsafe t tgt %d" % passed)


def arity_fp_case(passed, declared, nlocals, body):
    """the driver's safe_call_function_pointer() (socket callbacks) of (: tgt :) with surplus / missing arguments"""
    params = ", ".join("int a%d" % i for i in range(declared))
    locs = " ".join("int l%d;" % i for i in range(nlocals))
    stmt, bops = ('error ("boom1\\n");', "(raise boom1)") if body == "raise" else ('VL ("say x");', "(say x)")
    fns = ["void tgt (%s) { %s %s }" % (params, locs, stmt), "mixed getfp () { return (: tgt :); }"]
    ops = "(safefp t %d %d (tmp %d %s))" % (passed, declared, nlocals, bops)
    return fixed_case("b-arity-safefp-p%d-d%d-l%d-%s" % (passed, declared, nlocals, body), "", ops, fns=fns,
                      inject="injectsafefp t getfp %d" % passed)


def depth_case(action, maxdepth, frames_at_action, outer_catch):
    """recursion so that the action runs with exactly `frames_at_action` frames on the control stack"""
    stmt, aops = DEPTH_ACTIONS[action]
    if stmt is None:
        stmt = CATCHSTMT % "leaf ()"
    base = 2 if outer_catch else 1          # run() [+ the catch frame of the outer catch]
    n = frames_at_action - base - 1         # rec(n) adds n + 1 frames
    fns = ['void leaf () { VL ("say x"); }', 'int leafi () { VL ("say x"); return 1; }',
           "void rec (int n) { %s if (n > 0) { rec (n - 1); return; } %s VL (\"say end\"); }" % (DECL, stmt)]
    ops = aops + " (say end)"
    for _ in range(n + 1):
        ops = "(call local t 1 1 %s)" % ops
    if outer_catch:
        body = CATCHSTMT % ("rec (%d)" % n)
        ops = "(catch %s) (saycatch)" % ops
    else:
        body = "rec (%d);" % n
    cid = "b-depth-%s-%d-of-%d%s" % (action, frames_at_action, maxdepth, "-caught" if outer_catch else "")
    c = fixed_case(cid, body, ops, fns=fns, vname="if (vsel == 1) leaf ();")
    c.lines.insert(0, "maxdepth %d" % maxdepth)
    return c


CATCHSTMT = 'p0 = this_player (); e = catch (%s); VL ("catch " + e + (e && this_player () != p0 ? " cg-changed" : ""));'


class C05(Prop):
    id = "C05"
    title = "after any LPC error the machine state is as before the failed call"
    lean_modules = ["NV.C05.Exec", "NV.C05.Guards", "NV.C05.Tie", "NV.C05.Props", "NV.C05.Backend", "NV.C05.Verb", "NV.C05.Witness"]
    theorems = ["NV.C05.tie_save_context", "NV.C05.tie_safe_recovery_point", "NV.C05.tie_restore_offset",
                "NV.C05.tie_depth_tests", "NV.C05.tie_statement_shapes", "NV.C05.tie_frame_codes",
                "NV.C05.tie_context_fields_saved", "NV.C05.tie_every_field_saved_is_restored", "NV.C05.tie_context_globals",
                "NV.C05.tie_frame_registers", "NV.C05.tie_frame_saved_is_restored", "NV.C05.tie_all_globals_classified",
                "NV.C05.tie_classes_match_source", "NV.C05.tie_command_giver_stack", "NV.C05.tie_callback_handlers",
                "NV.C05.tie_backend_shapes", "NV.C05.tie_catch_value_order", "NV.C05.tie_handler_flag", "NV.C05.tie_error_handler_slots", "NV.C05.tie_vital_destruct_order", "NV.C05.tie_error_handlers_are_leaves", "NV.C05.tie_handler_effects", "NV.C05.tie_spread_count", "NV.C05.consume_clears_spread_count", "NV.C05.tie_restore_clears_spread_count", "NV.C05.tie_restore_frameless", "NV.C05.restoreContext_frameless",
                "NV.C05.restoreContext_spread",
                "NV.C05.vital_records_before_blanking", "NV.C05.vital_nested_refused", "NV.C05.popN_fixNames", "NV.C05.vitalFinish_good", "NV.C05.tie_handler_limit_state", "NV.C05.tie_hook_globals_apart", "NV.C05.raise_sets_catch_value_after_handler",
                "NV.C05.driver_restores", "NV.C05.model_satisfies_spec_driver",
                "NV.C05.backend_cycle_restores", "NV.C05.model_satisfies_spec_backend", "NV.C05.restoreContext_verb", "NV.C05.restoreContext_runs_fixNames", "NV.C05.popN_unlinks_efun_contexts", "NV.C05.exec_vk", "NV.C05.execCore_vk", "NV.C05.driver_keeps_last_verb",
                "NV.C05.top_keeps_last_verb", "NV.C05.catchFinish_vk",
                "NV.C05.saveContext_verb", "NV.C05.judgeObs_nil_of_core", "NV.C05.hbOffStep_spec", "NV.C05.raiseInner_uncaught_switches_heart_beat_off", "NV.C05.hbOffStep_same", "NV.C05.verbFinish_good", "NV.C05.hbFinish_good",
                "NV.C05.safeFpFinish_total", "NV.C05.safeApply_all_arities", "NV.C05.call_all_arities", "NV.C05.safeFinish_total",
                "NV.C05.saveContext_refuses_iff", "NV.C05.catch_refused", "NV.C05.safeApply_refused",
                "NV.C05.context_chain_restored_any", "NV.C05.model_satisfies_spec", "NV.C05.exec_keeps_extension", "NV.C05.top_restores", "NV.C05.catch_yields_message_exec",
                "NV.C05.guards_reset_first_level", "NV.C05.exec_guards", "NV.C05.execCore_guards",
                "NV.C05.restoreContext_guards", "NV.C05.exec_good", "NV.C05.execCore_good", "NV.C05.raise_rspec",
                "NV.C05.runHandler_spec",
                "NV.C05.restore_is_inverse", "NV.C05.handlers_run_exactly_once", "NV.C05.handler_not_run_on_normal_exit",
                "NV.C05.catch_yields_message", "NV.C05.raise_sets_catch_value", "NV.C05.throw_sets_catch_value",
                "NV.C05.context_chain_restored_catch", "NV.C05.context_chain_restored_safe",
                "NV.C05.context_chain_restored_top", "NV.C05.raise_not_ok", "NV.C05.guards_reset",
                "NV.C05.install_atomic", "NV.C05.restoreContext_ext", "NV.C05.popN_append"]
    witness_theorems = ["NV.C05.prefix_input_to_leaves_sentence", "NV.C05.fixed_input_to_leaves_nothing",
                        "NV.C05.prefix_safe_apply_surplus_crashes", "NV.C05.fixed_safe_apply_surplus_recovers",
                        "NV.C05.prefix_safe_apply_leaks_argument", "NV.C05.fixed_safe_apply_end_to_end",
                        "NV.C05.negative_pop_is_a_crash", "NV.C05.changed_register_is_not_restored",
                        "NV.C05.throw_does_not_reset_guards", "NV.C05.error_resets_guards_example",
                        "NV.C05.caught_throw_in_load_restores_guards", "NV.C05.catch_in_create_keeps_depth",
                        "NV.C05.caught_throw_in_dhook_restores_guards", "NV.C05.catch_at_limit_keeps_chain",
                        "NV.C05.safe_apply_at_limit_keeps_chain", "NV.C05.heart_beat_error_switches_it_off", "NV.C05.failed_master_reload_restores_name", "NV.C05.nested_sort_error_unlinks_inner_context",
                        "NV.C05.after_caught_inner_error_the_outer_context_is_current", "NV.C05.nested_master_destruct_keeps_name",
                        "NV.C05.safe_apply_error_in_heart_beat_switches_it_off"]
    consts = [("frameFunction", "FRAME_FUNCTION"), ("frameFunp", "FRAME_FUNP"), ("frameCatch", "FRAME_CATCH"),
              ("frameFake", "FRAME_FAKE"), ("frameMask", "FRAME_MASK"),
              ("esStackFull", "ES_STACK_FULL"), ("esMaxEvalCost", "ES_MAX_EVAL_COST"),
              ("originDriver", "ORIGIN_DRIVER"), ("originLocal", "ORIGIN_LOCAL"), ("originCallOther", "ORIGIN_CALL_OTHER"),
              ("originFunctionPointer", "ORIGIN_FUNCTION_POINTER"), ("originFunctional", "ORIGIN_FUNCTIONAL"),
              ("tErrorHandler", "T_ERROR_HANDLER")]
    const_headers = ["src/interpret.h", "lpc/types.h", "lpc/include/origin.h"]
    quick_n = 60
    thorough_n = 600
    search_n = 150
    design_ref = "5/C05"
    technique = ("Lean 4 proof (big-step error-recovery machine; the core induction over all op trees is proved; top theorems model_satisfies_spec, "
                 "model_satisfies_spec_driver, model_satisfies_spec_backend) + translator-generated constants, statement shapes and the list of every "
                 "interpreter global with how an unwinding puts it back + fault injection at every instruction of generated LPC programs (hook H2), also "
                 "inside one cycle of the real backend(), model/implementation correspondence on outcome sets, register snapshots and control-stack shapes")
    level_text = ("Lean 4 theorems about an executable model of save_context/restore_context/pop_context, "
                  "push/pop_control_stack, do_catch, safe_apply, safe_call_function_pointer, error_handler (guards, heart-beat switch-off, catch_value), "
                  "the T_ERROR_HANDLER slots incl. the one of destruct_object that restores the names of the vital objects, the call_out sweep and one cycle of backend() (command, heart beat, reset/clean_up sweep), for all op "
                  "trees of any nesting depth and every position of the fault; tied to the source by regenerated frame / "
                  "error-state / origin constants, statement shapes, the saved/restored field and register lists and a classification of every "
                  "file-scope global of the interpreter core, and by running generated LPC programs with a fault injected at every "
                  "instruction on the real driver (also inside the real backend()) and comparing outcome sets, register snapshots (incl. the "
                  "command_giver save stack, last_verb, both guards, chain depth) and control-stack shapes with the model; the Lean oracle judges "
                  "every implementation trace, including the value every catch yields after the master's error handler ran")
    level_note = ("trusted: Lean kernel; extract.py; the correspondence harness (differential, only the generated programs); "
                  "registers are opaque values; value-stack depths of efun temporaries are approximated by the generator; "
                  "the master's error handler is a fixed function in the model (handlers that run catch() themselves are compared without fault "
                  "injection); the frame-register clauses are proved for driver-level applies (runTop), for C code calling back (call_out, backend) "
                  "only sp/csp/chain/guards/command_giver/last_verb; console-mode resume is not generated")
    rule = ("cases = corpus + known-finding inputs + boundary list + seeded random LPC programs (nested local calls, "
            "call_other incl. surplus arguments, function pointers of every kind, map/filter/sort_array/unique_array "
            "callbacks, catch in catch, error()/throw(), safe applies via sprintf(\"%O\"), create() in load_object/new, "
            "input_to, enable_commands, init() hooks via move_object, move_or_destruct() hooks via destruct, command verbs via command(), "
            "notify_fail() functions, map/filter over mappings, unique_mapping, map over strings, implode with a function, message(), nested efun callbacks (efun X running X / sort_array in its callback, inner error or throw caught by the outer callback, outer result compared by value), self-destructing "
            "objects, destruct of the master with a reload that fails (refused / error, throw or injected fault in create() of the new copy / nested),  the program as a callback of the real call_out() sweep and as one "
            "cycle of the real backend() (a user command, a heart beat, reset(), clean_up()); master error handlers that run catch()/throw()/callbacks; arity -3..+3 through call_other / function pointers / the driver's "
            "safe_apply and safe_call_function_pointer with 0 or 4 locals; every frame kind at exactly limit-2 / limit-1 / limit "
            "frames of a lowered MaxCallDepth); every program is run once per instruction with a fault injected there; a case "
            "is non-trivial when its trace has >= 2 lines; distinct = distinct canonical implementation trace")
    not_covered = ["fault injection inside a master error handler that itself runs catch()/throw()/callbacks (such handlers are run on the driver without injected faults; the model's handler is a fixed function)",
                   "'every uncaught first-level error leaves current_heart_beat cleared' is modelled, compared and witnessed, not proved for all programs",
                   "C locals of efuns that are live across a longjmp: inventoried by the translator (41 call-back sites, 4 with an error-handler slot), observed via ASan on 9 efuns, not proved",
                   "value-stack depths inside efuns are approximated (only the depth after recovery is observed)",
                   "the oracle clause for last_verb (qv) is proved for evaluations started outside a command (exec_vk: kept or cleared; driver_keeps_last_verb, top_keeps_last_verb); the probe / heart-beat / catch-value clauses are checked on traces",
                   "num_varargs: observed after every evaluation (snapshot field nva; probe: array literal / local call / varargs efun first), modelled (spread / consume ops, cleared by restore_context: restoreContext_spread) - 'nva after = before' is proved at state level, not through the induction; spreads into local (varargs) functions are not generated",
                   "'names of the vital objects after = before' is an oracle clause and compared on every trace; proved at state level (restoreContext_runs_fixNames), not through the induction over all programs",
                   "the simul_efun branch of destruct_object's vital block (refused from LPC while a master exists)",
                   "the file-scope context lists of sort_array / unique_array / unique_mapping are modelled as ONE list (efunCtx; handlers unlink the head): proved at state level (popN_unlinks_efun_contexts) + witnesses + tie_handler_effects + nested efun-callback cases on the driver (ASan, by-value result); 'the list after = the list before' is not proved through the induction over all programs, the efun's by-value result is an oracle clause only",
                   "call-back sites not driven: f_objects, object_present, fixed master applies (valid_read / valid_seteuid / creator_file run but have no generated body), print_prompt, snoop, logon, ed, parse_command, virtual objects",
                   "preload_objects, console-mode resume, do_slow_shutdown recovery points; varargs callees; get_char"]

    # ---- translator (T4-style): statement shapes / orders of the anchor functions, regenerated on every run ----
    def gen_extra(self, ctx, bdir):
        import re
        from nvlib import extract as X

        def body(path, name):
            src = re.sub(r"/\*.*?\*/", "", open(os.path.join(E.REPO, path)).read(), flags=re.S)
            m = re.search(r"^[^\n;{}]*\b%s\s*\([^;{]*\)\s*\{" % re.escape(name), src, re.M)
            if not m:
                raise X.TieBroken("fn:" + name, "function %s not found in %s" % (name, path))
            i = src.index("{", m.start())
            depth, j = 0, i
            while j < len(src):
                if src[j] == "{":
                    depth += 1
                elif src[j] == "}":
                    depth -= 1
                    if depth == 0:
                        break
                j += 1
            text = re.sub(r"/\*.*?\*/", "", src[i:j + 1], flags=re.S)
            # the names of the context parameter / local are the author's choice: normalise them to `econ`
            header = src[m.start():i]
            for nm in re.findall(r"error_context_t\s*\*\s*(\w+)", header) + re.findall(r"\berror_context_t\s+(\w+)\s*;", text):
                if nm != "econ":
                    text = re.sub(r"\b%s\b" % re.escape(nm), "econ", text)
            return text

        def need(site, cond, what):
            if not cond:
                raise X.TieBroken(site, "%s: expected statement not found (%s)" % (site, what))

        def expr(e):
            # tiny expression grammar: identifiers sp / num_arg / csp, integer literals, + and -
            toks = re.findall(r"[A-Za-z_]\w*|\d+|[+\-]", e)
            need("expr", "".join(toks) == re.sub(r"\s+", "", e), "expression outside the grammar: " + e)
            names = {"sp": "sp", "num_arg": "numArg", "csp": "csp"}
            return " ".join(names.get(t, t) for t in toks)

        out = []
        sc = body("src/error_context.c", "save_context")
        m_sp = re.search(r"econ->save_sp\s*=\s*([^;]+);", sc)
        m_csp = re.search(r"econ->save_csp\s*=\s*([^;]+);", sc)
        need("save_context", m_sp and m_csp, "econ->save_sp / save_csp assignments")
        out.append("/-- save_context: `econ->save_sp = %s;` -/\ndef saveContextSaveSp (sp : Nat) : Nat := %s" % (m_sp.group(1), expr(m_sp.group(1))))
        out.append("/-- save_context: `econ->save_csp = %s;` -/\ndef saveContextSaveCsp (csp : Nat) : Nat := %s" % (m_csp.group(1), expr(m_csp.group(1))))
        test = re.search(r"if\s*\(csp\s*==\s*&control_stack\[CONFIG_INT\s*\(__MAX_CALL_DEPTH__\)\s*-\s*(\d+)\]\)", sc)
        link = pos(sc, "current_error_context = econ")
        need("save_context", test and link >= 0, "depth test / linking")
        out.append("/-- save_context: the frame index of the depth test is MaxCallDepth - this -/\ndef saveContextDepthOffset : Nat := %s" % test.group(1))
        ret0 = pos(sc, "return 0", test.start())
        out.append("/-- save_context: the refusal (`return 0`) comes before the context is linked into the chain -/\n"
                   "def saveContextRefusesBeforeLinking : Bool := %s" % ("true" if 0 <= ret0 < link else "false"))
        out.append("/-- save_context stores the two guards (save_object_limits) and command_giver -/\ndef saveContextSavesGuards : Bool := %s"
                   % ("true" if "save_object_limits" in sc and "save_command_giver = command_giver" in sc else "false"))
        rc = body("src/error_context.c", "restore_context")
        m_off = re.search(r"csp\s*=\s*econ->save_csp\s*\+\s*(\d+)\s*;", rc)
        need("restore_context", m_off, "csp = econ->save_csp + 1")
        out.append("/-- restore_context: `csp = econ->save_csp + %s` then ONE pop_control_stack -/\ndef restoreCspOffset : Nat := %s" % (m_off.group(1), m_off.group(1)))
        m_pop = re.search(r"([^\n]*)\n\s*pop_n_elems\s*\(sp\s*-\s*econ->save_sp\)\s*;", rc)
        need("restore_context", m_pop, "pop_n_elems (sp - econ->save_sp)")
        guarded = bool(re.search(r"\b(if|while)\b", m_pop.group(1)))
        out.append("/-- restore_context: `pop_n_elems (sp - econ->save_sp)` is not guarded by a condition -/\n"
                   "def restorePopsUnconditionally : Bool := %s" % ("false" if guarded else "true"))
        out.append("/-- restore_context restores command_giver and the two guards -/\ndef restoreRestoresCgAndGuards : Bool := %s"
                   % ("true" if "command_giver = econ->save_command_giver" in rc and "restore_object_limits" in rc else "false"))
        pops = len(re.findall(r"pop_control_stack\s*\(\)", rc))
        mt = re.search(r"if\s*\(\s*csp\s*>\s*econ->save_csp\s*\)", rc)
        out.append("/-- restore_context unwinds the control stack only `if (csp > econ->save_csp)`: when no frame was pushed since the "
                   "recovery point was set, the (stale) frame above csp is not touched -/\ndef restoreTestsCspBeforeUnwinding : Bool := %s"
                   % ("true" if mt and mt.start() < pos(rc, "pop_control_stack") else "false"))
        out.append("/-- restore_context clears the spread count: `num_varargs = 0;` -/\ndef restoreClearsSpreadCount : Bool := %s"
                   % ("true" if pos(rc, "num_varargs = 0") >= 0 else "false"))
        out.append("/-- restore_context: number of pop_control_stack() calls -/\ndef restorePopFrameCalls : Nat := %d" % pops)
        pc = body("src/error_context.c", "pop_context")
        out.append("/-- pop_context relinks the chain and clears the error state -/\ndef popContextRelinksAndClears : Bool := %s"
                   % ("true" if re.search(r"current_error_context\s*=\s*econ->save_context", pc) and "clear_error_state" in pc else "false"))
        eh = body("src/error_context.c", "error_handler")
        first_if = pos(eh, "if (current_error_context")
        r1, r2 = pos(eh, "reset_destruct_object_limits"), pos(eh, "reset_load_object_limits")
        need("error_handler", first_if >= 0, "catch branch")
        out.append("/-- error_handler: both guard resets precede the catch branch -/\ndef errorHandlerResetsGuardsFirst : Bool := %s"
                   % ("true" if 0 <= r1 < first_if and 0 <= r2 < first_if else "false"))
        for fn, path, lean in (("safe_apply", "src/apply.c", "safeApply"), ("safe_call_function_pointer", "lib/lpc/functional.c", "safeFp")):
            b = body(path, fn)
            m = re.search(r"econ\.save_sp\s*=\s*([^;]+);", b)
            rhs = m.group(1) if m else "sp"
            out.append("/-- %s: recovery point `econ.save_sp = %s` -/\ndef %sSaveSp (sp numArg : Nat) : Nat := %s" % (fn, rhs, lean, expr(rhs)))
            after = b[pos(b, "restore_context"):] if "restore_context" in b else ""
            out.append("/-- %s: no `pop_n_elems (num_arg)` after restore_context -/\ndef %sPopsArgsAfterRestore : Bool := %s"
                       % (fn, lean, "true" if re.search(r"pop_n_elems\s*\(num_arg\)", after) else "false"))
        dc = body("src/frame.c", "do_catch")
        out.append("/-- do_catch: the limit bit is set again after pop_context, before the re-raise -/\ndef catchKeepsLimitBit : Bool := %s"
                   % ("true" if re.search(r"pop_context\s*\(&econ\);\s*set_error_state\s*\(ES_STACK_FULL\)", dc) else "false"))
        out.append("/-- do_catch: save_context, then push_control_stack (FRAME_CATCH), then setjmp -/\ndef catchPushesFrameRightAfterSave : Bool := %s"
                   % ("true" if 0 <= pos(dc, "save_context") < pos(dc, "push_control_stack (FRAME_CATCH)") < pos(dc, "setjmp") else "false"))
        pcs = body("src/frame.c", "push_control_stack")
        t2 = re.search(r"CONFIG_INT\s*\(__MAX_CALL_DEPTH__\)\s*-\s*(\d+)", pcs)
        need("push_control_stack", t2, "depth test")
        out.append("/-- push_control_stack: the frame index of the depth test is MaxCallDepth - this -/\ndef pushDepthOffset : Nat := %s" % t2.group(1))
        out += self.gen_globals(bdir, body, need)
        text = "\n".join(out) + "\n"
        # name the site of every regenerated statement shape that is not what the model mirrors: the obligation in Tie.lean
        # will fail, and the report should say WHICH C statement moved (a harmless rewrite and a defect look the same here;
        # the search stage that follows decides)
        expected_false = ("safeApplyPopsArgsAfterRestore", "safeFpPopsArgsAfterRestore")
        self.shape_notes = []
        for mm in re.finditer(r"/-- ((?:(?!/--).)*?) -/\ndef (\w+) : Bool := (true|false)", text, re.S):
            doc, name, val = mm.group(1), mm.group(2), mm.group(3)
            if (val == "false") != (name in expected_false):
                self.shape_notes.append("%s = %s: %s" % (name, val, " ".join(doc.split())))
        for mm in re.finditer(r"/-- ((?:(?!/--).)*?) -/\ndef (\w+) : List String := \[(.+)\]", text):
            if mm.group(2) in ("cgStackUnsafeCalls", "errorHandlersThatCallBack"):
                self.shape_notes.append("%s = [%s]: %s" % (mm.group(2), mm.group(3), " ".join(mm.group(1).split())))
        for n in self.shape_notes:
            E.log("C05 translator: source no longer has the shape the model mirrors - " + n)
        return text

    # ---- translator: which global variables does an error unwinding have to put back? -----------------------------
    # what the registered handlers are known to put back (reviewed; `tie_handler_effects`)
    HANDLER_EFFECTS = [("sort_array_unlink", "sort_array_ftc"), ("sort_array_unlink", "sort_ctx_top"),
                       ("unique_array_error_handler", "g_u_list"), ("unique_mapping_error_handler", "g_u_m_list"),
                       ("fix_object_names", "master_ob->name"), ("fix_object_names", "simul_efun_ob->name")]
    CORE_OBJECTS = ["interpret", "frame", "stack", "error_context", "apply", "simulate"]
    CALLBACKS = r"\b(call_function_pointer|apply|apply_master_ob|call_efun_callback|call_function|error)\s*\("

    def gen_globals(self, bdir, body, need):
        import re
        import subprocess
        from nvlib import extract as X

        def lst(xs):
            return "[" + ", ".join('"%s"' % x for x in xs) + "]"

        def pairs(xs):
            return "[" + ", ".join('("%s", "%s")' % x for x in xs) + "]"
        out = []
        # (1) the fields of error_context_t, those written by save_context, those read by restore_context / pop_context
        hdr = re.sub(r"/\*.*?\*/", "", open(os.path.join(E.REPO, "src/error_context.h")).read(), flags=re.S)
        m = re.search(r"struct\s+error_context_s\s*\{(.*?)\}\s*error_context_t", hdr, re.S)
        need("error_context_t", m, "struct error_context_s")
        fields = [re.findall(r"(\w+)\s*$", d.strip())[0] for d in m.group(1).split(";") if d.strip()]
        sc = body("src/error_context.c", "save_context")
        rc = re.sub(r'"[^"\n]*"', '""', body("src/error_context.c", "restore_context"))
        pc = body("src/error_context.c", "pop_context")
        written = sorted(set(re.findall(r"econ->(\w+)\s*=[^=]", sc)) | set(re.findall(r"&\s*econ->(\w+)", sc)))
        read_rc = sorted(set(re.findall(r"econ->(\w+)", rc)))
        read_pc = sorted(set(re.findall(r"econ->(\w+)", pc)))
        out.append("/-- fields of `error_context_t` (src/error_context.h) -/\ndef ctxFields : List String := %s" % lst(fields))
        out.append("/-- fields written by save_context -/\ndef ctxSaved : List String := %s" % lst(written))
        out.append("/-- fields read by restore_context -/\ndef ctxRestored : List String := %s" % lst(read_rc))
        out.append("/-- fields read by pop_context -/\ndef ctxPopped : List String := %s" % lst(read_pc))
        # which global each saved field holds: `econ->f = g;` and the two guards through save_object_limits
        holds = re.findall(r"econ->(\w+)\s*=\s*(\w+)\s*;", sc)
        sim = re.sub(r"/\*.*?\*/", "", open(os.path.join(E.REPO, "src/simulate.c")).read(), flags=re.S)
        sol = re.search(r"void\s+save_object_limits\s*\(\s*int\s*\*\s*(\w+)\s*,\s*object_t\s*\*\*\s*(\w+)\s*\)\s*\{(.*?)\}", sim, re.S)
        call = re.search(r"save_object_limits\s*\(\s*&econ->(\w+)\s*,\s*&econ->(\w+)\s*\)", sc)
        if sol and call:
            for par, fld in ((sol.group(1), call.group(1)), (sol.group(2), call.group(2))):
                g = re.search(r"\*\s*%s\s*=\s*(\w+)\s*;" % par, sol.group(3))
                if g:
                    holds.append((fld, g.group(1)))
        out.append("/-- save_context: (field, global variable it saves) -/\ndef ctxHolds : List (String × String) := %s" % pairs(sorted(holds)))
        # (2) the registers a control-stack frame saves and restores
        pcs = body("src/frame.c", "push_control_stack")
        pops = body("src/frame.c", "pop_control_stack")
        fsaved = re.findall(r"csp->(\w+)\s*=\s*(\w+)\s*;", pcs)
        frest = re.findall(r"\b(\w+)\s*=\s*csp->(\w+)\s*;", pops)
        out.append("/-- push_control_stack: (frame field, what is stored) -/\ndef frameSaved : List (String × String) := %s" % pairs(fsaved))
        out.append("/-- pop_control_stack: (global variable, frame field it is restored from) -/\ndef frameRestored : List (String × String) := %s" % pairs(frest))
        # (3) every global variable of the interpreter core (object files of the current build: data and bss symbols)
        def unguarded_text(path):
            """the source text outside `#ifdef NEOLITH_VERIF` regions (an `#else` part of such a region counts as outside)"""
            keep, stack = [], []      # stack entries: True = this level is a NEOLITH_VERIF region that is active
            for line in re.sub(r"/\*.*?\*/", lambda mm: "\n" * mm.group(0).count("\n"), open(path, errors="replace").read(), flags=re.S).splitlines():
                st = line.strip()
                if re.match(r"#\s*if", st):
                    stack.append(bool(re.match(r"#\s*(ifdef\s+NEOLITH_VERIF\b|if\s+defined\s*\(?\s*NEOLITH_VERIF\b)", st)))
                    continue
                if re.match(r"#\s*else", st) and stack:
                    stack[-1] = False
                    continue
                if re.match(r"#\s*endif", st) and stack:
                    stack.pop()
                    continue
                if not any(stack):
                    keep.append(line)
            return "\n".join(keep)
        globs, hooks = [], []
        for o in self.CORE_OBJECTS:
            outside = unguarded_text(os.path.join(E.REPO, "src/%s.c" % o))
            path = os.path.join(bdir, "src/CMakeFiles/stem.dir/%s.c.o" % o)
            try:
                txt = subprocess.run(["nm", path], capture_output=True, text=True).stdout
            except OSError:
                txt = ""
            need("globals", txt, "nm " + path)
            for line in txt.splitlines():
                f = line.split()
                if len(f) == 3 and f[1] in "BbDdC" and re.match(r"^[A-Za-z]\w*$", f[2]) and not f[2].startswith("__"):
                    # a variable that is only mentioned inside `#ifdef NEOLITH_VERIF` regions of its file belongs to a
                    # verification hook: it does not exist in the driver proper and cannot influence it
                    if f[2].startswith("verif_") or not re.search(r"\b%s\b" % re.escape(f[2]), outside):
                        hooks.append(f[2])
                    else:
                        globs.append(f[2])
        out.append("/-- global variables defined in %s (nm of the build; function-local statics left out; variables of verification "
                   "hooks, i.e. those mentioned only inside `#ifdef NEOLITH_VERIF` regions, are listed separately) -/\n"
                   "def coreGlobals : List String := %s" % (", ".join(x + ".c" for x in self.CORE_OBJECTS), lst(sorted(set(globs)))))
        out.append("/-- variables of verification hooks in the same files (recognised automatically, not evaluation state) -/\n"
                   "def hookGlobals : List String := %s" % lst(sorted(set(hooks))))
        # (4) the command_giver save stack: between save_command_giver and restore_command_giver no call that can longjmp
        unsafe = []
        users = 0
        for root in ("src", "lib"):
            for dp, dn, fn in os.walk(os.path.join(E.REPO, root)):
                for f in fn:
                    if not f.endswith(".c"):
                        continue
                    t = re.sub(r"/\*.*?\*/", "", open(os.path.join(dp, f), errors="replace").read(), flags=re.S)
                    for mm in re.finditer(r"\bsave_command_giver\s*\([^;{]*\)\s*;", t):
                        end = pos(t, "restore_command_giver", mm.end())
                        seg = t[mm.end():end if end >= 0 else mm.end() + 2000]
                        users += 1
                        for cb in re.finditer(self.CALLBACKS, seg):
                            before = seg[max(0, cb.start() - 5):cb.start()]
                            if not before.endswith("safe_"):
                                unsafe.append("%s:%s" % (f, cb.group(1)))
        out.append("/-- call sites of save_command_giver (simulate.c command_giver save stack) -/\ndef cgStackUsers : Nat := %d" % users)
        out.append("/-- calls that can longjmp between save_command_giver and restore_command_giver -/\n"
                   "def cgStackUnsafeCalls : List String := %s" % lst(sorted(set(unsafe))))
        # (5) error_handler: the heart beat is switched off on the uncaught path only, after the mudlib handler
        eh = body("src/error_context.c", "error_handler")
        hb = pos(eh, "if (current_heart_beat)")
        catch_end = pos(eh, "if (in_error)")
        mh0 = list(re.finditer(r"mudlib_error_handler\s*\(\w+,\s*0\)", eh))
        last_handler = mh0[-1].start() if mh0 else -1
        out.append("/-- error_handler: `if (current_heart_beat) set_heart_beat (…, 0)` comes after the catch branch, after the in_error "
                   "branch and after the uncaught mudlib handler call, and clears current_heart_beat -/\n"
                   "def errorHandlerHeartBeatOffLast : Bool := %s"
                   % ("true" if 0 <= catch_end < last_handler < hb and "current_heart_beat = 0" in eh[hb:] and
                      "set_heart_beat (current_heart_beat, 0)" in eh[hb:] else "false"))
        # (5b) error_handler, caught branch: catch_value (a global that every catch() executed by the master's handler
        #      overwrites) is assigned AFTER mudlib_error_handler (err, 1) returned, directly before the longjmp
        mh1 = re.search(r"mudlib_error_handler\s*\(\w+,\s*1\)", eh)
        i_h1 = mh1.start() if mh1 else -1
        i_cv = pos(eh, "catch_value.u.string = string_copy")
        i_free = pos(eh, "free_svalue (&catch_value")
        i_jmp = pos(eh, "longjmp (current_error_context->context, 1)")
        out.append("/-- error_handler (caught error): the master's handler is applied first, then catch_value is freed and set to the "
                   "message, then the longjmp; nothing that can run LPC sits between the assignment and the longjmp -/\n"
                   "def errorHandlerSetsCatchValueAfterHandler : Bool := %s"
                   % ("true" if 0 <= i_h1 < i_free < i_cv < i_jmp and not re.search(r"\b(apply\w*|mudlib_error_handler|call_\w+)\s*\(", eh[i_cv:i_jmp]) else "false"))
        # (5c) error_handler: in_mudlib_error_handler is cleared for an error raised inside the master's handler only when that
        #      error is delivered to the context that was current at the handler's entry (the handler is abandoned)
        clears = [mm.start() for mm in re.finditer(r"in_mudlib_error_handler\s*=\s*0\s*;", eh)]
        guard_re = r"if\s*\(current_error_context\s*==\s*mudlib_error_handler_context\)\s*\{?\s*$"
        guarded = [c for c in clears if re.search(guard_re, eh[:c].rstrip())]
        entries = len(re.findall(r"mudlib_error_handler_context\s*=\s*current_error_context\s*;\s*(?:in_error\s*=\s*0\s*;\s*)?mudlib_error_handler\s*\(", eh))
        out.append("/-- error_handler: the two `in_mudlib_error_handler = 0` of the 'error inside the mudlib handler' branches are guarded by "
                   "`current_error_context == mudlib_error_handler_context`; both handler applies record the entry context -/\n"
                   "def errorHandlerKeepsFlagInsideHandler : Bool := %s" % ("true" if len(guarded) == 2 and entries == 2 else "false"))
        # (5d) … and the limit bits (ES_STACK_FULL / ES_MAX_EVAL_COST) of the error the handler runs for are recorded at both
        #      entries and re-instated in the same two guarded places, i.e. only when the handler is abandoned
        reinst = [c for c in guarded if re.match(r"in_mudlib_error_handler\s*=\s*0\s*;\s*set_error_state\s*\(handler_limit_state\)\s*;\s*\}", eh[c:])]
        recorded = len(re.findall(r"handler_limit_state\s*=\s*\w+\s*;\s*in_mudlib_error_handler\s*=\s*1\s*;", eh))
        after = len(re.findall(r"mudlib_error_handler\s*\(\w+,\s*[01]\)\s*;\s*(?:in_error\s*=\s*1\s*;\s*)?in_mudlib_error_handler\s*=\s*0\s*;\s*set_error_state\s*\(\w+\)", eh))
        out.append("/-- error_handler: the limit bits are recorded before both handler applies, set again after a handler that returned, and "
                   "re-instated for an error raised inside the handler only where the flag is cleared (handler abandoned) -/\n"
                   "def errorHandlerKeepsLimitState : Bool := %s" % ("true" if len(reinst) == 2 and recorded == 2 and after == 2 else "false"))
        # (6) backend(): one context for the whole loop; recovery = restore_context only; pop_context after the loop
        be = body("src/backend.c", "backend")
        i_save, i_set, i_loop, i_pop = pos(be, "save_context (&econ)"), pos(be, "if (setjmp (econ.context))"), pos(be, "while (1)"), pos(be, "pop_context (&econ)")
        rec = re.search(r"if\s*\(setjmp\s*\(econ\.context\)\)\s*\{?\s*restore_context\s*\(&econ\)\s*;", be)
        out.append("/-- backend(): clear_state; save_context; `if (setjmp) restore_context;` before the loop; pop_context after it; "
                   "current_interactive cleared at the top of the loop -/\ndef backendRecoveryShape : Bool := %s"
                   % ("true" if rec and 0 <= pos(be, "clear_state ()") < i_save < i_set < i_loop < i_pop and
                      re.search(r"while\s*\(1\)\s*\{\s*current_interactive\s*=\s*0\s*;", be) else "false"))
        sw = body("src/backend.c", "look_for_objects_to_swap")
        rec2 = re.search(r"save_context\s*\(&econ\)\s*;\s*if\s*\(setjmp\s*\(econ\.context\)\)\s*\{?\s*restore_context\s*\(&econ\)\s*;", sw)
        out.append("/-- look_for_objects_to_swap(): its own context around the whole sweep (reset / clean_up) -/\ndef sweepRecoveryShape : Bool := %s"
                   % ("true" if rec2 and pos(sw, "pop_context (&econ)") > pos(sw, "APPLY_CLEAN_UP") > 0 else "false"))
        chb = body("src/backend.c", "call_heart_beat")
        i1, i2, i3 = pos(chb, "current_heart_beat = ob"), pos(chb, "command_giver = ob"), pos(chb, "call_function (ob->prog")
        out.append("/-- call_heart_beat(): current_heart_beat and command_giver are set before call_function pushes the frame; cleared after -/\n"
                   "def heartBeatSetsRegistersBeforeFrame : Bool := %s"
                   % ("true" if 0 <= i1 < i2 < i3 < pos(chb, "command_giver = 0", i3) < pos(chb, "current_heart_beat = 0", i3) else "false"))
        # (7) inventory: C functions that call back into LPC (a callback can longjmp past them) and whether they leave a
        #     T_ERROR_HANDLER slot on the value stack that releases / resets what their C locals and statics hold
        inv = []
        prim = re.compile(r"\b(call_efun_callback|call_function_pointer|apply|apply_master_ob|safe_apply|safe_call_function_pointer|"
                          r"call_function|process_efun_callback)\s*\(")
        files = ["lib/lpc/array.c", "lib/lpc/mapping.c", "src/simulate.c", "src/comm.c", "src/backend.c", "lib/efuns/call_out.c"]
        edir = os.path.join(E.REPO, "lib/efuns")
        files += sorted("lib/efuns/" + f for f in os.listdir(edir) if f.endswith(".c") and f != "call_out.c")
        for rel in files:
            try:
                t = open(os.path.join(E.REPO, rel), errors="replace").read()
            except OSError:
                continue
            t = re.sub(r"/\*.*?\*/", "", t, flags=re.S)
            t = re.sub(r"//[^\n]*", "", t)
            t = re.sub(r'"(\\.|[^"\\\n])*"', '""', t)
            depth, start, hdr0 = 0, 0, 0
            for i, ch in enumerate(t):
                if ch == "{":
                    if depth == 0:
                        start = i
                        header = t[hdr0:i]
                    depth += 1
                elif ch == "}":
                    depth -= 1
                    if depth == 0:
                        fb = t[start:i + 1]
                        hdr0 = i + 1
                        mm = re.findall(r"(\w+)\s*\(", header)
                        if not mm or not re.search(r"\)\s*$", header.strip()):
                            continue
                        cbs = sorted(set(x for x in prim.findall(fb) if not x.startswith("safe_")))
                        if cbs:
                            inv.append((mm[0] if mm[0] not in ("defined",) else mm[-1], "T_ERROR_HANDLER" in fb, rel))
                elif ch == ";" and depth == 0:
                    hdr0 = i + 1
        out.append("/-- C functions that call back into LPC without a recovery point of their own (callback can longjmp past them): "
                   "(function, leaves a T_ERROR_HANDLER slot) -/\ndef callbackSites : List (String × Bool) := [%s]"
                   % ", ".join('("%s", %s)' % (n, "true" if h else "false") for n, h, _ in inv))
        # (8) every T_ERROR_HANDLER slot pushed on the value stack (run by the unwinding): (file, handler function)
        slots = []
        for root in ("src", "lib"):
            for dp, dn, fn in os.walk(os.path.join(E.REPO, root)):
                for f in sorted(fn):
                    if f.endswith(".c"):
                        t = re.sub(r"/\*.*?\*/", "", open(os.path.join(dp, f), errors="replace").read(), flags=re.S)
                        for hm in re.finditer(r"->\s*u\.error_handler\s*=\s*(\w+)\s*;", t):
                            slots.append((f, hm.group(1)))
        slots = sorted(set(slots))
        out.append("/-- every `…->u.error_handler = f;` of the source: (file, handler) -/\n"
                   "def errorHandlerSlots : List (String × String) := %s" % pairs(slots))
        # (8b) none of those handler functions calls back into LPC or raises an error (an error inside a handler that runs
        #      while the stack is being unwound would re-enter the unwinding)
        bad_handlers = []
        for f, h in slots:
            for root in ("src", "lib"):
                for dp, dn, fn in os.walk(os.path.join(E.REPO, root)):
                    if f in fn:
                        try:
                            hb = body(os.path.relpath(os.path.join(dp, f), E.REPO), h)
                        except X.TieBroken:
                            continue
                        if prim.search(hb) or re.search(r"\berror\s*\(", hb):
                            bad_handlers.append(h)
        # (8c) what every registered handler puts back: the file-scope state it assigns (each efun that keeps C state in a
        #      global across its callbacks registers a handler that unlinks / restores it when the stack is unwound)
        assigns = []
        for f, h in slots:
            for root in ("src", "lib"):
                for dp, dn, fn in os.walk(os.path.join(E.REPO, root)):
                    if f in fn:
                        try:
                            hb = body(os.path.relpath(os.path.join(dp, f), E.REPO), h)
                        except X.TieBroken:
                            continue
                        decl = set(re.findall(r"\b(?:\w+\s+)+\**\s*(\w+)\s*(?:=|;|,)", re.sub(r"[{};]\s*(\w+)\s*=", ";", hb)))
                        local = set(re.findall(r"(?:^|[{;])\s*(?:struct\s+)?\w+\s+\**(\w+)\s*(?:=[^;]*)?(?:,\s*\**\w+\s*(?:=[^;]*)?)*;", hb))
                        local |= set(re.findall(r",\s*\*?(\w+)\s*;", hb))
                        for lv in re.findall(r"(?:^|[{;)])\s*([A-Za-z_][\w]*(?:->\w+|\.\w+)*)\s*=[^=]", hb):
                            if lv.split("->")[0].split(".")[0] not in local:
                                assigns.append((h, lv))
        assigns = sorted(set(assigns))
        out.append("/-- (handler of a T_ERROR_HANDLER slot, file-scope state it assigns when it runs) -/\n"
                   "def handlerAssigns : List (String × String) := %s" % pairs(assigns))
        for want in self.HANDLER_EFFECTS:
            if want not in assigns:
                E.log("C05 translator: handler %s no longer assigns %s (the state an abandoned efun leaves behind)" % want)
        out.append("/-- handlers of T_ERROR_HANDLER slots that call back into LPC or raise an error -/\n"
                   "def errorHandlersThatCallBack : List String := %s" % lst(sorted(set(bad_handlers))))
        # (8d) F_EFUNV: the spread count is taken and CLEARED before the argument types are checked (the check can raise an error)
        try:
            ei = re.sub(r"/\*.*?\*/", "", open(os.path.join(E.REPO, "src/interpret.c")).read(), flags=re.S)
            cm = re.search(r"case\s+F_EFUNV\s*:(.*?)continue\s*;", ei, re.S)
            blk = cm.group(1) if cm else ""
        except OSError:
            blk = ""
        i_take, i_clr, i_chk = pos(blk, "+ num_varargs"), pos(blk, "num_varargs = 0"), pos(blk, "CHECK_TYPES")
        out.append("/-- eval_instruction, F_EFUNV: `st_num_arg = … + num_varargs; num_varargs = 0;` come before the CHECK_TYPES loop -/\n"
                   "def efunvClearsSpreadCountBeforeTypeCheck : Bool := %s" % ("true" if 0 <= i_take < i_clr < i_chk else "false"))
        # (9) destruct_object of a vital object: slot pushed and both names recorded BEFORE the name is blanked; the handler
        #     restores both names; the two by-hand back-outs restore the name and drop the slot before raising
        dob = body("src/simulate.c", "destruct_object")
        i_slot = pos(dob, "sp->u.error_handler = fix_object_names")
        i_m = pos(dob, "saved_master_name = master_ob")
        i_s = pos(dob, "saved_simul_name = simul_efun_ob")
        i_blank = pos(dob, 'ob->name = ""')
        i_load = pos(dob, "new_ob = load_object (tmp")
        out.append("/-- destruct_object: the fix_object_names slot is pushed and both names are recorded before `ob->name = \"\"`, which comes "
                   "before the reload -/\ndef destructRecordsNamesBeforeBlanking : Bool := %s"
                   % ("true" if 0 <= i_slot < i_blank and 0 <= i_m < i_blank and 0 <= i_s < i_blank < i_load else "false"))
        fon = body("src/simulate.c", "fix_object_names")
        out.append("/-- fix_object_names puts both recorded names back -/\ndef fixObjectNamesRestoresBoth : Bool := %s"
                   % ("true" if re.search(r"master_ob->name\s*=\s*saved_master_name\s*;", fon) and
                      re.search(r"simul_efun_ob->name\s*=\s*saved_simul_name\s*;", fon) else "false"))
        out.append("/-- destruct_object: back-outs by hand (`ob->name = tmp; sp--; error (…)`) -/\ndef destructManualBackouts : Nat := %d"
                   % len(re.findall(r"ob->name\s*=\s*tmp\s*;\s*sp--\s*;\s*error\s*\(", dob)))
        self.callback_inventory = {"sites": len(inv), "error_handler_slots": ["%s:%s" % x for x in slots], "with_error_handler": [n for n, h, _ in inv if h],
                                   "by_file": {r: sum(1 for _, _, rr in inv if rr == r) for r in sorted(set(r for _, _, r in inv))}}
        return out

    def prepare(self, ctx):
        # do_comm_polling() is wrapped at link level: the poll point of a backend() cycle is where the harness scripts events
        self.exe = E.compile_harness("c05", [os.path.join(E.VERIF, "harness/c05/c05.c")], extra=("-Wl,--wrap=do_comm_polling",))
        self.conf = E.make_mudlib(ctx.rundir, master="/c05/master.c")

    def run_impl(self, ctx, cases):
        # a case that broke the master FILE on purpose and then crashed (changed driver) must not poison the next harness start
        good = os.path.join(ctx.rundir, "mudlib/c05/master.good")
        if os.path.exists(good):
            os.replace(good, os.path.join(ctx.rundir, "mudlib/c05/master.c"))
        return E.run_harness(self.exe, self.conf, cases, ctx.rundir)

    def shrink_ok(self, lines):
        """a shrunk case stays self-contained: the scratch mudlib keeps files written by earlier cases of the same run, so a
        case without its `src` lines would still "work" there but not as a replay"""
        srcs = set(l.split()[1] for l in lines if l.startswith("src ") and len(l.split()) >= 3)
        evaluates = any(l.split()[0] in ("inject", "run", "injectco", "injectbe", "injectsafe", "injectsafefp") for l in lines if l.strip())
        if evaluates and "/c05/gen/t.c" not in srcs:
            return False
        # generated files that the LPC sources themselves load (prep(), go()) must stay as well
        import re
        for l in lines:
            f = l.split()
            if len(f) >= 3 and f[0] == "src":
                try:
                    text = bytes.fromhex(f[2]).decode(errors="replace")
                except ValueError:
                    continue
                for ref in set(re.findall(r'"(/c05/gen/\w+)"', text)):
                    if ref + ".c" not in srcs:
                        return False
        for l in lines:
            f = l.split()
            if len(f) == 3 and f[0] == "load" and f[2].startswith("/c05/gen/") and f[2] + ".c" not in srcs:
                return False
        return True

    def canon(self, lines):
        return [l.rstrip() for l in lines if l.strip() != "" and not l.startswith("info ")]

    # ---- generators ------------------------------------------------------
    def boundary(self):
        B = []
        # the repaired defect: input_to of a missing function must not leave a sentence behind
        B.append(fixed_case("b-input_to-nosuch", CATCHSTMT % 'input_to ("no_such_fn")',
                            "(catch (install input_to bad)) (saycatch)",
                            tail=["# ops (catch (install input_to bad)) (saycatch)", "run t run", "input u1 hello"]))
        B.append(fixed_case("b-input_to-ok", 'VL ("say did-input_to"); input_to ("cb");',
                            "(say did-input_to) (install input_to ok)",
                            tail=["# ops (say did-input_to) (install input_to ok)", "run t run", "input u1 hello"]))
        # the repaired defect: a failing safe apply must not leave its argument on the stack
        B.append(fixed_case("b-safe-apply-error", 'vsel = 1; s = sprintf ("%O", this_object ()); VL ("say after");',
                            "(tmp 1 (safe 1 1 (call other t 0 0 (raise boom1)))) (say after)",
                            vname='if (vsel == 1) error ("boom1\\n");'))
        # catch in catch, throw through frames
        B.append(fixed_case("b-catch-in-catch", CATCHSTMT % "f1 ()", "(catch (call local t 0 0 (catch (call local t 0 0 (throw t9))) (saycatch) (raise boom2))) (saycatch)",
                            fns=["void f2 () { throw (\"t9\"); }",
                                 "void f1 () { %s %s error (\"boom2\\n\"); }" % (DECL, CATCHSTMT % "f2 ()")]))
        # command_giver changed inside the failed call
        B.append(fixed_case("b-cg-in-catch", CATCHSTMT % "f1 ()", "(catch (call local t 0 0 (say set-cg) (setreg cg t) (raise boom3))) (saycatch)",
                            fns=['void f1 () { VL ("say set-cg"); enable_commands (); error ("boom3\\n"); }']))
        B.append(fixed_case("b-cg-top", 'VL ("say set-cg"); enable_commands (); f1 ();', "(say set-cg) (setreg cg t) (call local t 0 0 (raise boom4))",
                            fns=['void f1 () { error ("boom4\\n"); }']))
        # the two guards (num_objects_this_thread, restrict_destruct) after a CAUGHT error or throw inside a load /
        # inside a move_or_destruct() hook: they must be what they were at the catch point
        obj = '#include "/include/vcommon.h"\nvoid create () { %s }\n'
        B.append(fixed_case("b-throw-in-load", CATCHSTMT % 'load_object ("/c05/gen/LT")',
                            "(catch (tmp 1 (load (call other t 0 0 (throw t1))))) (saycatch)",
                            prep='if (p0 = find_object ("/c05/gen/LT")) destruct (p0);',
                            extra_files={"LT": obj % 'throw ("t1");'}))
        B.append(fixed_case("b-error-in-load", CATCHSTMT % 'load_object ("/c05/gen/LE")',
                            "(catch (tmp 1 (load (call other t 0 0 (raise boom5))))) (saycatch)",
                            prep='if (p0 = find_object ("/c05/gen/LE")) destruct (p0);',
                            extra_files={"LE": obj % 'error ("boom5\\n");'}))
        B.append(fixed_case("b-catch-in-create", 'load_object ("/c05/gen/LC"); VL ("say after");',
                            "(tmp 1 (load (call other t 0 0 (catch (call local t 0 0 (raise boom6))) (say in-create)))) (say after)",
                            prep='if (p0 = find_object ("/c05/gen/LC")) destruct (p0);',
                            extra_files={"LC": '#include "/include/vcommon.h"\nvoid f () { error ("boom6\\n"); }\n'
                                               'void create () { mixed e; e = catch (f ()); VL ("say in-create"); }\n'}))
        dsrc = ('#include "/include/vcommon.h"\nvoid create () { seteuid (getuid ()); }\n'
                'void move_or_destruct (object d) { %s }\nvoid enter (object b) { move_object (b); }\n')
        dprep = ('if (p0 = find_object ("/c05/gen/%s")) destruct (p0); if (bx) destruct (bx); bx = new ("/c05/box"); '
                 'load_object ("/c05/gen/%s"); "/c05/gen/%s"->enter (bx);')
        B.append(fixed_case("b-error-in-dhook", CATCHSTMT % "destruct (bx)",
                            "(catch (tmp 1 (dhook t (call other t 1 1 (raise boom7))))) (saycatch)",
                            fns=["object bx;"], prep=dprep % ("DE", "DE", "DE"),
                            extra_files={"DE": dsrc % 'error ("boom7\\n");'}))
        B.append(fixed_case("b-throw-in-dhook", CATCHSTMT % "destruct (bx)",
                            "(catch (tmp 1 (dhook t (call other t 1 1 (throw t8))))) (saycatch)",
                            fns=["object bx;"], prep=dprep % ("DT", "DT", "DT"),
                            extra_files={"DT": dsrc % 'throw ("t8");'}))
        # a safe apply with two surplus arguments made from INSIDE an LPC evaluation: compiling a broken file makes the
        # compiler call master::log_error(file, message), declared without parameters in the C05 master
        B.append(fixed_case("b-arity-log_error", 'a = ({ 1, 2, 3 }); ' + CATCHSTMT % 'load_object ("/c05/gen/BAD")' + ' VL ("say kept-" + sizeof (a));',
                            # (the error after the safe apply is raised by the same efun, not by an LPC instruction: `craise`)
                            "(catch (tmp 1 (load (safe 2 0 (say compile-error)) (craise *Error in loading object '/c05/gen/BAD':)))) (saycatch) (say kept-3)",
                            extra_files={"BAD": "void create () { int x = ; }\n"}))
        # arity: safe_apply() from driver level with surplus / missing arguments (-3..+3), few / many locals
        for passed in range(4):
            for declared in range(4):
                for nlocals in (0, 4):
                    for body in ("say", "raise", "call"):
                        B.append(arity_case(passed, declared, nlocals, body))
                    for body in ("say", "raise"):
                        B.append(arity_fp_case(passed, declared, nlocals, body))
        # the control-stack limit: every kind of frame push / save_context placed at exactly limit-2, limit-1 and limit
        # frames (save_context refuses at `limit` frames and must leave the chain alone)
        for action in sorted(DEPTH_ACTIONS):
            for delta in (-2, -1, 0):
                for outer in (False, True):
                    B.append(depth_case(action, 8, 8 + delta, outer))
        # the recovery points of backend(): a command that throws, a heart beat that throws (switched off), reset() and
        # clean_up() that throw; each also completing, with a caught error, and with a failing safe apply inside (which
        # switches the heart beat off although heart_beat() goes on: error_handler does not look at who receives the error)
        be_bodies = [("say", 'VL ("say x");', "(say x)", ""),
                     ("raise", 'error ("boom1\\n");', "(raise boom1)", ""),
                     ("throw", 'throw ("t1");', "(throw t1)", ""),
                     ("caught", CATCHSTMT % "f1 ()" + ' VL ("say after");', "(catch (call local t 0 0 (raise boom2))) (saycatch) (say after)", ""),
                     ("safe-error", 'vsel = 1; s = sprintf ("%O", this_object ()); VL ("say after");',
                      "(tmp 1 (safe 1 1 (call other t 0 0 (raise boom3)))) (say after)", 'if (vsel == 1) error ("boom3\\n");'),
                     ("deep", "f2 ();", "(call local t 0 0 (call other t 0 0 (call fplocal t 0 0 (raise boom4))))", "")]
        be_fns = ['void f1 () { error ("boom2\\n"); }', 'void f4 () { error ("boom4\\n"); }', "void f3 () { evaluate ((: f4 :)); }",
                  "void f2 () { this_object ()->f3 (); }"]
        for kind in ("cmd", "hb", "hbc", "reset", "cleanup"):
            for name, stmt, bops, vn in be_bodies:
                B.append(fixed_case("b-backend-%s-%s" % (kind, name), stmt, BE_OPS[kind] % bops, fns=be_fns, prep=BE_PREP[kind],
                                    vname=vn, inject="injectbe " + BE_INJECT[kind], extra_head=["setcg 0"]))
        # the command_giver save stack (simulate.c): notify_no_command() calls the notify_fail() function with
        # command_giver pushed; an error in that function must not leave the stack one deeper
        for name, stmt, bops in (("say", 'VL ("say x");', "(say x)"), ("raise", 'error ("boom1\\n");', "(raise boom1)"),
                                 ("throw", 'throw ("t1");', "(throw t1)")):
            for outer in (False, True):
                call = '"/c05/user"->failcmd ();'
                o = "(call other u1 0 0 (say set-cg) (setreg cg u1) (tmp 1 (withcg u1 (safefp u1 0 0 (say nf) (call other t 0 0 %s)))))" % bops
                B.append(fixed_case("b-notify-fail-%s%s" % (name, "-caught" if outer else ""),
                                    (CATCHSTMT % '"/c05/user"->failcmd ()') if outer else call,
                                    ("(catch %s) (saycatch)" % o) if outer else o,
                                    fns=["void nfbody () { %s }" % stmt]))
        # the T_ERROR_HANDLER slot of destruct_object(): destruct of the master / the simul_efun object whose reload fails -
        # refused (caller without euid), error / throw in create() of the new copy, fault at every instruction of it
        vobj = '#include "/include/vcommon.h"\nvoid go () { destruct (%s); }\n'
        for which, expr in (("master", "master ()"), ("simul", 'find_object ("/simul_efun")')):
            for outer in (False, True):
                call = '"/c05/gen/VN"->go ();'
                o = ("(call other t 0 0 (tmp 1 (vital master (craise *Can't load objects when no effective user.))))" if which == "master"
                     else "(call other t 0 0 (tmp 1 (craise *Cannot destruct simul_efun_object while master_object exists.)))")
                B.append(fixed_case("b-vital-%s-noeuid%s" % (which, "-caught" if outer else ""),
                                    (CATCHSTMT % '"/c05/gen/VN"->go ()') if outer else call,
                                    ("(catch %s) (saycatch)" % o) if outer else o,
                                    prep='if (p0 = find_object ("/c05/gen/VN")) destruct (p0); load_object ("/c05/gen/VN");',
                                    extra_files={"VN": vobj % expr}))
        # … and the master FILE does not compile any more (the compiler's log_error safe apply runs in the old master, whose
        # name is blank at that moment); prep() of the next evaluation puts the good file back
        fix_file = ('if (file_size ("/c05/master.good") > 0) { rm ("/c05/master.c"); rename ("/c05/master.good", "/c05/master.c"); }')
        brk = ('rename ("/c05/master.c", "/c05/master.good"); write_file ("/c05/master.c", "void create () { int x = ; }\\n"); ')
        for outer in (False, True):
            o = "(tmp 1 (vital master (load (safe 2 0 (say compile-error)) (craise *Error in loading object '/c05/master':))))"
            # (rename / write_file ask the master's valid_write: applies made by efuns, LPC instructions of the master run)
            pre = "(tmp 2 (cb other master 3 3)) (tmp 2 (cb other master 3 3)) "
            B.append(fixed_case("b-vital-master-compile-error%s" % ("-caught" if outer else ""),
                                brk + ((CATCHSTMT % "destruct (master ())") if outer else "destruct (master ());"),
                                pre + (("(catch %s) (saycatch)" % o) if outer else o), prep=fix_file,
                                # (the scratch mudlib is shared by the cases of a run: put the good file back at the end)
                                tail=["vapply t prep"]))
        for name, stmt, bops in (("say", 'VL ("say x");', "(say x)"), ("raise", 'error ("boom1\\n");', "(raise boom1)"),
                                 ("throw", 'throw ("t1");', "(throw t1)"),
                                 ("caught-inside", CATCHSTMT % "f1 ()", "(catch (call local t 0 0 (raise boom2))) (saycatch)")):
            for outer in (False, True):
                call = "mflag = 1; destruct (master ());"
                o = "(tmp 1 (vital master (load (call other master 0 0 (call other t 0 0 %s))) (call other master 0 0)))" % bops
                B.append(fixed_case("b-vital-master-create-%s%s" % (name, "-caught" if outer else ""),
                                    ("mflag = 1; " + CATCHSTMT % "destruct (master ())") if outer else call,
                                    ("(catch %s) (saycatch)" % o) if outer else o,
                                    fns=['void f1 () { error ("boom2\\n"); }',
                                         "void mcreate () { %s if (mflag) { mflag = 0; %s } }" % (DECL, stmt)]))
        # boundary sizes of the unwinding: 255 / 256 / 300 / 70000 values between the recovery point and the error (an array
        # literal pushes all its elements before it aggregates them)
        for n in (255, 256, 300, 70000):
            if n > 1000:
                continue      # (the value stack of the default configuration holds fewer: kept for a larger EvaluatorStackSize)
            lit = "({ " + "1, " * n + "f1 () })"
            for outer in (False, True):
                o = "(tmp %d (call local t 0 0 (raise boom1)))" % n
                B.append(fixed_case("b-unwind-%d%s" % (n, "-caught" if outer else ""),
                                    (CATCHSTMT % lit) if outer else ("a = %s;" % lit),
                                    ("(catch %s) (saycatch)" % o) if outer else o,
                                    fns=['int f1 () { error ("boom1\\n"); return 1; }']))
        # nested efun callbacks: X in X and sort_array in X, the inner one fails by error() / throw(), caught by the outer callback
        uid = 0
        for outer in sorted(NEST):
            for inner in sorted(set([outer, "sort"])):
                for how, ib, iops in (("error", 'error ("boom1\\n");', "(raise boom1)"), ("throw", 'throw ("t1");', "(throw t1)"),
                                      ("ok", "", "")):
                    uid += 1
                    st, op, fns, gl, pr = nested_efun(uid, outer, inner, ib, iops)
                    B.append(fixed_case("b-nested-%s-in-%s-%s" % (inner, outer, how), " ".join(st), op, fns=gl + fns, prep=" ".join(pr)))
        # `...` spreads: the interpreter's spread counter (num_varargs) after an error raised by the type check of the receiving
        # efun, after an error in a LATER argument, in a local call; caught and uncaught
        spreads = [("efun-typeerr", 'a = ({ 1, 2, 3 }); call_other (0, "nofn", a...);',
                    "(spread 3) (consume) (craise Bad argument 1 to call_other<>, Expected: string or array or object Got: 0.)"),
                   ("sprintf-typeerr", 'a = ({ 1, 2, 3 }); s = sprintf (0, a...);',
                    "(spread 3) (consume) (craise Bad argument 1 to sprintf<>, Expected: string Got: 0.)"),
                   ("efun-ok", 'a = ({ 1, 2 }); VL ("say x-" + sprintf ("%d%d", a...));', "(spread 2) (consume) (say x-12)"),
                   # an error raised by a LATER argument (the compiler expands the spread after all arguments are pushed)
                   ("later-arg-error", 'a = ({ 1, 2, 3 }); s = sprintf ("%d", a..., a[9]);', "(raisemsg *Array index out of bounds.)")]
        # … and what the master's error handler sees (it runs BEFORE the unwinding): script 32, evaluated without fault injection
        for name, stmt, sops in spreads[:2]:
            for outer in (False, True):
                B.append(fixed_case("b-handler-scratch-%s%s" % (name, "-caught" if outer else ""),
                                    (CATCHSTMT % "sg ()") if outer else "sg ();",
                                    ("(catch (call local t 0 0 %s)) (saycatch)" % sops) if outer else "(call local t 0 0 %s)" % sops,
                                    fns=["void sg () { %s %s }" % (DECL, stmt)], prep="master ()->set_hscript (32);", inject="run t run"))
        for name, stmt, sops in spreads:
            for outer in (False, True):
                B.append(fixed_case("b-spread-%s%s" % (name, "-caught" if outer else ""),
                                    (CATCHSTMT % "sg ()") if outer else "sg ();",
                                    ("(catch (call local t 0 0 %s)) (saycatch)" % sops) if outer else "(call local t 0 0 %s)" % sops,
                                    fns=['void sf (int x, int y, int z) { error ("boom1\\n"); }',
                                         'void sk (int x, int y, int z) { VL ("say in-sk"); }',
                                         "void sg () { %s %s }" % (DECL, stmt)]))
        # frameless errors: an error raised under a recovery point BEFORE any frame was pushed since it was set (a safe
        # function-pointer call whose owner is destructed), at a call depth where the control-stack slot above csp was last used
        # by a call made from ANOTHER object; restore_context must not touch that stale frame
        aobj = '#include "/include/vcommon.h"\nvoid go () { "/c05/probe"->twice (1); }\n'
        dead_prep = ('if (p0 = find_object ("/c05/fpo")) destruct (p0); p0 = load_object ("/c05/fpo"); '
                     'notify_fail (p0->getfp ()); destruct (p0); load_object ("/c05/gen/AO");')
        ao_ops = "(call other t 0 0 (call other t 1 1))"
        cmd_ops = ("(call other u1 0 0 (tmp 1 (withcg u1 (safefp u1 0 0 "
                   "(craise *Owner </c05/fpo> of function pointer is destructed.)))))")
        dead_ops = ao_ops + " " + cmd_ops
        for outer in (False, True):
            call = '"/c05/gen/AO"->go (); "/c05/user"->deadcmd ();'
            B.append(fixed_case("b-frameless-dead-fp%s" % ("-caught" if outer else ""),
                                ('"/c05/gen/AO"->go (); ' + CATCHSTMT % '"/c05/user"->deadcmd ()') if outer else call,
                                (ao_ops + " (catch %s) (saycatch)" % cmd_ops) if outer else dead_ops,
                                prep=dead_prep, extra_files={"AO": aobj}, inject="run t run"))
        # … the same frameless error INSIDE the master's error handler (script 64): no master apply pushes a frame over the stale
        # slot there
        for name, stmt, hops in (("uncaught", "f1 ();", "(call local t 0 0 (raise boom1))"),
                                 ("caught", CATCHSTMT % "f1 ()", "(catch (call local t 0 0 (raise boom1))) (saycatch)")):
            B.append(fixed_case("b-frameless-in-handler-%s" % name, stmt, hops, fns=['void f1 () { error ("boom1\\n"); }'],
                                prep=dead_prep + " master ()->set_hscript (64);", extra_files={"AO": aobj}, inject="run t run"))
        # last_verb (query_verb()): an error in a verb function must not leave it set after the command
        for name, stmt, bops in (("say", 'VL ("say x");', "(say x)"), ("raise", 'error ("boom1\\n");', "(raise boom1)"),
                                 ("throw", 'throw ("t1");', "(throw t1)")):
            for outer in (False, True):
                call = '"/c05/user"->gocmd ();'
                o = "(call other u1 0 0 (tmp 1 (withcg u1 (verb go (call other u1 1 1 (say dogo) (call other t 0 0 %s))))))" % bops
                B.append(fixed_case("b-verb-%s%s" % (name, "-caught" if outer else ""),
                                    (CATCHSTMT % '"/c05/user"->gocmd ()') if outer else call,
                                    ("(catch %s) (saycatch)" % o) if outer else o,
                                    fns=["void gobody () { %s }" % stmt]))
        # what a catch yields when the master's error_handler itself runs LPC with catch() / throw() / efun callbacks
        # between "error raised" and "error delivered" (evaluated without fault injection: `run`)
        hfns = ['void f1 () { error ("boom1\\n"); }', "int f2 (int x) { f1 (); return x; }",
                "void f3 () { %s %s error (\"boom2\\n\"); }" % (DECL, CATCHSTMT % "f1 ()")]
        hshapes = [("plain", CATCHSTMT % "f1 ()", "(catch (call local t 0 0 (raise boom1))) (saycatch)"),
                   ("nested", CATCHSTMT % "f3 ()",
                    "(catch (call local t 0 0 (catch (call local t 0 0 (raise boom1))) (saycatch) (raise boom2))) (saycatch)"),
                   ("callback", CATCHSTMT % "map (({ 1 }), (: f2 :))",
                    "(catch (tmp 3 (cb fplocal t 1 1 (call local t 0 0 (raise boom1))))) (saycatch)"),
                   ("if", 'if (catch (f1 ())) VL ("say failed"); else VL ("say succeeded");',
                    "(catch (call local t 0 0 (raise boom1))) (say failed)"),
                   ("uncaught", 'f1 ();', "(call local t 0 0 (raise boom1))")]
        # (31 = several errors caught inside ONE handler run: before the repair the driver cleared its "in the mudlib error
        #  handler" flag at the first one and the second one re-entered the handler recursively - see notes/C05.md)
        for script in (1, 2, 4, 8, 16, 5, 7, 21, 31):
            for name, stmt, hops in hshapes:
                B.append(fixed_case("b-handler-script-%d-%s" % (script, name), stmt, hops, fns=hfns,
                                    prep='master ()->set_hscript (%d);' % script, inject="run t run"))
        # a register changed between save_context and the first frame push is not restored (model predicts it)
        B.append(fixed_case("b-setreg-co", "f1 ();", "(call local t 0 0 (say x))", fns=['void f1 () { VL ("say x"); }'],
                            inject="inject t run co probe"))
        return B

    def generate(self, rng, n, tier):
        out = []
        for i in range(n):
            budget = rng.range(4, 14) if tier != "thorough" else rng.range(4, 22)
            out.append(build_case(rng, "g%d" % i, budget))
        return out

    # ---- oracle self-test: the string judge must reject hand-made bad traces (one per clause) ----
    def extra_checks(self, ctx, tier, rng):
        snap = "sp=-1 csp=-1 cg=u1 co=0 po=0 prog=0 ct=0 fp=-1 pc=null fio=0 vio=0 ctx=0 ld=0 rd=0 cgs=0 qv=0 nva=0 mn=ok sn=ok"
        probe = "caught *probe-err ; probe lit=2 lc=3 ve=5 tp=u1 po=0 d=0 l=0 a=3,4 e=*probe-err  co=42 bal=1 side in=0 hb=0"
        head = ["base " + snap, "probe0 " + probe]
        hb1 = probe.replace("hb=0", "hb=1")     # a heart-beat case: the heart beat of t is on before every evaluation

        def out(segs, after=snap, pr=probe):
            return "outcome %s ; after=%s ; probe=%s" % (" ; ".join(segs), after, pr)
        neg = [
            ("sp", [out(["err *x", "fault-top"], snap.replace("sp=-1", "sp=0"))], "restore fault sp"),
            ("csp", [out(["err *x", "fault-top"], snap.replace("csp=-1", "csp=0"))], "restore fault csp"),
            ("ctx", [out(["done 1"], snap.replace("ctx=0", "ctx=1"))], "restore fault ctx"),
            ("cg-fail", [out(["err *x", "fault-top"], snap.replace("cg=u1", "cg=t"))], "restore fault cg"),
            ("cg-done-unlogged", [out(["done 1"], snap.replace("cg=u1", "cg=t"))], "restore fault cg"),
            ("co", [out(["done 1"], snap.replace("co=0", "co=t"))], "restore fault co"),
            ("pc", [out(["done 1"], snap.replace("pc=null", "pc=set"))], "restore fault pc"),
            ("ld", [out(["caught *x", "catch *x", "done 1"], snap.replace("ld=0", "ld=1"))], "restore fault ld"),
            ("rd", [out(["catch t1", "done 1"], snap.replace("rd=0", "rd=other"))], "restore fault rd"),
            ("cgs", [out(["err *x", "fault-top"], snap.replace("cgs=0", "cgs=1"))], "restore fault cgs"),
            ("qv", [out(["err *x", "fault-top"], snap.replace("qv=0", "qv=set"))], "restore fault qv"),
            ("mn", [out(["caught *x", "catch *x", "done 1"], snap.replace("mn=ok", "mn=blank"))], "restore fault mn"),
            ("sn", [out(["err *x", "fault-top"], snap.replace("sn=ok", "sn=blank"))], "restore fault sn"),
            ("probe", [out(["done 1"], pr=probe.replace("a=3,4", "a=3"))], "probe fault differs"),
            ("nva", [out(["err *Bad argument 1 to call_other()", "fault-top"], snap.replace("nva=0", "nva=2"))], "restore fault nva before=0 after=2 (raised)"),
            ("probe-spread", [out(["err *x", "fault-top"], pr=probe.replace("lit=2", "lit=4"))], "probe fault differs"),
            ("probe-destruct", [out(["done 1"], pr=probe.replace("d=0", "d=*Only this_object() can be destructed"))], "probe fault differs"),
            ("half-install", [out(["caught nf", "catch nf", "done 1"], pr=probe.replace("in=0", "in=1"))], "half-install"),
            ("catch-value", [out(["caught *boom1", "catch *other", "done 1"])], "catch-value"),
            ("co-changed", [out(["err *x", "say back co-changed", "done 1"])], "current_object not restored"),
            ("scratch", [out(["say handler lit=4 scratch-mismatch", "err *x", "fault-top"])], "scratch"),
            ("efun-result", [out(["caught *boom1", "catch *boom1", "say r=3,1,2 result-mismatch", "done 1"])], "efun-result"),
            ("catch-value-zero", [out(["caught *boom1", "catch 0", "done 1"])], "catch-value"),
            ("catch-value-one", [out(["caught *boom1", "catch 1", "done 1"])], "catch-value"),
            ("catch-value-stale", [out(["catch *boom1", "done 1"])], "catch-value"),
            ("cg-changed", [out(["caught *boom1", "catch *boom1 cg-changed", "done 1"])], "command_giver not restored by catch"),
            ("hb-off-unreported", ["probe0 " + hb1, out(["caught *boom1", "catch *boom1", "done be"]).replace("outcome ", "free ", 1)], "heart-beat"),
            ("hb-off-fault-caught", ["probe0 " + hb1, out(["caught *verif injected fault", "catch *verif injected fault", "done be"])], "heart-beat"),
            ("hb-stays-on", ["probe0 " + hb1, out(["fault-top", "loop " + snap], pr=hb1)], "still on after"),
            ("loop-cg", [out(["err *x", "fault-top", "loop " + snap.replace("cg=u1", "cg=t")])], "restore fault-loop cg"),
            ("loop-csp", [out(["err *x", "fault-top", "loop " + snap.replace("csp=-1", "csp=0")])], "restore fault-loop csp"),
            ("crash-line", ["crash signal 11"], "crash"),
            ("sanitizer", ["sanitizer ERROR: AddressSanitizer: SEGV"], "crash"),
        ]
        pos = [("ok-fault", [out(["err *verif injected fault", "fault-top"])]),
               ("ok-setcg", [out(["say set-cg", "done 1"], snap.replace("cg=u1", "cg=t"))]),
               ("ok-install", [out(["say did-input_to", "done 1"], pr=probe.replace("in=0", "in=1"))]),
               ("ok-throw", [out(["catch t7", "done 1"])]),
               ("ok-caught", [out(["caught *boom1", "catch *boom1", "err *boom2", "fault-top"])]),
               ("ok-caught-then-plain", [out(["caught *boom1", "catch *boom1", "catch 0", "done 1"])]),
               ("ok-hb-off", ["probe0 " + hb1, out(["err *boom1", "fault-top", "loop " + snap])]),
               ("ok-loop", [out(["done be", "loop " + snap])])]
        cases, want = [], {}
        for name, lines, expect in neg:
            cid = "oracle-neg-" + name
            cases.append(E.Case(cid, ["# ops (throw t7)", "inject t run", "--"] + head + lines))
            want[cid] = expect
        for name, lines in pos:
            cid = "oracle-pos-" + name
            cases.append(E.Case(cid, ["# ops (throw t7)", "inject t run", "--"] + head + lines))
            want[cid] = None
        res = E.nvdrive(self.id, "judge", E.cases_text(cases))
        problems = []
        for c in cases:
            v = res.get(c.id, [])
            if want[c.id] is None:
                if v != ["ok"]:
                    problems.append({"kind": "obligation-broken", "name": "oracle-self-test " + c.id,
                                     "detail": "the oracle rejects a good trace: %s" % v})
            elif not any(want[c.id] in x for x in v):
                problems.append({"kind": "obligation-broken", "name": "oracle-self-test " + c.id,
                                 "detail": "the oracle accepts a bad trace (expected '%s'): %s" % (want[c.id], v)})
        self.oracle_selftest = {"negative": len(neg), "positive": len(pos), "failed": len(problems)}
        return problems

    def histogram(self, cases, impl):
        h = {}
        for c in cases:
            for k, v in c.meta.get("kinds", {}).items():
                h["op_" + k] = h.get("op_" + k, 0) + v
            for l in impl.get(c.id, []):
                t = l.split(" ", 1)[0]
                if t in ("outcome", "shape"):
                    h[t + "_lines"] = h.get(t + "_lines", 0) + 1
                if l.startswith("outcome") and "fault-top" in l:
                    h["faults_reaching_driver"] = h.get("faults_reaching_driver", 0) + 1
                if l.startswith("outcome") and "catch *verif injected fault" in l:
                    h["faults_caught"] = h.get("faults_caught", 0) + 1
        inv = getattr(self, "callback_inventory", None)
        if inv:
            h["callback_sites_in_source"] = inv["sites"]
            h["callback_sites_with_error_handler"] = len(inv["with_error_handler"])
        return h


PROP = C05()
