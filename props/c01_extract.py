"""Translator parts T3 + T4 for C01 (DESIGN.md 2.3).

T4: clang-14 `-ast-dump=json` filtered per function; the guard in front of every listed error / clamp site is
    recovered as an expression over a small grammar and emitted as `def guard_<site> : Int -> ... -> Bool` in
    NV/Gen/C01.lean.  C integer conversions are explicit (`trunc32`, `truncU64`, ...); every arithmetic node is
    wrapped to the width of its C type, so the Lean value of a guard is the C value for all operands (signed overflow
    = two's complement wrap; the *model* separately reports it as undefined behaviour).
T3: the efun table (name, opcode, min/max args, four argument type masks, default) parsed from the build's generated
    efuns_definition.h / efuns_opcode.h, and the CHECK_TYPES calls of every efun dispatch case of eval_instruction.
Also: the inventory of printf-style calls whose format argument is not a string literal (clang Sema diagnostics
    with format attributes attached to the driver's own variadic functions by a prelude).

A listed site that cannot be located, or whose expression leaves the grammar, raises nvlib.extract.TieBroken.
"""
import json
import os
import re
import subprocess

from nvlib import engine as E
from nvlib.extract import TieBroken

CLANG = "clang-14"
SIZEOF_POINTER = 8

LEAN_PRELUDE = r'''
/-! C integer conversions used by the regenerated guards (value-preserving when the operand is in range) -/
def trunc8 (x : Int) : Int := (x + 128) % 256 - 128
def trunc16 (x : Int) : Int := (x + 32768) % 65536 - 32768
def trunc32 (x : Int) : Int := (x + 2147483648) % 4294967296 - 2147483648
def trunc64 (x : Int) : Int := (x + 9223372036854775808) % 18446744073709551616 - 9223372036854775808
def truncU8 (x : Int) : Int := x % 256
def truncU16 (x : Int) : Int := x % 65536
def truncU32 (x : Int) : Int := x % 4294967296
def truncU64 (x : Int) : Int := x % 18446744073709551616
'''

# C type -> (lean conversion, signed?, bits)
CTYPES = {
    "char": ("trunc8", True, 8), "signed char": ("trunc8", True, 8), "unsigned char": ("truncU8", False, 8),
    "short": ("trunc16", True, 16), "unsigned short": ("truncU16", False, 16),
    "int": ("trunc32", True, 32), "unsigned int": ("truncU32", False, 32),
    "long": ("trunc64", True, 64), "unsigned long": ("truncU64", False, 64),
    "long long": ("trunc64", True, 64), "unsigned long long": ("truncU64", False, 64),
    "_Bool": ("truncU8", False, 8),
}


def ctype(node):
    t = node.get("type", {})
    q = t.get("desugaredQualType") or t.get("qualType") or ""
    q = q.replace("const ", "").replace("volatile ", "").strip()
    return q


def is_pointer(q):
    return q.endswith("*")


# ---------------------------------------------------------------------------------------------------------------
# AST loading

_ast_cache = {}


def ast_function(bdir, relsrc, fn):
    key = (bdir, relsrc, fn)
    if key in _ast_cache:
        return _ast_cache[key]
    src = os.path.join(E.REPO, relsrc)
    cmd = [CLANG, "-Xclang", "-ast-dump=json", "-Xclang", "-ast-dump-filter=" + fn, "-fsyntax-only",
           "-DHAVE_CONFIG_H", "-D_GNU_SOURCE", "-D" + E.GUARD, "-w"] + E.include_flags(bdir) + [src]
    p = subprocess.run(cmd, capture_output=True, text=True)
    if p.returncode != 0:
        raise TieBroken("ast:" + fn, "clang cannot parse %s: %s" % (relsrc, p.stderr[-800:]))
    s = p.stdout
    dec = json.JSONDecoder()
    i = 0
    found = None
    while i < len(s):
        while i < len(s) and s[i].isspace():
            i += 1
        if i >= len(s):
            break
        o, i = dec.raw_decode(s, i)
        if o.get("kind") == "FunctionDecl" and o.get("name") == fn and any(
                c.get("kind") == "CompoundStmt" for c in o.get("inner", [])):
            found = o
    if found is None:
        raise TieBroken("fn:" + fn, "function %s with a body not found in %s" % (fn, relsrc))
    _ast_cache[key] = found
    return found


def strip(n):
    """remove parens and value-preserving casts"""
    while True:
        k = n.get("kind")
        if k == "ParenExpr" or k == "ConstantExpr":
            n = n["inner"][0]
        elif k == "ImplicitCastExpr" and n.get("castKind") in ("LValueToRValue", "NoOp", "FunctionToPointerDecay",
                                                               "ArrayToPointerDecay"):
            n = n["inner"][0]
        else:
            return n


def subtree_has(n, pred):
    if pred(n):
        return True
    return any(subtree_has(c, pred) for c in n.get("inner", []) if isinstance(c, dict))


def callee_name(call):
    f = strip(call["inner"][0])
    if f.get("kind") == "DeclRefExpr":
        return f["referencedDecl"]["name"]
    return None


def string_literal(n):
    n = strip(n)
    while n.get("kind") in ("ImplicitCastExpr", "CStyleCastExpr"):
        n = strip(n["inner"][0])
    if n.get("kind") == "StringLiteral":
        try:
            return json.loads(n["value"])
        except ValueError:
            return n["value"].strip('"')
    return None


def line_of(n):
    r = n.get("range", {}).get("begin", {})
    for loc in (r.get("expansionLoc"), r.get("spellingLoc"), r):
        if loc and "line" in loc:
            return loc["line"]
    return None


# ---------------------------------------------------------------------------------------------------------------
# expression grammar -> Lean

class OutOfGrammar(Exception):
    pass


def const_eval(n):
    """integer constant expressions built from literals, parentheses, + and -"""
    n = strip(n)
    k = n.get("kind")
    if k == "IntegerLiteral":
        return int(n["value"])
    if k in ("ImplicitCastExpr", "CStyleCastExpr") and n.get("castKind") == "IntegralCast":
        return const_eval(n["inner"][0])
    if k == "BinaryOperator" and n.get("opcode") in ("+", "-"):
        a, b = const_eval(n["inner"][0]), const_eval(n["inner"][1])
        if a is None or b is None:
            return None
        return a + b if n["opcode"] == "+" else a - b
    return None


class Tr:
    """translate one C expression tree; collects free leaves as parameters"""

    def __init__(self):
        self.params = []          # (leanName, C text, C type)
        self.by_text = {}
        self.env = {}             # C text -> lean expr after ++x / x += n inside the guard

    # ---- leaves
    def leaf_text(self, n):
        n = strip(n)
        k = n.get("kind")
        if k == "DeclRefExpr":
            return n["referencedDecl"]["name"]
        if k == "MemberExpr":
            return self.leaf_text(n["inner"][0]) + ("->" if n.get("isArrow") else ".") + n.get("name", "?")
        if k == "BinaryOperator" and n.get("opcode") in ("+", "-") and is_pointer(ctype(n)):
            return "(%s%s%s)" % (self.leaf_text(n["inner"][0]), n["opcode"], self.leaf_text(n["inner"][1]))
        if k == "IntegerLiteral":
            return n["value"]
        if k == "ArraySubscriptExpr":
            cv = const_eval(n["inner"][1])
            return "%s[%s]" % (self.leaf_text(n["inner"][0]), cv if cv is not None else self.leaf_text(n["inner"][1]))
        if k == "UnaryOperator" and n.get("opcode") in ("--", "++") and is_pointer(ctype(n)):
            return "(%s%s)" % (n["opcode"], self.leaf_text(n["inner"][0]))
        if k == "BinaryOperator" and n.get("opcode") == "-" and not is_pointer(ctype(n)):
            return "(%s-%s)" % (self.leaf_text(n["inner"][0]), self.leaf_text(n["inner"][1]))
        raise OutOfGrammar("leaf %s" % k)

    def param(self, text, cty, hint=None):
        if text in self.env:
            return self.env[text]
        if text in self.by_text:
            return self.by_text[text]
        base = hint or re.sub(r"[^A-Za-z0-9_]", "_", re.split(r"->|\.", text)[-1]).strip("_") or "v"
        if base[0].isdigit():
            base = "v" + base
        name = base
        k = 2
        used = {p[0] for p in self.params}
        while name in used or name in ("end", "from", "to", "at", "in", "if", "then", "else", "do", "fun", "open", "def"):
            name = "%s%d" % (base, k) if name in used else base + "_"
            k += 1
        self.params.append((name, text, cty))
        self.by_text[text] = name
        return name

    # ---- integer valued expressions
    def wrap(self, cty, e):
        if is_pointer(cty):
            return e
        if cty not in CTYPES:
            raise OutOfGrammar("type %s" % cty)
        return "%s (%s)" % (CTYPES[cty][0], e)

    def int_expr(self, n):
        k = n.get("kind")
        if k in ("ParenExpr", "ConstantExpr"):
            return self.int_expr(n["inner"][0])
        if k == "ImplicitCastExpr" or k == "CStyleCastExpr":
            ck = n.get("castKind")
            inner = n["inner"][0]
            if ck in ("LValueToRValue", "NoOp"):
                return self.int_expr(inner)
            if ck == "IntegralCast":
                return self.wrap(ctype(n), self.int_expr(inner))
            raise OutOfGrammar("cast %s" % ck)
        if k == "IntegerLiteral":
            return n["value"]
        if k == "CharacterLiteral":
            return str(n["value"])
        if k == "DeclRefExpr":
            return self.param(n["referencedDecl"]["name"], ctype(n))
        if k == "MemberExpr":
            return self.param(self.leaf_text(n), ctype(n))
        if k == "ArraySubscriptExpr":
            return self.param(self.leaf_text(n), ctype(n), hint=re.sub(r"_+", "_", re.sub(r"[^A-Za-z0-9_]", "_", self.leaf_text(n))).strip("_"))
        if k == "ConditionalOperator":
            # SVALUE_STRLEN(x): ((x)->subtype & STRING_COUNTED) ? COUNTED_STRLEN(..) : strlen(..)
            if subtree_has(n, lambda m: m.get("kind") == "CallExpr" and callee_name(m) == "strlen"):
                return self.param("SVALUE_STRLEN", ctype(n), hint="slen")
            raise OutOfGrammar("conditional")
        if k == "UnaryExprOrTypeTraitExpr" and n.get("name") == "sizeof":
            arg = n.get("inner", [{}])[0] if n.get("inner") else {}
            t = ctype(strip(arg)) if arg else (n.get("argType", {}).get("qualType", ""))
            m = re.match(r"char ?\[(\d+)\]", t)
            if m:
                return m.group(1)
            t = t.replace("const ", "").strip()
            if t.endswith("*"):
                return str(SIZEOF_POINTER)        # the sanitizer build the harness links against is LP64
            if t in CTYPES:
                return str(CTYPES[t][2] // 8)
            raise OutOfGrammar("sizeof %s" % t)
        if k == "UnaryOperator":
            op = n.get("opcode")
            if op == "-":
                return self.wrap(ctype(n), "- (%s)" % self.int_expr(n["inner"][0]))
            if op == "++" and not n.get("isPostfix"):
                tgt = strip(n["inner"][0])
                text = self.leaf_text(tgt)
                cur = self.param(text, ctype(tgt))
                new = self.wrap(ctype(n), "%s + 1" % cur)
                self.env[text] = "(%s)" % new
                return new
            if op == "!":
                return "(if %s then 0 else 1)" % self.bool_expr(n["inner"][0])
            raise OutOfGrammar("unary %s" % op)
        if k == "CompoundAssignOperator":
            op = n.get("opcode")
            if op in ("+=", "-="):
                tgt = strip(n["inner"][0])
                text = self.leaf_text(tgt)
                cur = self.param(text, ctype(tgt))
                new = self.wrap(ctype(n), "%s %s %s" % (cur, op[0], self.int_expr(n["inner"][1])))
                self.env[text] = "(%s)" % new
                return new
            raise OutOfGrammar("compound %s" % op)
        if k == "BinaryOperator":
            op = n.get("opcode")
            if op in ("+", "-", "*"):
                a = self.int_expr(n["inner"][0])
                b = self.int_expr(n["inner"][1])
                return self.wrap(ctype(n), "%s %s %s" % (a, op, b))
            if op in ("/", "%"):
                a = self.int_expr(n["inner"][0])
                b = self.int_expr(n["inner"][1])
                f = "Int.tdiv" if op == "/" else "Int.tmod"
                return self.wrap(ctype(n), "%s (%s) (%s)" % (f, a, b))
            if op in (">>", "<<"):
                # shift by a literal count: arithmetic shift right = floor division, left = multiplication (wrapped to the type)
                cnt = const_eval(n["inner"][1])
                if cnt is None or not (0 <= cnt < 31):
                    raise OutOfGrammar("shift by a non-literal count")
                a = self.int_expr(n["inner"][0])
                if op == ">>":
                    return self.wrap(ctype(n), "(%s) / %d" % (a, 2 ** cnt))
                return self.wrap(ctype(n), "(%s) * %d" % (a, 2 ** cnt))
            if op == "&":
                # only `x & <literal mask>` on non-negative operands (code & 0x01)
                b = strip(n["inner"][1])
                if b.get("kind") == "IntegerLiteral":
                    mask = int(b["value"])
                    if mask & (mask + 1) == 0:      # 2^k - 1
                        return "(%s) %% %d" % (self.int_expr(n["inner"][0]), mask + 1)
                    if mask & (mask - 1) == 0:      # single bit
                        return "((%s) / %d %% 2) * %d" % (self.int_expr(n["inner"][0]), mask, mask)
                raise OutOfGrammar("& with non-mask")
            if op in ("<", ">", "<=", ">=", "==", "!=", "&&", "||"):
                return "(if %s then 1 else 0)" % self.bool_expr(n)
            raise OutOfGrammar("binary %s" % op)
        raise OutOfGrammar("node %s" % k)

    # ---- conditions
    def bool_expr(self, n):
        k = n.get("kind")
        if k in ("ParenExpr", "ConstantExpr"):
            return self.bool_expr(n["inner"][0])
        if k == "ImplicitCastExpr" and n.get("castKind") in ("LValueToRValue", "NoOp", "IntegralCast"):
            inner = strip(n)
            if inner.get("kind") in ("BinaryOperator", "UnaryOperator") and inner.get("opcode") in (
                    "<", ">", "<=", ">=", "==", "!=", "&&", "||", "!"):
                return self.bool_expr(inner)
        if k == "BinaryOperator":
            op = n.get("opcode")
            a, b = n["inner"]
            if op in ("<", ">", "<=", ">=", "==", "!="):
                ta, tb = ctype(a), ctype(b)
                lop = {"==": "=", "!=": "≠", "<=": "≤", ">=": "≥"}.get(op, op)
                if is_pointer(ta) or is_pointer(tb):
                    return "decide (%s %s %s)" % (self.ptr_expr(a), lop, self.ptr_expr(b))
                return "decide (%s %s %s)" % (self.int_expr(a), lop, self.int_expr(b))
            if op == "||":
                x = self.bool_expr(a)
                return "(%s || %s)" % (x, self.bool_expr(b))
            if op == "&&":
                x = self.bool_expr(a)
                return "(%s && %s)" % (x, self.bool_expr(b))
        if k == "UnaryOperator" and n.get("opcode") == "!":
            return "(!%s)" % self.bool_expr(n["inner"][0])
        return "decide (%s ≠ 0)" % self.int_expr(n)

    # ---- pointer arithmetic in element units (sp + n >= end_of_stack)
    def ptr_expr(self, n):
        k = n.get("kind")
        if k in ("ParenExpr",):
            return self.ptr_expr(n["inner"][0])
        if k == "ImplicitCastExpr" and n.get("castKind") in ("LValueToRValue", "NoOp"):
            return self.ptr_expr(n["inner"][0])
        if k == "DeclRefExpr":
            return self.param(n["referencedDecl"]["name"], ctype(n))
        if k == "BinaryOperator" and n.get("opcode") in ("+", "-"):
            a, b = n["inner"]
            ea = self.ptr_expr(a) if is_pointer(ctype(a)) else self.int_expr(a)
            eb = self.ptr_expr(b) if is_pointer(ctype(b)) else self.int_expr(b)
            return "(%s %s %s)" % (ea, n["opcode"], eb)
        if k == "CompoundAssignOperator" and n.get("opcode") in ("+=", "-="):
            tgt = strip(n["inner"][0])
            text = self.leaf_text(tgt)
            cur = self.param(text, ctype(tgt))
            new = "(%s %s %s)" % (cur, n["opcode"][0], self.int_expr(n["inner"][1]))
            self.env[text] = new
            return new
        raise OutOfGrammar("pointer node %s" % k)


# ---------------------------------------------------------------------------------------------------------------
# locating sites

def error_call_in(stmt, names=("error",)):
    """the error("...") call directly in a then-branch (statement or compound of statements); returns message"""
    s = stmt
    cands = s.get("inner", []) if s.get("kind") == "CompoundStmt" else [s]
    for c in cands:
        if c.get("kind") == "CallExpr" and callee_name(c) in names:
            return string_literal(c["inner"][1]) if len(c["inner"]) > 1 else ""
    return None


def walk_ifs(fn_node, tmap, fmap, want=None):
    """yield (path, node) for every IfStmt (or every node accepted by `want`) of the function, path = names of the
    enclosing case labels"""
    out = []
    want = want or (lambda n: n.get("kind") == "IfStmt")

    def label_name(case, use_t):
        v = strip(case["inner"][0])
        val = None
        n = case["inner"][0]
        while n is not None and val is None:
            if "value" in n and n.get("kind") in ("ConstantExpr", "IntegerLiteral"):
                val = int(n["value"])
            n = n["inner"][0] if n.get("inner") else None
        m = tmap if use_t else fmap
        return m.get(val, str(val))

    def visit(n, path):
        k = n.get("kind")
        if k == "SwitchStmt":
            inner = n.get("inner", [])
            cond, body = inner[-2], inner[-1]
            use_t = subtree_has(cond, lambda m: m.get("kind") == "MemberExpr" and m.get("name") == "type")
            visit_switch_body(body, path, use_t)
            return
        if want(n):
            out.append((list(path), n))
        for c in n.get("inner", []):
            if isinstance(c, dict):
                visit(c, path)

    def visit_switch_body(body, path, use_t):
        cur = None
        for st in body.get("inner", []):
            s = st
            labels = []
            while s.get("kind") in ("CaseStmt", "DefaultStmt"):
                if s["kind"] == "CaseStmt":
                    labels.append(label_name(s, use_t))
                else:
                    labels.append("default")
                s = s["inner"][-1]
            if labels:
                cur = labels[-1]          # fall-through label groups: the last one names the body
                curs = labels
            if cur is None:
                continue
            visit(s, path + [cur])

    for c in fn_node.get("inner", []):
        if c.get("kind") == "CompoundStmt":
            visit(c, [])
    return out


class Site:
    def __init__(self, name, src, fn, path, msg=None, occ=0, if_ord=None, doc=""):
        self.name, self.src, self.fn, self.path, self.msg, self.occ, self.if_ord, self.doc = \
            name, src, fn, path, msg, occ, if_ord, doc


SITES = [
    # F_INDEX / F_RINDEX (rvalue) in eval_instruction
    Site("index_buf", "src/interpret.c", "eval_instruction", ["F_INDEX", "T_BUFFER"], "*Buffer index out of bounds."),
    Site("index_str", "src/interpret.c", "eval_instruction", ["F_INDEX", "T_STRING"], "*String index out of bounds."),
    Site("index_arr_neg", "src/interpret.c", "eval_instruction", ["F_INDEX", "T_ARRAY"], "*Array index must be positive or zero."),
    Site("index_arr", "src/interpret.c", "eval_instruction", ["F_INDEX", "T_ARRAY"], "*Array index out of bounds."),
    Site("rindex_buf", "src/interpret.c", "eval_instruction", ["F_RINDEX", "T_BUFFER"], "*Buffer index out of bounds."),
    Site("rindex_str", "src/interpret.c", "eval_instruction", ["F_RINDEX", "T_STRING"], "*String index out of bounds."),
    Site("rindex_arr", "src/interpret.c", "eval_instruction", ["F_RINDEX", "T_ARRAY"], "*Array index out of bounds."),
    Site("member", "src/interpret.c", "eval_instruction", ["F_MEMBER"], "*Class has no corresponding member."),
    Site("member_lv", "src/interpret.c", "eval_instruction", ["F_MEMBER_LVALUE"], "*Class has no corresponding member."),
    # push_indexed_lvalue: lvalue operand (first switch) and value-on-stack operand (second switch)
    Site("lindex_str", "src/interpret.c", "push_indexed_lvalue", ["T_STRING"], "*Index out of bounds in string index lvalue."),
    Site("lindex_buf", "src/interpret.c", "push_indexed_lvalue", ["T_BUFFER"], "*Buffer index out of bounds.", occ=0),
    Site("lindex_arr", "src/interpret.c", "push_indexed_lvalue", ["T_ARRAY"], "*Array index out of bounds.", occ=0),
    Site("sindex_buf", "src/interpret.c", "push_indexed_lvalue", ["T_BUFFER"], "*Buffer index out of bounds.", occ=1),
    Site("sindex_arr", "src/interpret.c", "push_indexed_lvalue", ["T_ARRAY"], "*Array index out of bounds.", occ=1),
    # push_lvalue_range
    # push_lvalue_range: the 64-bit pre-check of each operand (occurrence 0) and the exact test after the narrowing
    # to int (occurrence 1) carry the same message
    Site("lrange_ind2_pre", "src/interpret.c", "push_lvalue_range", [],
         "*The 2nd index to range lvalue must be >= -1 and < sizeof(indexed value)", occ=0),
    Site("lrange_ind2", "src/interpret.c", "push_lvalue_range", [],
         "*The 2nd index to range lvalue must be >= -1 and < sizeof(indexed value)", occ=1),
    Site("lrange_ind1_pre", "src/interpret.c", "push_lvalue_range", [],
         "*The 1st index to range lvalue must be >= 0 and <= sizeof(indexed value)", occ=0),
    Site("lrange_ind1", "src/interpret.c", "push_lvalue_range", [],
         "*The 1st index to range lvalue must be >= 0 and <= sizeof(indexed value)", occ=1),
    # f_range / f_extract_range clamps (no error: positional)
    # f_range / f_extract_range clamps (no error(): positional among the ifs under the case label, pre-order;
    # the positions are those of the build configuration in use - OLD_RANGE_BEHAVIOR defined)
    Site("range_str_to_neg", "lib/lpc/operator.c", "f_range", ["T_STRING"], if_ord=1),
    Site("range_str_from_neg", "lib/lpc/operator.c", "f_range", ["T_STRING"], if_ord=3),
    Site("range_str_from_clamp", "lib/lpc/operator.c", "f_range", ["T_STRING"], if_ord=4),
    Site("range_str_empty", "lib/lpc/operator.c", "f_range", ["T_STRING"], if_ord=5),
    Site("range_str_tail", "lib/lpc/operator.c", "f_range", ["T_STRING"], if_ord=6),
    Site("range_buf_to_neg", "lib/lpc/operator.c", "f_range", ["T_BUFFER"], if_ord=1),
    Site("range_buf_from_neg", "lib/lpc/operator.c", "f_range", ["T_BUFFER"], if_ord=3),
    Site("range_buf_from_neg2", "lib/lpc/operator.c", "f_range", ["T_BUFFER"], if_ord=4),
    Site("range_buf_empty", "lib/lpc/operator.c", "f_range", ["T_BUFFER"], if_ord=5),
    Site("range_buf_to_hi", "lib/lpc/operator.c", "f_range", ["T_BUFFER"], if_ord=6),
    Site("erange_str_from_neg", "lib/lpc/operator.c", "f_extract_range", ["T_STRING"], if_ord=1),
    Site("erange_str_from_neg2", "lib/lpc/operator.c", "f_extract_range", ["T_STRING"], if_ord=2),
    Site("erange_str_empty", "lib/lpc/operator.c", "f_extract_range", ["T_STRING"], if_ord=3),
    Site("erange_buf_from_neg", "lib/lpc/operator.c", "f_extract_range", ["T_BUFFER"], if_ord=1),
    Site("erange_buf_from_neg2", "lib/lpc/operator.c", "f_extract_range", ["T_BUFFER"], if_ord=2),
    Site("erange_buf_from_hi", "lib/lpc/operator.c", "f_extract_range", ["T_BUFFER"], if_ord=3),
    # 64-bit clamps in front of slice_array (which takes ints)
    Site("range_arr_from_neg", "lib/lpc/operator.c", "f_range", ["T_ARRAY"], if_ord=2),
    Site("range_arr_to_hi", "lib/lpc/operator.c", "f_range", ["T_ARRAY"], if_ord=3),
    Site("range_arr_to_lo", "lib/lpc/operator.c", "f_range", ["T_ARRAY"], if_ord=4),
    Site("range_arr_from_hi", "lib/lpc/operator.c", "f_range", ["T_ARRAY"], if_ord=5),
    Site("erange_arr_from_neg", "lib/lpc/operator.c", "f_extract_range", ["T_ARRAY"], if_ord=1),
    Site("erange_arr_from_hi", "lib/lpc/operator.c", "f_extract_range", ["T_ARRAY"], if_ord=2),
    Site("slice_from_neg", "lib/lpc/array.c", "slice_array", [], if_ord=0),
    Site("slice_to_hi", "lib/lpc/array.c", "slice_array", [], if_ord=1),
    Site("slice_empty", "lib/lpc/array.c", "slice_array", [], if_ord=2),
    # allocation size checks
    Site("alloc_array", "lib/lpc/array.c", "allocate_array", [], "Illegal array size.\n"),
    Site("alloc_empty_array", "lib/lpc/array.c", "allocate_empty_array", [], "Illegal array size.\n"),
    Site("alloc_buffer", "lib/lpc/buffer.c", "allocate_buffer", [], "Illegal buffer size.\n"),
    # array / string builders: size checks in front of the allocation
    Site("add_array", "lib/lpc/array.c", "add_array", [], "result of array addition is greater than maximum array size.\n"),
    Site("implode", "lib/lpc/array.c", "implode_string", [], "implode: String too large.\n"),
    # value stack checks
    Site("stack_push_undefineds", "src/stack.c", "push_undefineds", [], "***Stack overflow!"),
    Site("stack_push_some_svalues", "src/stack.c", "push_some_svalues", [], "***Stack overflow!"),
    Site("stack_merge_arg_lists", "lib/lpc/functional.c", "merge_arg_lists", [], "***Stack overflow!"),
    Site("stack_transfer_push", "src/stack.c", "transfer_push_some_svalues", [], "***Stack overflow!"),
    Site("stack_push_number", "src/stack.c", "push_number", [], "***Stack overflow!"),
    # error(): clamp of the vsnprintf return value (present after the fix)
]


def lean_def(name, tr, body, doc, ret="Bool"):
    params = " ".join("(%s : Int)" % p[0] for p in tr.params)
    plist = "; ".join("%s = `%s` (%s)" % p for p in tr.params)
    d = doc.replace("-/", "- /")
    return "/-- %s\n    parameters: %s -/\ndef %s %s : %s :=\n  %s\n" % (d, plist or "none", name, params, ret, body)


def c_text(n):
    """compact C rendering of an expression for doc comments"""
    k = n.get("kind")
    if k in ("ImplicitCastExpr",):
        return c_text(n["inner"][0])
    if k == "ParenExpr":
        return "(" + c_text(n["inner"][0]) + ")"
    if k == "ConstantExpr":
        return c_text(n["inner"][0])
    if k == "CStyleCastExpr":
        return "(%s)%s" % (n.get("type", {}).get("qualType", "?"), c_text(n["inner"][0]))
    if k == "BinaryOperator" or k == "CompoundAssignOperator":
        return "%s %s %s" % (c_text(n["inner"][0]), n.get("opcode"), c_text(n["inner"][1]))
    if k == "UnaryOperator":
        return ("%s%s" if not n.get("isPostfix") else "%s%s"[::-1]) % (n.get("opcode"), c_text(n["inner"][0]))
    if k == "DeclRefExpr":
        return n["referencedDecl"]["name"]
    if k == "MemberExpr":
        return c_text(n["inner"][0]) + ("->" if n.get("isArrow") else ".") + n.get("name", "?")
    if k in ("IntegerLiteral", "CharacterLiteral"):
        return str(n.get("value"))
    if k == "ConditionalOperator":
        return "SVALUE_STRLEN(..)" if subtree_has(n, lambda m: m.get("kind") == "CallExpr" and callee_name(m) == "strlen") else "?:"
    if k == "ArraySubscriptExpr":
        return "%s[%s]" % (c_text(n["inner"][0]), c_text(n["inner"][1]))
    if k == "UnaryExprOrTypeTraitExpr":
        return "sizeof(..)"
    if k == "CallExpr":
        return "%s(..)" % callee_name(n)
    return "<%s>" % k


def extract_guards(bdir, tmap, fmap):
    """returns (lean text, list of site descriptions)"""
    out = []
    desc = []
    ifs_cache = {}
    for s in SITES:
        fn = ast_function(bdir, s.src, s.fn)
        key = (s.src, s.fn)
        if key not in ifs_cache:
            ifs_cache[key] = walk_ifs(fn, tmap, fmap)
        ifs = ifs_cache[key]
        under = [(p, i) for p, i in ifs if p[:len(s.path)] == s.path] if s.path else ifs
        if s.msg is not None:
            m = [(p, i) for p, i in under if error_call_in(i["inner"][1]) == s.msg]
            if len(m) <= s.occ:
                raise TieBroken("guard:" + s.name, "error site %r (occurrence %d) not found under %s in %s:%s" % (
                    s.msg, s.occ, "/".join(s.path) or "<top>", s.src, s.fn))
            node = m[s.occ][1]
        else:
            if len(under) <= s.if_ord:
                raise TieBroken("guard:" + s.name, "if #%d not found under %s in %s:%s" % (
                    s.if_ord, "/".join(s.path) or "<top>", s.src, s.fn))
            node = under[s.if_ord][1]
        cond = node["inner"][0]
        tr = Tr()
        try:
            body = tr.bool_expr(cond)
        except OutOfGrammar as e:
            raise TieBroken("guard:" + s.name, "guard of %s left the expression grammar: %s (C: %s)" % (s.name, e, c_text(cond)))
        where = "%s:%s %s%s" % (s.src, line_of(node), s.fn, (" " + "/".join(s.path)) if s.path else "")
        doc = "C %s: `if (%s)` %s" % (where, c_text(cond), ("error(%s)" % json.dumps(s.msg)) if s.msg is not None else "(clamp / early return)")
        out.append(lean_def("guard_" + s.name, tr, body, doc))
        if s.msg is not None:
            out.append("def msg_%s : String := %s\n" % (s.name, json.dumps(s.msg)))
        desc.append({"site": s.name, "where": where, "c": c_text(cond), "params": [p[0] for p in tr.params]})
    return "\n".join(out), desc


# ---------------------------------------------------------------------------------------------------------------
# error(): buffer size, vsnprintf size argument, clamp, touched indices

def extract_error_fn(bdir):
    fn = ast_function(bdir, "src/error_context.c", "error")
    body = [c for c in fn["inner"] if c.get("kind") == "CompoundStmt"][0]
    bufsize = [None]
    vsn = [None]
    idxs = []

    def visit(n):
        k = n.get("kind")
        if k == "VarDecl" and n.get("name") == "msg":
            m = re.match(r"char ?\[(\d+)\]", n.get("type", {}).get("qualType", ""))
            if m:
                bufsize[0] = int(m.group(1))
        if k == "CallExpr" and callee_name(n) in ("vsnprintf", "__builtin___vsnprintf_chk", "__vsnprintf_chk"):
            vsn[0] = n["inner"][2]
        if k == "ArraySubscriptExpr":
            b = strip(n["inner"][0])
            if b.get("kind") == "DeclRefExpr" and b["referencedDecl"]["name"] == "msg":
                idxs.append(n["inner"][1])
        for c in n.get("inner", []):
            if isinstance(c, dict):
                visit(c)
    visit(body)
    if bufsize[0] is None or vsn[0] is None:
        raise TieBroken("error:msg", "error(): local buffer `msg` or the vsnprintf call not found")
    out = ["/-- C src/error_context.c error(): `char msg[%d]` -/\ndef errBufSize : Nat := %d\n" % (bufsize[0], bufsize[0])]
    tr = Tr()
    try:
        out.append(lean_def("errVsnSize", tr, tr.int_expr(vsn[0]), "size argument of vsnprintf in error(): `%s`" % c_text(vsn[0]), "Int"))
    except OutOfGrammar as e:
        raise TieBroken("error:vsnsize", "vsnprintf size argument left the grammar: %s" % e)
    # every msg[...] index expression, in source order, as a function of len
    exprs = []
    for ix in idxs:
        tr = Tr()
        try:
            ex = tr.int_expr(ix)
        except OutOfGrammar as e:
            raise TieBroken("error:index", "msg[] index left the grammar: %s" % e)
        if [p[0] for p in tr.params] not in ([], ["len"]):
            raise TieBroken("error:index", "msg[] index depends on %s" % tr.params)
        exprs.append((ex, c_text(ix)))
    out.append("/-- every index at which error() touches `msg`, as a function of `len`: %s -/\ndef errIdx (len : Int) : List Int :=\n  [%s]\n"
               % ("; ".join("msg[%s]" % c for _, c in exprs), ", ".join(e for e, _ in exprs)))
    # the ifs of error(): clamp (then-branch assigns len) and the newline test
    ifs = [i for _, i in walk_ifs(fn, {}, {})]
    clamp = None
    for i in ifs:
        then = i["inner"][1]
        stmts = then.get("inner", []) if then.get("kind") == "CompoundStmt" else [then]
        for st in stmts:
            if st.get("kind") == "BinaryOperator" and st.get("opcode") == "=" and \
                    strip(st["inner"][0]).get("kind") == "DeclRefExpr" and strip(st["inner"][0])["referencedDecl"]["name"] == "len":
                clamp = (i["inner"][0], st["inner"][1])
    nlif = None
    for i in ifs:
        if subtree_has(i["inner"][0], lambda m: m.get("kind") == "ArraySubscriptExpr"):
            nlif = i["inner"][0]
    if nlif is None:
        raise TieBroken("error:nl", "error(): the `if (len > 0 && msg[len-1] != '\\n')` test was not found")
    tr = Tr()
    try:
        out.append(lean_def("guard_error_nl", tr, tr.bool_expr(nlif), "error(): `if (%s)` append a newline" % c_text(nlif)))
    except OutOfGrammar as e:
        raise TieBroken("error:nl", "newline test left the grammar: %s" % e)
    if [p[0] for p in tr.params] != ["len", "msg_len_1"]:
        raise TieBroken("error:nl", "newline test has unexpected operands %s" % (tr.params,))
    if clamp is None:
        raise TieBroken("error:clamp", "error(): no `if (...) len = ...;` clamp of the vsnprintf return value in front of the msg[len] accesses")
    tr = Tr()
    try:
        out.append(lean_def("guard_error_clamp", tr, tr.bool_expr(clamp[0]), "error(): `if (%s) len = %s;`" % (c_text(clamp[0]), c_text(clamp[1]))))
        tr2 = Tr()
        out.append(lean_def("errClampTo", tr2, tr2.int_expr(clamp[1]), "value assigned by the clamp: `%s`" % c_text(clamp[1]), "Int"))
        if tr2.params:
            raise OutOfGrammar("clamp value not constant")
    except OutOfGrammar as e:
        raise TieBroken("error:clamp", "clamp left the grammar: %s" % e)
    return "\n".join(out), {"bufsize": bufsize[0], "indices": [c for _, c in exprs]}


# ---------------------------------------------------------------------------------------------------------------
# the index that F_INDEX / F_RINDEX compute from the operand after the guard: `i = (int)n`, `i = size - (int)n` ...

INDEX_EXPRS = [("idx_index_buf", ["F_INDEX", "T_BUFFER"]), ("idx_index_str", ["F_INDEX", "T_STRING"]),
               ("idx_index_arr", ["F_INDEX", "T_ARRAY"]), ("idx_rindex_buf", ["F_RINDEX", "T_BUFFER"]),
               ("idx_rindex_str", ["F_RINDEX", "T_STRING"]), ("idx_rindex_arr", ["F_RINDEX", "T_ARRAY"])]


def extract_index_exprs(bdir, tmap, fmap):
    fn = ast_function(bdir, "src/interpret.c", "eval_instruction")
    assigns = walk_ifs(fn, tmap, fmap, want=lambda n: n.get("kind") == "BinaryOperator" and n.get("opcode") == "=" and
                       _is_ref(n["inner"][0], "i"))
    out = []
    for name, path in INDEX_EXPRS:
        here = [n for p, n in assigns if p[:2] == path]
        # the first assignment computes the index, the second one (`i = ...item[i]`) is the read itself
        if len(here) < 1:
            raise TieBroken("index-expr:" + name, "assignments to `i` under %s not found" % "/".join(path))
        tr = Tr()
        try:
            ex = tr.int_expr(here[0]["inner"][1])
        except OutOfGrammar as e:
            raise TieBroken("index-expr:" + name, "index expression left the grammar: %s" % e)
        # the access must use the variable just computed: `...[i]` (strings / buffers: `i = x[i]`; arrays: `&arr->item[i]`)
        subs = walk_ifs(fn, tmap, fmap, want=lambda n: n.get("kind") == "ArraySubscriptExpr" and _is_ref(n["inner"][1], "i"))
        if not [n for p, n in subs if p[:2] == path]:
            raise TieBroken("index-expr:" + name, "no element access `[i]` under %s" % "/".join(path))
        params = [p[0] for p in tr.params]
        if sorted(params) not in (["number"], ["number", "size"], ["len", "number"], ["number", "slen"]):
            raise TieBroken("index-expr:" + name, "unexpected operands %s" % params)
        out.append(lean_def(name, tr, ex, "%s: `i = %s` (the element accessed is [i])" % ("/".join(path), c_text(here[0]["inner"][1])), "Int"))
    return "\n".join(out)


# ---------------------------------------------------------------------------------------------------------------
# "counted from the end" arithmetic: `ind = size - ind` (push_indexed_lvalue), `to = len - to`, `from = len - from`
# (f_range, f_extract_range).  Every assignment `v = <expr containing a subtraction whose right operand is v>` of the
# function, in source order, must be one of the expected sites; the expression is translated with its C types.

REVERSE_EXPRS = [
    ("src/interpret.c", "push_indexed_lvalue", "ind",
     ["rev_lindex_str", "rev_lindex_buf", "rev_lindex_arr", "rev_sindex_buf", "rev_sindex_arr"]),
    ("lib/lpc/operator.c", "f_range", "to", ["rev_range_str_to", "rev_range_buf_to", "rev_range_arr_to"]),
    ("lib/lpc/operator.c", "f_range", "from", ["rev_range_str_from", "rev_range_buf_from", "rev_range_arr_from"]),
    ("lib/lpc/operator.c", "f_extract_range", "from", ["rev_erange_str_from", "rev_erange_buf_from", "rev_erange_arr_from"]),
]


def _sub_of_self(n, var):
    """the rhs contains `X - var` (possibly under casts): a reverse-index computation"""
    return subtree_has(n, lambda m: m.get("kind") == "BinaryOperator" and m.get("opcode") == "-" and
                       subtree_has(m["inner"][1], lambda q: _is_ref(q, var)) and
                       not subtree_has(m["inner"][0], lambda q: _is_ref(q, var)))


# ---------------------------------------------------------------------------------------------------------------
# call_function_pointer(), FP_EFUN: the second efun dispatcher.  Statement ORDER (bound arguments merged, default
# pushed, THEN the number of arguments to check is taken), the `n` rule, the CHECK_TYPES loop, the stack-room test of
# merge_arg_lists (absent: part of the open finding).

def _preorder(n, out):
    out.append(n)
    for c in n.get("inner", []):
        if isinstance(c, dict):
            _preorder(c, out)


def extract_funptr_dispatch(bdir):
    fn = ast_function(bdir, "lib/lpc/functional.c", "call_function_pointer")
    cases = []
    _walk(fn, lambda n, _: cases.append(n) if n.get("kind") == "CaseStmt" else None)
    mine = [c for c in cases if subtree_has(c, lambda m: m.get("kind") == "CallExpr" and callee_name(m) == "call_efun")]
    # the innermost case statement that contains the call (stacked labels nest)
    mine = [c for c in mine if not any(d is not c and subtree_has(c, lambda m: m is d) for d in mine)]
    if len(mine) != 1:
        raise TieBroken("funptr:case", "%d case statements of call_function_pointer contain call_efun()" % len(mine))
    nodes = []
    _preorder(mine[0], nodes)
    order = []
    defs = {}
    for n in nodes:
        k = n.get("kind")
        if k == "CallExpr" and callee_name(n) == "merge_arg_lists":
            order.append("merge")
        elif k == "UnaryOperator" and n.get("opcode") == "++" and _is_ref(n["inner"][0], "num_arg"):
            order.append("default")
        elif k == "VarDecl" and n.get("name") == "n" and n.get("inner") and _is_ref(n["inner"][0], "num_arg"):
            order.append("ncap")
        elif k == "BinaryOperator" and n.get("opcode") == "=" and _is_ref(n["inner"][0], "n") and _is_ref(n["inner"][1], "num_arg"):
            order.append("ncap")
        elif k == "IfStmt" and subtree_has(n["inner"][1], lambda m: m.get("kind") == "BinaryOperator" and m.get("opcode") == "=" and
                                           _is_ref(m["inner"][0], "n")) and "nrule" not in order:
            asg = []
            _walk(n["inner"][1], lambda m, _: asg.append(m) if m.get("kind") == "BinaryOperator" and m.get("opcode") == "=" and
                  _is_ref(m["inner"][0], "n") else None)
            tr = Tr()
            tr.param("n", "int")
            try:
                cond = tr.bool_expr(n["inner"][0])
                tr2 = Tr()
                val = tr2.int_expr(asg[0]["inner"][1])
            except OutOfGrammar as e:
                raise TieBroken("funptr:nrule", "left the grammar: %s" % e)
            if [p[0] for p in tr.params] != ["n", "max_arg"] or [p[0] for p in tr2.params] != ["min_arg"]:
                raise TieBroken("funptr:nrule", "unexpected operands %s / %s" % ([p[1] for p in tr.params], [p[1] for p in tr2.params]))
            defs["nrule"] = lean_def("fpEfunUseMin", tr, cond, "call_function_pointer FP_EFUN: `if (%s) n = %s`" % (
                c_text(n["inner"][0]), c_text(asg[0]["inner"][1])))
            order.append("nrule")
        elif k == "ForStmt" and subtree_has(n, lambda m: m.get("kind") == "CallExpr" and callee_name(m) == "bad_argument"):
            parts = n.get("inner", [])
            init, cond = parts[0], parts[2]
            calls = []
            _walk(n, lambda m, _: calls.append(m) if m.get("kind") == "CallExpr" and callee_name(m) == "bad_argument" else None)
            try:
                if not (strip(init).get("kind") == "BinaryOperator" and strip(init).get("opcode") == "=" and _is_ref(strip(init)["inner"][0], "j")):
                    raise OutOfGrammar("loop init")
                start = const_eval(strip(init)["inner"][1])
                trc = Tr()
                trc.param("j", "int")
                lc = trc.bool_expr(cond)
                args = calls[0]["inner"][1:]
                trs = Tr()
                trs.param("sp", "svalue_t *")
                trs.param("num_arg", "int")
                trs.param("j", "int")
                slot = trs.ptr_expr(args[0])
                ty = strip(args[1])
                while ty.get("kind") == "ImplicitCastExpr":
                    ty = strip(ty["inner"][0])
                if ty.get("kind") != "ArraySubscriptExpr":
                    raise OutOfGrammar("type argument is not instrs[i].type[..]")
                trt = Tr()
                trt.param("j", "int")
                tidx = trt.int_expr(ty["inner"][1])
                tra = Tr()
                tra.param("j", "int")
                argno = tra.int_expr(args[2])
            except OutOfGrammar as e:
                raise TieBroken("funptr:loop", "CHECK_TYPES loop left the grammar: %s" % e)
            if start is None or [p[0] for p in trc.params] != ["j", "n"] or [p[0] for p in trs.params] != ["sp", "num_arg", "j"] or \
                    [p[0] for p in trt.params] != ["j"] or [p[0] for p in tra.params] != ["j"] or len(calls) != 1:
                raise TieBroken("funptr:loop", "unexpected shape of the CHECK_TYPES loop")
            defs["loop"] = "\n".join([
                "/-- call_function_pointer FP_EFUN: `for (j = %d; ...` -/\ndef fpEfunLoopStart : Int := %d\n" % (start, start),
                lean_def("fpEfunLoopCond", trc, lc, "loop condition `%s`" % c_text(cond)),
                lean_def("fpEfunChkSlot", trs, slot, "the stack slot tested: `%s` (svalue units)" % c_text(args[0]), "Int"),
                lean_def("fpEfunChkTypeIdx", trt, tidx, "index into instrs[i].type[]: `%s`" % c_text(ty["inner"][1]), "Int"),
                lean_def("fpEfunChkArgNo", tra, argno, "argument number reported: `%s`" % c_text(args[2]), "Int")])
            order.append("loop")
        elif k == "CallExpr" and callee_name(n) == "call_efun":
            order.append("call")
    for need in ("merge", "default", "ncap", "nrule", "loop", "call"):
        if need not in order:
            raise TieBroken("funptr:" + need, "statement `%s` of the FP_EFUN case not found (found %s)" % (need, order))
    # merge_arg_lists: is there any test against end_of_stack before `sp += num_arr_arg`?
    mfn = ast_function(bdir, "lib/lpc/functional.c", "merge_arg_lists")
    checked = subtree_has(mfn, lambda m: m.get("kind") == "DeclRefExpr" and m["referencedDecl"]["name"] == "end_of_stack") or \
        subtree_has(mfn, lambda m: m.get("kind") == "CallExpr" and callee_name(m) in ("too_deep_error", "stack_overflow_error"))
    out = ["/-- call_function_pointer(), case FP_EFUN: the statements that matter, in SOURCE ORDER -/\ndef fpEfunOrder : List String :=\n  [%s]\n" %
           ", ".join('"%s"' % o for o in order), defs["nrule"], defs["loop"],
           "/-- merge_arg_lists() tests the stack room before `sp += num_arr_arg` -/\ndef mergeArgListsStackCheck : Bool := %s\n" % (
               "true" if checked else "false")]
    return "\n".join(out), {"order": order, "merge_checked": checked}


# ---------------------------------------------------------------------------------------------------------------
# data-dependent indices of the array builders (lib/lpc/array.c): binary search of subtract_array, heap indices of
# alist_sort / intersect_array, merge counter of intersect_array

def _assigns(fn, var):
    out = []
    _walk(fn, lambda n, _: out.append(n) if n.get("kind") == "BinaryOperator" and n.get("opcode") == "=" and _is_ref(n["inner"][0], var) else None)
    return out


def _one_def(name, site, nodes, params, doc, ret="Int", cond=False):
    """all nodes must translate to the same Lean text over the given parameter names"""
    texts = set()
    tr = None
    for n in nodes:
        tr = Tr()
        for p in params:
            tr.param(p, "int")
        try:
            texts.add(tr.bool_expr(n) if cond else tr.int_expr(n))
        except OutOfGrammar as e:
            raise TieBroken(site, "%s left the grammar: %s" % (name, e))
        if [p[0] for p in tr.params] != list(params):
            raise TieBroken(site, "%s: unexpected operands %s" % (name, [p[1] for p in tr.params]))
    if len(texts) != 1:
        raise TieBroken(site, "%s: %d sites found / they disagree: %s" % (name, len(nodes), sorted(texts)))
    return lean_def(name, tr, texts.pop(), "%s: `%s` (%d site%s)" % (doc, c_text(nodes[0]), len(nodes), "s" if len(nodes) > 1 else ""),
                    "Bool" if cond else ret)


def extract_search_indices(bdir):
    out = []
    # --- subtract_array: binary search over the sorted subtrahend
    fn = ast_function(bdir, "lib/lpc/array.c", "subtract_array")
    h_as = _assigns(fn, "h")
    l_as = _assigns(fn, "l")
    o_as = _assigns(fn, "o")
    h_init = [n["inner"][1] for n in h_as if subtree_has(n["inner"][1], lambda m: _is_ref(m, "size"))]
    h_next = [n["inner"][1] for n in h_as if subtree_has(n["inner"][1], lambda m: _is_ref(m, "o"))]
    l_init = [n["inner"][1] for n in l_as if const_eval(n["inner"][1]) is not None]
    l_next = [n["inner"][1] for n in l_as if subtree_has(n["inner"][1], lambda m: _is_ref(m, "o"))]
    o_mid = [n["inner"][1] for n in o_as if subtree_has(n["inner"][1], lambda m: _is_ref(m, "l"))]
    o_init = [n["inner"][1] for n in o_as if not subtree_has(n["inner"][1], lambda m: _is_ref(m, "l"))]
    site = "search:subtract_array"
    if len(h_init) != 1 or len(o_init) != 1 or len(l_init) != 1 or len(h_as) != len(h_init) + len(h_next) or len(l_as) != len(l_init) + len(l_next) \
            or len(h_next) < 1 or len(h_next) != len(l_next) or len(o_mid) != len(h_next):
        raise TieBroken(site, "binary search statements not recognised (h %d, l %d, o %d assignments)" % (len(h_as), len(l_as), len(o_as)))
    # o = (h = size - 1) >> 1 : the shifted operand must be the assignment to h
    oi = strip(o_init[0])
    if not (oi.get("kind") == "BinaryOperator" and oi.get("opcode") == ">>" and const_eval(oi["inner"][1]) is not None and
            strip(oi["inner"][0]).get("kind") == "BinaryOperator" and strip(oi["inner"][0]).get("opcode") == "=" and
            _is_ref(strip(oi["inner"][0])["inner"][0], "h")):
        raise TieBroken(site, "initial probe is not `o = (h = ..) >> k`: %s" % c_text(oi))
    out.append(_one_def("bsHInit", site, h_init, ["size"], "subtract_array: h ="))
    out.append("/-- subtract_array: `o = (h = ..) >> %d` -/\ndef bsOInit (h : Int) : Int := trunc32 (h / %d)\n" % (
        const_eval(oi["inner"][1]), 2 ** const_eval(oi["inner"][1])))
    out.append("/-- subtract_array: `l = %d` -/\ndef bsLInit : Int := %d\n" % (const_eval(l_init[0]), const_eval(l_init[0])))
    out.append(_one_def("bsHNext", site, h_next, ["o"], "subtract_array (d < 0): h ="))
    out.append(_one_def("bsLNext", site, l_next, ["o"], "subtract_array (d > 0): l ="))
    out.append(_one_def("bsMid", site, o_mid, ["l", "h"], "subtract_array: o ="))
    ifs = []
    _walk(fn, lambda n, _: ifs.append(n["inner"][0]) if n.get("kind") == "IfStmt" and subtree_has(n["inner"][0], lambda m: _is_ref(m, "l")) and
          subtree_has(n["inner"][0], lambda m: _is_ref(m, "h")) else None)
    if len(ifs) != len(h_next):
        raise TieBroken(site, "%d `if (l > h)` tests for %d loops" % (len(ifs), len(h_next)))
    out.append(_one_def("bsDone", site, ifs, ["l", "h"], "subtract_array: not found when", cond=True))
    # the element compared is svt + o (both loops)
    probes = []
    _walk(fn, lambda n, _: probes.append(n) if n.get("kind") == "CallExpr" and callee_name(n) == "alist_cmp" else None)
    if len(probes) != len(h_next) or not all(Tr().leaf_text(p["inner"][2]) == "(svt+o)" for p in probes):
        raise TieBroken(site, "the probed element is not `svt + o` in every loop")
    # --- heap indices: alist_sort and intersect_array
    ups, c1s, c2s, g1s, g2s = [], [], [], [], []
    for fname in ("alist_sort", "intersect_array"):
        f2 = ast_function(bdir, "lib/lpc/array.c", fname)
        ups += [n["inner"][1] for n in _assigns(f2, "parix")]
        c1 = [n["inner"][1] for n in _assigns(f2, "child1")]
        c1s += [x for x in c1 if subtree_has(x, lambda m: _is_ref(m, "curix"))]
        c2s += [n["inner"][1] for n in _assigns(f2, "child2")]
        conds = []
        _walk(f2, lambda n, _: conds.append(n) if n.get("kind") == "BinaryOperator" and n.get("opcode") == "<" and
              (_is_ref(n["inner"][0], "child1") or _is_ref(n["inner"][0], "child2")) else None)
        g1s += [c["inner"][1] for c in conds if _is_ref(c["inner"][0], "child1")]
        g2s += [c["inner"][1] for c in conds if _is_ref(c["inner"][0], "child2")]
    site = "search:heap"
    if not (len(ups) >= 2 and len(c1s) == 2 and len(c2s) == 2 and len(g1s) == 2 and len(g2s) == 2):
        raise TieBroken(site, "heap statements: parix %d child1 %d child2 %d guards %d/%d" % (len(ups), len(c1s), len(c2s), len(g1s), len(g2s)))
    out.append(_one_def("heapParent", site, ups, ["curix"], "sift-up: parix ="))
    out.append(_one_def("heapChild1", site, c1s, ["curix"], "sift-down: child1 ="))
    out.append(_one_def("heapChild2", site, c2s, ["child1"], "sift-down: child2 ="))
    # every use of sv_tab[child2] / sv_tab[child1] is behind `child < <size of the table>`: the guard operand is the table size
    for g, fname_sz in zip(g1s + g2s, ["size", "a2s", "size", "a2s"]):
        if not _is_ref(g, fname_sz):
            raise TieBroken(site, "a child index is compared with `%s`, expected `%s`" % (c_text(g), fname_sz))
    # --- intersect_array: `if (++i >= a1s) goto settle_business`
    f3 = ast_function(bdir, "lib/lpc/array.c", "intersect_array")
    adv = []
    _walk(f3, lambda n, _: adv.append(n["inner"][0]) if n.get("kind") == "IfStmt" and subtree_has(n["inner"][0], lambda m: _is_ref(m, "a1s")) and
          subtree_has(n["inner"][0], lambda m: m.get("kind") == "UnaryOperator" and m.get("opcode") == "++") else None)
    if len(adv) != 1:
        raise TieBroken("search:intersect", "%d `++i >= a1s` tests" % len(adv))
    tr = Tr()
    tr.param("i", "int")
    try:
        c = tr.bool_expr(adv[0])
    except OutOfGrammar as e:
        raise TieBroken("search:intersect", "left the grammar: %s" % e)
    if [p[0] for p in tr.params] != ["i", "a1s"]:
        raise TieBroken("search:intersect", "unexpected operands %s" % [p[1] for p in tr.params])
    out.append(lean_def("isectExhausted", tr, c, "intersect_array: after the pre-increment, stop when `%s`" % c_text(adv[0])))
    return "\n".join(out)


# ---------------------------------------------------------------------------------------------------------------
# f_switch(): the start-offset table, the initial step, and the SHAPE of the search loop (which updates of l / d and
# which tests against end_tab / SWITCH_CASE_SIZE occur, in source order)

def extract_switch(bdir):
    fn = ast_function(bdir, "lib/lpc/operator.c", "f_switch")
    # static size_t off_tab[] = { k * SWITCH_CASE_SIZE, ... }
    decls = []
    _walk(fn, lambda n, _: decls.append(n) if n.get("kind") == "VarDecl" and n.get("name") == "off_tab" else None)
    if len(decls) != 1 or not decls[0].get("inner"):
        raise TieBroken("switch:off_tab", "off_tab[] with an initialiser not found")
    init = decls[0]["inner"][0]
    mult = []
    for el in init.get("inner", []):
        e = strip(el)
        while e.get("kind") in ("ImplicitCastExpr",):
            e = strip(e["inner"][0])
        if not (e.get("kind") == "BinaryOperator" and e.get("opcode") == "*"):
            raise TieBroken("switch:off_tab", "element is not `k * SWITCH_CASE_SIZE`: %s" % c_text(el))
        k = const_eval(e["inner"][0])
        if k is None:
            raise TieBroken("switch:off_tab", "multiplier is not a literal: %s" % c_text(el))
        mult.append(k)
    # d = (int)(off_tab[i] + SWITCH_CASE_SIZE) >> 1
    dinit = [n["inner"][1] for n in _assigns(fn, "d") if subtree_has(n["inner"][1], lambda m: _is_ref(m, "off_tab"))]
    if len(dinit) != 1:
        raise TieBroken("switch:dinit", "%d initialisations of d from off_tab[]" % len(dinit))
    tr = Tr()
    try:
        dx = tr.int_expr(dinit[0])
    except OutOfGrammar as e:
        raise TieBroken("switch:dinit", "left the grammar: %s" % e)
    if [p[0] for p in tr.params] != ["off_tab_i"]:
        raise TieBroken("switch:dinit", "unexpected operands %s" % [p[1] for p in tr.params])
    # l = current_prog->program + offset + off_tab[i]
    linit = [n for n in _assigns(fn, "l") if subtree_has(n["inner"][1], lambda m: _is_ref(m, "off_tab"))]
    if len(linit) != 1:
        raise TieBroken("switch:linit", "%d initialisations of l from off_tab[]" % len(linit))
    # the search loop
    loops = []
    _walk(fn, lambda n, _: loops.append(n) if n.get("kind") == "ForStmt" else None)
    if len(loops) != 1:
        raise TieBroken("switch:loop", "%d for loops in f_switch" % len(loops))
    nodes = []
    _preorder(loops[0], nodes)
    shape = []
    is_size = lambda m: const_eval(m) is not None or c_text(m).strip("()").startswith("(int)") or subtree_has(m, lambda q: q.get("kind") == "UnaryExprOrTypeTraitExpr")
    for n in nodes:
        k = n.get("kind")
        if k == "CompoundAssignOperator":
            a, b = n["inner"]
            if _is_ref(a, "l") and _is_ref(b, "d") and n.get("opcode") in ("+=", "-="):
                shape.append("l%sd" % n["opcode"])
            elif _is_ref(a, "d") and n.get("opcode") == ">>=" and const_eval(b) == 1:
                shape.append("d>>=1")
            elif _is_ref(a, "l") or _is_ref(a, "d"):
                shape.append("other:" + c_text(n))
        elif k == "BinaryOperator":
            a, b = n["inner"]
            op = n.get("opcode")
            if op == "<" and _is_ref(a, "d") and is_size(b):
                shape.append("d<S")
            elif op in (">=", "==", ">", "<=", "!=", "<") and _is_ref(a, "l") and _is_ref(b, "end_tab"):
                shape.append("l%send" % op)
            elif op == "=" and _is_ref(a, "d"):
                shape.append("d=%s" % (const_eval(b) if const_eval(b) is not None else c_text(b)))
    sizes = [n["inner"][1] for n in nodes if n.get("kind") == "BinaryOperator" and n.get("opcode") == "<" and _is_ref(n["inner"][0], "d") and is_size(n["inner"][1])]
    if not sizes:
        raise TieBroken("switch:size", "no `d < SWITCH_CASE_SIZE` test in the search loop")
    trz = Tr()
    try:
        sz = set(Tr().int_expr(x) for x in sizes)
    except OutOfGrammar as e:
        raise TieBroken("switch:size", "left the grammar: %s" % e)
    if len(sz) != 1:
        raise TieBroken("switch:size", "the `d < ..` tests compare with different values: %s" % sorted(sz))
    out = ["/-- SWITCH_CASE_SIZE as the tests `d < SWITCH_CASE_SIZE` of f_switch see it -/\ndef switchCaseSize : Int :=\n  %s\n" % sz.pop(),
           "/-- f_switch: multipliers of SWITCH_CASE_SIZE in `off_tab[]` (start entry for size code i) -/\ndef swOffTab : List Int :=\n  [%s]\n" %
           ", ".join(str(m) for m in mult),
           lean_def("swDInit", tr, dx, "f_switch: initial step in bytes `d = %s` (SWITCH_CASE_SIZE is the probe constant `switchCaseSize`)" % c_text(dinit[0]), "Int").replace(
               "(off_tab_i : Int)", "(off_tab_i : Int)"),
           "/-- f_switch: the updates of `l` / `d` and the tests against `end_tab` / SWITCH_CASE_SIZE inside the search loop, in SOURCE ORDER -/\n"
           "def swShape : List String :=\n  [%s]\n" % ", ".join('"%s"' % x for x in shape)]
    return "\n".join(out)


# ---------------------------------------------------------------------------------------------------------------
# write_buffer() / read_buffer() (lib/lpc/buffer.c): the start / length guards in front of the memcpy, translated as a
# small statement sequence: `if`s whose branches assign `start` / `len` or `return 0`, up to the copy.

class _BufTr:
    def __init__(self, fname, params, stop):
        self.fname, self.stop = fname, stop
        self.tr = Tr()
        for p, t in params:
            self.tr.param(p, t)
        self.nparams = len(params)

    def flat(self, n):
        if n.get("kind") == "CompoundStmt":
            out = []
            for c in n.get("inner", []):
                out += self.flat(c)
            return out
        return [n]

    def seq(self, stmts):
        if not stmts:
            raise TieBroken("buffer:" + self.fname, "fell off the end before the copy")
        n, rest = stmts[0], stmts[1:]
        k = n.get("kind")
        if k in ("DeclStmt", "NullStmt"):
            return self.seq(rest)
        if k == "ReturnStmt":
            r = strip(n["inner"][0]) if n.get("inner") else {}
            while r.get("kind") in ("ImplicitCastExpr", "CStyleCastExpr", "ParenExpr"):
                r = strip(r["inner"][0])
            v = const_eval(r) if r else None
            if v == 0:
                return "none"
            raise TieBroken("buffer:" + self.fname, "return of something else than 0 before the copy")
        if k == "IfStmt":
            inner = n["inner"]
            cond = self.tr.bool_expr(inner[0])
            th = self.seq(self.flat(inner[1]) + rest)
            el = self.seq((self.flat(inner[2]) if len(inner) > 2 else []) + rest)
            return "(if %s then %s else %s)" % (cond, th, el)
        if k in ("BinaryOperator", "CompoundAssignOperator") and n.get("opcode") in ("=", "+=", "-="):
            lhs = strip(n["inner"][0])
            if lhs.get("kind") == "DeclRefExpr":
                name = lhs["referencedDecl"]["name"]
                rhs_is_field = strip(n["inner"][1]).get("kind") == "MemberExpr" or (
                    strip(n["inner"][1]).get("kind") == "ImplicitCastExpr" and strip(strip(n["inner"][1])["inner"][0]).get("kind") == "MemberExpr")
                if name == "size" and n.get("opcode") == "=" and rhs_is_field:
                    return self.seq(rest)                      # size = buf->size : `size` is the parameter
                if n.get("opcode") == "=":
                    val = self.tr.wrap(ctype(lhs), self.tr.int_expr(n["inner"][1]))
                else:
                    val = self.tr.wrap(ctype(n), "%s %s %s" % (self.tr.param(name, ctype(lhs)), n["opcode"][0], self.tr.int_expr(n["inner"][1])))
                lname = self.tr.param(name, ctype(lhs))
                return "(let %s := %s; %s)" % (lname, val, self.seq(rest))
        if self.stop(n):
            return self.result(n)
        raise TieBroken("buffer:" + self.fname, "statement outside the grammar: %s" % k)


def extract_buffer_guards(bdir):
    out = []
    # write_buffer: up to memcpy (buf->item + start, str, theLength)
    fn = ast_function(bdir, "lib/lpc/buffer.c", "write_buffer")
    body = [c for c in fn["inner"] if c.get("kind") == "CompoundStmt"][0]
    bt = _BufTr("write_buffer", [("size", "unsigned long"), ("start", "long"), ("theLength", "unsigned long")],
                lambda n: n.get("kind") == "CallExpr" and callee_name(n) == "memcpy")

    def wres(n):
        dst = strip(n["inner"][1])
        while dst.get("kind") in ("ImplicitCastExpr", "CStyleCastExpr"):
            dst = strip(dst["inner"][0])
        if not (dst.get("kind") == "BinaryOperator" and dst.get("opcode") == "+" and "item" in c_text(dst["inner"][0])):
            raise TieBroken("buffer:write_buffer", "memcpy destination is not buf->item + offset: %s" % c_text(dst))
        return "some (%s, %s)" % (bt.tr.int_expr(dst["inner"][1]), bt.tr.int_expr(n["inner"][3]))
    bt.result = wres
    try:
        ex = bt.seq(bt.flat(body))
    except OutOfGrammar as e:
        raise TieBroken("buffer:write_buffer", "left the grammar: %s" % e)
    if [p[0] for p in bt.tr.params] != ["size", "start", "theLength"]:
        raise TieBroken("buffer:write_buffer", "unexpected operands %s" % [p[1] for p in bt.tr.params])
    out.append(lean_def("writeBufferRange", bt.tr, ex, "write_buffer(): (offset, length) of `memcpy (buf->item + start, str, theLength)`, none = `return 0`", "Option (Int × Int)"))
    # read_buffer: up to the scan loop; the copy moves at most `len` bytes from b->item + start
    fn = ast_function(bdir, "lib/lpc/buffer.c", "read_buffer")
    body = [c for c in fn["inner"] if c.get("kind") == "CompoundStmt"][0]
    rt = _BufTr("read_buffer", [("size", "unsigned long"), ("start", "long"), ("len", "unsigned long")], lambda n: n.get("kind") == "ForStmt")

    def rres(n):
        cond = n["inner"][2]
        if not subtree_has(cond, lambda m: m.get("kind") == "BinaryOperator" and m.get("opcode") == "<" and _is_ref(m["inner"][1], "len")):
            raise TieBroken("buffer:read_buffer", "the scan loop is not bounded by `.. < len`: %s" % c_text(cond))
        return "some (%s, %s)" % (rt.tr.param("start", "long"), rt.tr.param("len", "unsigned long"))
    rt.result = rres
    try:
        ex = rt.seq(rt.flat(body))
    except OutOfGrammar as e:
        raise TieBroken("buffer:read_buffer", "left the grammar: %s" % e)
    if [p[0] for p in rt.tr.params] != ["size", "start", "len"]:
        raise TieBroken("buffer:read_buffer", "unexpected operands %s" % [p[1] for p in rt.tr.params])
    out.append(lean_def("readBufferRange", rt.tr, ex, "read_buffer(): (offset, maximal length) of the scan / copy from `b->item + start`, none = `return 0`", "Option (Int × Int)"))
    return "\n".join(out)


NUL_MSG = "*Strings cannot contain 0 bytes."


def extract_nul_store_rule(bdir):
    """every `if (...) error ("*Strings cannot contain 0 bytes.")` of eval_instruction (byte lvalue store, += ++ --):
    does the test exempt buffers (`&& !lvalue_byte_in_buffer`)?  All sites must agree."""
    fn = ast_function(bdir, "src/interpret.c", "eval_instruction")
    flags = []

    def visit(n, _):
        if n.get("kind") == "IfStmt" and len(n.get("inner", [])) >= 2 and error_call_in(n["inner"][1]) == NUL_MSG:
            flags.append(subtree_has(n["inner"][0], lambda m: m.get("kind") == "DeclRefExpr" and
                                     m["referencedDecl"]["name"] == "lvalue_byte_in_buffer"))
    _walk(fn, visit)
    if not flags:
        raise TieBroken("nul-store:sites", "no `if (..) error (\"%s\")` found in eval_instruction" % NUL_MSG)
    if len(set(flags)) != 1:
        raise TieBroken("nul-store:disagree", "the NUL-store tests of eval_instruction disagree about buffers: %s" % flags)
    return ("/-- a 0 byte may be stored into a BUFFER through a byte lvalue (the %d NUL tests of eval_instruction carry\n"
            "    `&& !lvalue_byte_in_buffer`); strings never accept it -/\ndef bufNulStoreAllowed : Bool := %s\n" % (
                len(flags), "true" if flags[0] else "false"))


REVERSE_HELPER = ("lib/lpc/operator.c", "range_from_end")


def _helper_call(n, var):
    """rhs is `range_from_end (X, var)` (possibly under casts / parens): returns the call node"""
    m = strip(n)
    while m.get("kind") in ("ImplicitCastExpr", "CStyleCastExpr", "ParenExpr"):
        m = strip(m["inner"][0])
    if m.get("kind") == "CallExpr" and callee_name(m) == REVERSE_HELPER[1] and len(m["inner"]) == 3 and _is_ref(m["inner"][2], var):
        return m
    return None


class TrRaw(Tr):
    """Tr that also records every SIGNED arithmetic node as (unwrapped mathematical value): the obligations
    "this C operation does not overflow" are stated over these"""

    def __init__(self):
        Tr.__init__(self)
        self.signed_nodes = []

    def int_expr(self, n):
        k = n.get("kind")
        if k == "BinaryOperator" and n.get("opcode") in ("+", "-", "*") and ctype(n) in CTYPES and CTYPES[ctype(n)][1]:
            a = self.int_expr(n["inner"][0])
            b = self.int_expr(n["inner"][1])
            raw = "%s %s %s" % (a, n["opcode"], b)
            self.signed_nodes.append((raw, c_text(n)))
            return self.wrap(ctype(n), raw)
        return Tr.int_expr(self, n)


def extract_range_from_end(bdir):
    """`static int64_t range_from_end (int64_t len, int64_t i) { if (C) return A; return B; }` -> Lean `rangeFromEnd`,
    the condition `rangeFromEndCond`, and the unwrapped values of the signed arithmetic nodes evaluated always
    (`rangeFromEndNodesCond`) / only when the condition is false (`rangeFromEndNodesElse`) / only when it is true."""
    src, hname = REVERSE_HELPER
    fn = ast_function(bdir, src, hname)
    pnames = [c.get("name") for c in fn.get("inner", []) if c.get("kind") == "ParmVarDecl"]
    body = [c for c in fn.get("inner", []) if c.get("kind") == "CompoundStmt"][0]
    stmts = [c for c in body.get("inner", []) if isinstance(c, dict)]
    if pnames != ["len", "i"] or len(stmts) != 2 or stmts[0].get("kind") != "IfStmt" or stmts[1].get("kind") != "ReturnStmt" or \
            len(stmts[0]["inner"]) != 2:
        raise TieBroken("reverse-helper:shape", "%s is not `if (C) return A; return B;` over (len, i): %s" % (hname, pnames))
    cond, then = stmts[0]["inner"]
    while then.get("kind") == "CompoundStmt" and len(then.get("inner", [])) == 1:
        then = then["inner"][0]
    if then.get("kind") != "ReturnStmt":
        raise TieBroken("reverse-helper:shape", "then-branch of %s is not a return" % hname)
    tr = TrRaw()
    tr.param("len", "long")
    tr.param("i", "long")
    try:
        c = tr.bool_expr(cond)
        n_cond = len(tr.signed_nodes)
        a = tr.int_expr(then["inner"][0])
        n_then = len(tr.signed_nodes)
        b = tr.int_expr(stmts[1]["inner"][0])
    except OutOfGrammar as e:
        raise TieBroken("reverse-helper:grammar", "%s left the grammar: %s" % (hname, e))
    if [p[0] for p in tr.params] != ["len", "i"]:
        raise TieBroken("reverse-helper:operands", "unexpected operands %s" % [p[1] for p in tr.params])
    nodes = tr.signed_nodes
    lst = lambda xs: "[%s]" % ", ".join(x[0] for x in xs)
    doc = lambda xs: "; ".join("`%s`" % x[1] for x in xs) or "none"
    out = [lean_def("rangeFromEndCond", tr, c, "%s: the condition `%s`" % (hname, c_text(cond))),
           lean_def("rangeFromEnd", tr, "if rangeFromEndCond len i then trunc64 (%s) else trunc64 (%s)" % (a, b),
                    "%s (len, i): `if (%s) return %s; return %s;` (the value is returned as int64_t)" % (
                        hname, c_text(cond), c_text(then["inner"][0]), c_text(stmts[1]["inner"][0])), "Int"),
           lean_def("rangeFromEndNodesCond", tr, lst(nodes[:n_cond]),
                    "unwrapped values of the SIGNED C operations evaluated by the condition: %s" % doc(nodes[:n_cond]), "List Int"),
           lean_def("rangeFromEndNodesThen", tr, lst(nodes[n_cond:n_then]),
                    "... evaluated only when the condition holds: %s" % doc(nodes[n_cond:n_then]), "List Int"),
           lean_def("rangeFromEndNodesElse", tr, lst(nodes[n_then:]),
                    "... evaluated only when the condition does not hold: %s" % doc(nodes[n_then:]), "List Int")]
    return "\n".join(out)


def extract_reverse_exprs(bdir):
    """each site is either a direct subtraction `v = .. X - v ..` (must then be unsigned in C) or a call of the helper
    `v = range_from_end (X, v)` (whose body is translated once: `rangeFromEnd`, overflow obligations proved in Lean)"""
    out = []
    safe = []
    helper_used = False
    for src, fname, var, names in REVERSE_EXPRS:
        fn = ast_function(bdir, src, fname)
        found = []

        def visit(n, _):
            if n.get("kind") == "BinaryOperator" and n.get("opcode") == "=" and _is_ref(n["inner"][0], var) and \
                    (_sub_of_self(n["inner"][1], var) or _helper_call(n["inner"][1], var)):
                found.append(n)
        _walk(fn, visit)
        if len(found) != len(names):
            raise TieBroken("reverse-expr:%s:%s" % (fname, var), "%d assignments `%s = .. - %s` / `%s = %s (.., %s)` found in %s, expected %d" % (
                len(found), var, var, var, REVERSE_HELPER[1], var, fname, len(names)))
        for name, n in zip(names, found):
            tr = Tr()
            call = _helper_call(n["inner"][1], var)
            try:
                if call:
                    helper_used = True
                    arg0 = tr.wrap("long", tr.int_expr(call["inner"][1]))      # converted to the parameter type int64_t
                    arg1 = tr.int_expr(call["inner"][2])
                    ex = "rangeFromEnd (%s) (%s)" % (arg0, arg1)
                else:
                    ex = "trunc64 (%s)" % tr.int_expr(n["inner"][1])
            except OutOfGrammar as e:
                raise TieBroken("reverse-expr:" + name, "expression left the grammar: %s" % e)
            if len(tr.params) != 2 or tr.params[1][1] != var:
                raise TieBroken("reverse-expr:" + name, "unexpected operands %s" % [p[1] for p in tr.params])
            if call:
                safe.append((name, True, True))
            else:
                # a direct subtraction must be done in an unsigned type (signed overflow is undefined behaviour)
                subs = []
                _walk(n["inner"][1], lambda m, _: subs.append(m) if m.get("kind") == "BinaryOperator" and m.get("opcode") == "-" else None)
                safe.append((name, all(ctype(m) in CTYPES and not CTYPES[ctype(m)][1] for m in subs), False))
            # the value is stored in an int64_t variable
            out.append(lean_def(name, tr, ex, "%s: `%s = %s`" % (fname, var, c_text(n["inner"][1])), "Int"))
    out.append("/-- (site, the C computation cannot overflow: an unsigned subtraction, or the helper range_from_end whose signed\n"
               "    operations are proved in range - NV.C01.range_from_end_no_overflow) -/\ndef revSitesUnsigned : List (String × Bool) :=\n  [%s]\n" %
               ", ".join('("%s", %s)' % (nm, "true" if u else "false") for nm, u, _ in safe))
    out.append("/-- the sites computed by the helper range_from_end (saturating) -/\ndef revSitesHelper : List String :=\n  [%s]\n" %
               ", ".join('"%s"' % nm for nm, _, h in safe if h))
    if helper_used:
        out.insert(0, extract_range_from_end(bdir))
    return "\n".join(out)


# ---------------------------------------------------------------------------------------------------------------
# explode_string(): piece count clamp, fill-loop bound, store indices (lib/lpc/array.c)

def _walk(n, fn, in_for=0):
    fn(n, in_for)
    for c in n.get("inner", []):
        if isinstance(c, dict):
            _walk(c, fn, in_for + (1 if n.get("kind") == "ForStmt" else 0))


def _is_ref(n, name):
    n = strip(n)
    return n.get("kind") == "DeclRefExpr" and n["referencedDecl"]["name"] == name


def extract_explode(bdir):
    fn = ast_function(bdir, "lib/lpc/array.c", "explode_string")
    body = [c for c in fn["inner"] if c.get("kind") == "CompoundStmt"][0]
    out = []

    def tr_int(node, name, doc):
        tr = Tr()
        try:
            ex = tr.int_expr(node)
        except OutOfGrammar as e:
            raise TieBroken("explode:" + name, "%s left the grammar: %s (C: %s)" % (name, e, c_text(node)))
        out.append(lean_def(name, tr, ex, doc + ": `%s`" % c_text(node), "Int"))
        return [p[0] for p in tr.params]

    def tr_bool(node, name, doc):
        tr = Tr()
        try:
            ex = tr.bool_expr(node)
        except OutOfGrammar as e:
            raise TieBroken("explode:" + name, "%s left the grammar: %s (C: %s)" % (name, e, c_text(node)))
        out.append(lean_def(name, tr, ex, doc + ": `%s`" % c_text(node)))
        return [p[0] for p in tr.params]

    # 1. `if (num > MAX) num = MAX;`
    clamp = []
    # 2. `limit = MAX - 1;`
    limit = []
    # 3. allocation argument (the one whose argument is `num`)
    alloc = []
    # 4. `num++` directly in the function body (REVERSIBLE_EXPLODE_STRING) or under an if
    uncond_inc = [False]
    cond_inc = [False]
    fors = []
    fatal = []
    stores_loop, stores_last = [], []

    def visit(n, in_for):
        k = n.get("kind")
        if k == "IfStmt":
            then = n["inner"][1]
            stmts = then.get("inner", []) if then.get("kind") == "CompoundStmt" else [then]
            for st in stmts:
                if st.get("kind") == "BinaryOperator" and st.get("opcode") == "=" and _is_ref(st["inner"][0], "num"):
                    clamp.append((n["inner"][0], st["inner"][1]))
                if st.get("kind") == "UnaryOperator" and st.get("opcode") == "++" and _is_ref(st["inner"][0], "num") and not in_for:
                    cond_inc[0] = True
                if st.get("kind") == "CallExpr" and callee_name(st) == "fatal":
                    fatal.append(n["inner"][0])
        if k == "BinaryOperator" and n.get("opcode") == "=" and _is_ref(n["inner"][0], "limit"):
            limit.append(n["inner"][1])
        if k == "CallExpr" and callee_name(n) == "allocate_empty_array" and len(n["inner"]) > 1 and \
                subtree_has(n["inner"][1], lambda m: _is_ref(m, "num")):
            alloc.append(n["inner"][1])
        if k == "ForStmt":
            fors.append(n)
        if k == "ArraySubscriptExpr":
            b = strip(n["inner"][0])
            if b.get("kind") == "MemberExpr" and b.get("name") == "item" and subtree_has(n["inner"][1], lambda m: _is_ref(m, "num")):
                (stores_loop if in_for else stores_last).append(n["inner"][1])
    _walk(body, visit)
    for st in body.get("inner", []):
        if st.get("kind") == "UnaryOperator" and st.get("opcode") == "++" and _is_ref(st["inner"][0], "num"):
            uncond_inc[0] = True
    if len(clamp) != 1 or len(limit) != 1 or len(alloc) != 1 or len(fatal) != 1 or not stores_loop or not stores_last:
        raise TieBroken("explode:shape", "explode_string(): clamp=%d limit=%d alloc=%d fatal=%d loop stores=%d last stores=%d" % (
            len(clamp), len(limit), len(alloc), len(fatal), len(stores_loop), len(stores_last)))
    if uncond_inc[0] == cond_inc[0]:
        raise TieBroken("explode:count", "explode_string(): cannot tell whether the piece count is always incremented")
    out.append("/-- explode_string(): `num++` after counting the delimiters is unconditional (REVERSIBLE_EXPLODE_STRING) -/\n"
               "def explodeReversible : Bool := %s\n" % ("true" if uncond_inc[0] else "false"))
    tr_bool(clamp[0][0], "guard_explode_clamp", "explode_string(): clamp of the piece count")
    if tr_int(clamp[0][1], "explodeClampTo", "value assigned by the clamp") != ["config_int_11"]:
        raise TieBroken("explode:clamp", "clamp value is not the configured limit")
    if tr_int(limit[0], "explodeLimit", "explode_string(): bound of the fill loop, `limit =`") != ["config_int_11"]:
        raise TieBroken("explode:limit", "fill-loop bound does not depend on the configured limit only")
    if tr_int(alloc[0], "explodeAlloc", "explode_string(): argument of allocate_empty_array") != ["num"]:
        raise TieBroken("explode:alloc", "allocation size is not a function of num")
    # the fill loop: the for statement whose body stores through ret->item[..num..]
    loop = [f for f in fors if subtree_has(f, lambda m: m.get("kind") == "ArraySubscriptExpr" and
                                           subtree_has(m["inner"][1], lambda q: _is_ref(q, "num")))]
    if len(loop) != 1:
        raise TieBroken("explode:loop", "fill loop of explode_string() not found")
    cond = [c for c in loop[0]["inner"] if isinstance(c, dict) and c][1] if False else None
    inner = loop[0]["inner"]
    cond = inner[2] if len(inner) >= 5 else None
    cmps = []

    def findcmp(n, _):
        if n.get("kind") == "BinaryOperator" and n.get("opcode") in ("<", "<=", ">", ">=", "!=") and \
                subtree_has(n, lambda m: _is_ref(m, "limit")):
            cmps.append(n)
    if cond:
        _walk(cond, findcmp)
    if len(cmps) != 1:
        raise TieBroken("explode:loopcond", "fill loop condition does not contain exactly one comparison with `limit`")
    if tr_bool(cmps[0], "guard_explode_loop", "explode_string(): fill loop continues while") != ["num", "limit"]:
        raise TieBroken("explode:loopcond", "unexpected operands in the fill loop condition")
    if tr_bool(fatal[0], "guard_explode_fatal", "explode_string(): fatal(\"Index out of bounds in explode!\") when") != ["num", "size"]:
        raise TieBroken("explode:fatal", "unexpected operands in the fatal() guard")

    def same_index(nodes, name, doc):
        texts = set(c_text(x) for x in nodes)
        if len(texts) != 1:
            raise TieBroken("explode:" + name, "stores use different indices: %s" % texts)
        if tr_int(nodes[0], name, doc) != ["num"]:
            raise TieBroken("explode:" + name, "store index is not a function of num")
    same_index(stores_loop, "explodeLoopIdx", "explode_string(): index of the stores inside the fill loop, ret->item[..]")
    same_index(stores_last, "explodeLastIdx", "explode_string(): index of the last-piece store after the loop, ret->item[..]")
    return "\n".join(out)


# ---------------------------------------------------------------------------------------------------------------
# add_array() / implode_string(): the size expressions that are allocated

def extract_builder_sizes(bdir):
    out = []
    # add_array: `res = p->size + r->size;`
    fn = ast_function(bdir, "lib/lpc/array.c", "add_array")
    found = []

    def v1(n, _):
        if n.get("kind") == "BinaryOperator" and n.get("opcode") == "=" and _is_ref(n["inner"][0], "res"):
            found.append(n["inner"][1])
    _walk(fn, v1)
    if len(found) != 1:
        raise TieBroken("add_array:res", "add_array(): `res = ...` not found exactly once")
    tr = Tr()
    try:
        ex = tr.int_expr(found[0])
    except OutOfGrammar as e:
        raise TieBroken("add_array:res", "res left the grammar: %s" % e)
    if [p[0] for p in tr.params] != ["size", "size2"]:
        raise TieBroken("add_array:res", "unexpected operands of res: %s" % (tr.params,))
    out.append(lean_def("addArrayRes", tr, ex, "add_array(): `res = %s` (allocated and filled: p first, r after)" % c_text(found[0]), "Int"))
    # every allocation / resize of add_array uses `res`
    allocs = []

    def v2(n, _):
        if n.get("kind") == "CallExpr" and callee_name(n) in ("allocate_empty_array", "allocate_array") and len(n["inner"]) > 1:
            allocs.append(c_text(strip(n["inner"][1])))
    _walk(fn, v2)
    if not allocs or any(a != "res" for a in allocs):
        raise TieBroken("add_array:alloc", "add_array(): allocation argument is not `res`: %s" % allocs)
    # implode_string: the argument of new_string
    fn = ast_function(bdir, "lib/lpc/array.c", "implode_string")
    args = []

    def v3(n, _):
        if n.get("kind") == "CallExpr" and callee_name(n) in ("new_string", "int_new_string") and len(n["inner"]) > 1:
            args.append(n["inner"][1])
    _walk(fn, v3)
    if len(args) != 1:
        raise TieBroken("implode:alloc", "implode_string(): new_string call not found exactly once")
    tr = Tr()
    try:
        ex = tr.int_expr(args[0])
    except OutOfGrammar as e:
        raise TieBroken("implode:alloc", "allocation size left the grammar: %s" % e)
    if [p[0] for p in tr.params] != ["size", "num", "del_len"]:
        raise TieBroken("implode:alloc", "unexpected operands of the allocation size: %s" % (tr.params,))
    out.append(lean_def("implodeAlloc", tr, ex, "implode_string(): `new_string (%s)`" % c_text(args[0]), "Int"))
    return "\n".join(out)


# ---------------------------------------------------------------------------------------------------------------
# stack geometry: end_of_stack = start_of_stack + size - 5

def extract_stack_geometry(bdir):
    fn = ast_function(bdir, "src/stack.c", "reset_interpreter")
    found = []

    def visit(n):
        if n.get("kind") == "BinaryOperator" and n.get("opcode") == "=":
            l = strip(n["inner"][0])
            if l.get("kind") == "DeclRefExpr" and l["referencedDecl"]["name"] == "end_of_stack":
                found.append(n["inner"][1])
        for c in n.get("inner", []):
            if isinstance(c, dict):
                visit(c)
    visit(fn)
    if len(found) != 1:
        raise TieBroken("stack:end_of_stack", "assignment to end_of_stack in reset_interpreter not found")
    tr = Tr()
    try:
        ex = tr.ptr_expr(found[0])
    except OutOfGrammar as e:
        raise TieBroken("stack:end_of_stack", "end_of_stack expression left the grammar: %s" % e)
    return lean_def("endOfStack", tr, ex, "src/stack.c reset_interpreter: `end_of_stack = %s` (element units)" % c_text(found[0]), "Int")


def stack_push_inventory(bdir):
    """which push functions of src/stack.c carry a stack check (the macro push_svalue and the opcode cases do not)"""
    src = open(os.path.join(E.REPO, "src/stack.c")).read()
    names = re.findall(r"^(?:void\s+)?(push_\w+|copy_and_push_string|share_and_push_string|transfer_push_some_svalues)\s*\(", src, flags=re.M)
    rows = []
    for nm in sorted(set(names)):
        try:
            fn = ast_function(bdir, "src/stack.c", nm)
        except TieBroken:
            continue
        ifs = walk_ifs(fn, {}, {})
        checked = any(error_call_in(i["inner"][1]) == "***Stack overflow!" for _, i in ifs)
        rows.append((nm, checked))
    txt = "/-- push functions of src/stack.c and whether their body contains the `***Stack overflow!` check -/\n" \
          "def stackPushFns : List (String × Bool) :=\n  [%s]\n" % ", ".join('("%s", %s)' % (n, "true" if c else "false") for n, c in rows)
    return txt, rows


# ---------------------------------------------------------------------------------------------------------------
# T3: efun table + dispatch checks

def parse_defines(path, prefix):
    d = {}
    for m in re.finditer(r"^#define\s+(%s\w*)\s+(-?\d+)\s*$" % prefix, open(path).read(), flags=re.M):
        d[m.group(1)] = int(m.group(2))
    return d


def efun_table(bdir, tvals):
    """[(name, opcode, min, max, [t1..t4], default, alias)] from efuns_definition.h"""
    ops = parse_defines(os.path.join(bdir, "lib/efuns/efuns_opcode.h"), "")
    text = open(os.path.join(bdir, "lib/efuns/efuns_definition.h")).read()
    m = re.search(r"keyword_t predefs\[\] = \{(.*?)\n\};", text, flags=re.S)
    if not m:
        raise TieBroken("efun:table", "predefs[] not found in efuns_definition.h")
    rows = []

    def mask(expr):
        v = 0
        for part in expr.split("|"):
            part = part.strip()
            if part == "T_ANY":
                v |= tvals["T_ANY"]
            elif part in tvals:
                v |= tvals[part]
            elif re.match(r"^-?\d+$", part):
                v |= int(part)
            else:
                raise TieBroken("efun:mask", "unknown type mask %r" % part)
        return v
    for line in m.group(1).splitlines():
        line = line.strip().rstrip(",")
        if not line.startswith("{"):
            continue
        f = [x.strip() for x in line.strip("{}").split(",")]
        if len(f) != 13:
            raise TieBroken("efun:row", "unexpected predefs row: %s" % line)
        name = f[0].strip('"')
        tok = f[1]
        alias = "F_ALIAS_FLAG" in tok
        tokname = tok.split("|")[0].strip()
        if tokname not in ops:
            raise TieBroken("efun:opcode", "opcode %s not in efuns_opcode.h" % tokname)
        deflt = f[12]
        dv = {"DEFAULT_NONE": -3, "DEFAULT_THIS_OBJECT": -2}.get(deflt)
        if dv is None:
            dv = int(deflt)
        rows.append({"name": name, "op": ops[tokname], "min": int(f[4]), "max": int(f[5]), "ret": f[6],
                     "types": [mask(f[7]), mask(f[8]), mask(f[9]), mask(f[10])], "default": dv, "alias": alias})
    return rows, ops


def extract_dispatch(bdir, fmap):
    """CHECK_TYPES calls of the efun dispatch cases: {case: [(sp offset text, type index text, arg number)]}"""
    fn = ast_function(bdir, "src/interpret.c", "eval_instruction")
    ifs = walk_ifs(fn, {}, fmap)
    res = {}
    for want in ("F_EFUN0", "F_EFUN1", "F_EFUN2", "F_EFUN3", "F_EFUNV", "default"):
        res[want] = []
    for path, node in ifs:
        if not path or path[0] not in res or len(path) != 1:
            continue
        then = node["inner"][1]
        call = then if then.get("kind") == "CallExpr" else None
        if call is None or callee_name(call) != "bad_argument":
            continue
        args = call["inner"][1:]
        tr = Tr()
        val = tr.leaf_text(args[0])
        ty = strip(args[1])
        while ty.get("kind") == "ImplicitCastExpr":
            ty = strip(ty["inner"][0])
        # instrs2[instruction].type[K]
        if ty.get("kind") != "ArraySubscriptExpr":
            raise TieBroken("dispatch:" + path[0], "type argument of bad_argument is not instrs[..].type[k]")
        tidx = tr.leaf_text(ty["inner"][1])
        argno = tr.leaf_text(args[2])
        # the condition must test the same value against the same mask: !((val)->type & (t))
        cond = node["inner"][0]
        ok = strip(cond).get("kind") == "UnaryOperator" and strip(cond).get("opcode") == "!" and \
            subtree_has(cond, lambda m: m.get("kind") == "BinaryOperator" and m.get("opcode") == "&")
        if not ok:
            raise TieBroken("dispatch:" + path[0], "CHECK_TYPES condition has an unexpected shape: %s" % c_text(cond))
        res[path[0]].append((val, tidx, argno))
    return res


def lean_efun_tables(rows, ops, disp):
    out = []
    out.append("structure Efun where\n  name : String\n  op : Nat\n  minArg : Int\n  maxArg : Int\n  types : List Nat\n  dflt : Int\n  deriving Repr, DecidableEq\n")
    out.append("/-- first efun opcode / first opcode that is dispatched through F_EFUN0..3/V -/\ndef opBase : Nat := %d\ndef onearg_max : Nat := %d\n" % (ops["BASE"], ops["ONEARG_MAX"]))
    body = ",\n   ".join('⟨"%s", %d, %d, %d, [%s], %d⟩' % (r["name"], r["op"], r["min"], r["max"], ", ".join(str(t) for t in r["types"]), r["default"])
                         for r in rows if not r["alias"])
    out.append("/-- efun table regenerated from the build's efuns_definition.h (aliases dropped) -/\ndef efuns : List Efun :=\n  [%s]\n" % body)

    # dispatch checks: offsets relative to sp (0 = sp, 1 = sp-1 ...), or the F_EFUNV loop form
    def off(val):
        if val == "sp":
            return 0
        m = re.match(r"^\(sp-(\d+)\)$", val)
        if m:
            return int(m.group(1))
        return None
    for case in ("F_EFUN0", "F_EFUN1", "F_EFUN2", "F_EFUN3", "default"):
        items = []
        for val, tidx, argno in disp[case]:
            o = off(val)
            if o is None or not tidx.isdigit() or not argno.isdigit():
                raise TieBroken("dispatch:" + case, "unexpected CHECK_TYPES operands %s %s %s" % (val, tidx, argno))
            items.append("(%d, %d, %d)" % (o, int(tidx), int(argno)))
        out.append("/-- CHECK_TYPES calls of `case %s` of eval_instruction: (distance below sp, index into type[], reported argument number) -/\n"
                   "def dispatch_%s : List (Nat × Nat × Nat) := [%s]\n" % (case, case.replace("F_", "").lower(), ", ".join(items)))
    v = disp["F_EFUNV"]
    loop_ok = len(v) == 1 and v[0] == ("((sp-st_num_arg)+i)", "(i-1)", "i")
    out.append("/-- `case F_EFUNV`: `for (i = 1; i <= min_arg; i++) CHECK_TYPES (sp - st_num_arg + i, type[i - 1], i)` recognised -/\n"
               "def dispatch_efunv_loop : Bool := %s\n" % ("true" if loop_ok else "false"))
    if not loop_ok:
        raise TieBroken("dispatch:F_EFUNV", "the F_EFUNV CHECK_TYPES loop was not recognised: %s" % (v,))
    return "\n".join(out)


# ---------------------------------------------------------------------------------------------------------------
# printf-style calls with a non-literal format

LIBC_FMT = {"printf": 1, "fprintf": 2, "sprintf": 2, "snprintf": 3, "dprintf": 2, "syslog": 2,
            "vprintf": 1, "vfprintf": 2, "vsprintf": 2, "vsnprintf": 3, "vdprintf": 2}


def find_format_functions():
    """driver functions declared `(..., const char *fmt, ...)`: name -> 1-based index of the format parameter"""
    res = {}
    pat = re.compile(r"\b(\w+)\s*\(([^;{}()]*?\bchar\s*\*\s*\w*\s*,\s*\.\.\.)\s*\)", re.S)
    for root in ("src", "lib"):
        for dp, _, files in os.walk(os.path.join(E.REPO, root)):
            for f in files:
                if not (f.endswith(".h") or f.endswith(".c") or f.endswith(".cpp")):
                    continue
                txt = open(os.path.join(dp, f), errors="replace").read()
                for m in pat.finditer(txt):
                    params = [p.strip() for p in m.group(2).split(",")]
                    if m.group(1) in ("if", "while", "for", "switch", "return", "sizeof"):
                        continue
                    res[m.group(1)] = len(params) - 1
    return res


def format_inventory(bdir):
    """[(file, enclosing function, callee, line)] of printf-style calls whose format argument is not a string
    literal (clang-query AST matcher over every C/C++ source of src/ and lib/).  A format counts as literal when it
    is a string literal, possibly parenthesised / cast, or `c ? "lit1" : "lit2"` with BOTH arms such literals; a
    conditional with any other arm is reported."""
    fns = dict(LIBC_FMT)
    fns.update(find_format_functions())
    if "error" not in fns:
        raise TieBroken("format:error", "error() is no longer a printf-style variadic function")
    by_idx = {}
    for name, idx in fns.items():
        by_idx.setdefault(idx, []).append(name)
    os.makedirs(os.path.join(E.WORK, "extract"), exist_ok=True)
    qf = os.path.join(E.WORK, "extract", "fmtq-%d.txt" % os.getpid())
    with open(qf, "w") as f:
        f.write("set output diag\n")
        for idx, names in sorted(by_idx.items()):
            f.write('match callExpr(callee(functionDecl(hasAnyName(%s)).bind("callee")), hasArgument(%d, expr(unless(anyOf(ignoringParenCasts(stringLiteral()), ignoringParenCasts(conditionalOperator(hasTrueExpression(ignoringParenCasts(stringLiteral())), hasFalseExpression(ignoringParenCasts(stringLiteral())))))))), forFunction(functionDecl().bind("f")))\n'
                    % (", ".join('"%s"' % n for n in sorted(names)), idx - 1))
    files = []
    for root in ("src", "lib"):
        for dp, _, fs in os.walk(os.path.join(E.REPO, root)):
            for f in fs:
                if (f.endswith(".c") or f.endswith(".cpp")) and "edit_source" not in f and "make_func" not in f:
                    files.append(os.path.join(dp, f))
    files.sort()
    flags = ["--", "-DHAVE_CONFIG_H", "-D_GNU_SOURCE", "-D" + E.GUARD, "-w"] + E.include_flags(bdir)
    n = max(1, min(E.NCPU, 8))
    chunks = [files[i::n] for i in range(n)]
    procs = [subprocess.Popen(["clang-query-14", "-f", qf] + ch + flags, stdout=subprocess.PIPE, stderr=subprocess.PIPE, text=True)
             for ch in chunks if ch]
    rows = set()
    for pr in procs:
        out, err = pr.communicate()
        cur = {}
        lines = out.splitlines()
        for i, l in enumerate(lines):
            m = re.match(r"^(.*?):(\d+):\d+: note: \"(\w+)\" binds here", l)
            if m:
                cur[m.group(3)] = (m.group(1), int(m.group(2)), lines[i + 1] if i + 1 < len(lines) else "")
            if l.startswith("Match #") or i == len(lines) - 1:
                if "root" in cur and "f" in cur and "callee" in cur:
                    fm = re.search(r"(\w+)\s*\(", cur["f"][2])
                    if not fm:
                        try:
                            src_lines = open(cur["f"][0], errors="replace").read().splitlines()
                            fm = re.search(r"(\w+)\s*\(", " ".join(src_lines[cur["f"][1] - 1:cur["f"][1] + 3]))
                        except OSError:
                            fm = None
                    cm = re.search(r"(\w+)\s*\(", cur["callee"][2])
                    call = re.search(r"\b(%s)\s*\(" % "|".join(sorted(fns, key=len, reverse=True)), cur["root"][2]) or \
                        re.search(r"(\w+)\s*\(", cur["root"][2])
                    rows.add((os.path.relpath(cur["root"][0], E.REPO), fm.group(1) if fm else "?",
                              call.group(1) if call else (cm.group(1) if cm else "?"), cur["root"][1]))
                cur = {}
    os.unlink(qf)
    return sorted(rows), fns


def lean_format_inventory(rows):
    trip = sorted(set((f, fn, callee) for f, fn, callee, _ in rows))
    body = ",\n   ".join('("%s", "%s", "%s")' % t for t in trip)
    return ("/-- every call of a printf-style function (libc family and the driver's own variadic `(.., const char *fmt, ...)`\n"
            "    functions) whose format argument is not a string literal: (file, enclosing function, callee) -/\n"
            "def nonLiteralFormatCalls : List (String × String × String) :=\n  [%s]\n" % body), trip


def generate_all(bdir, tvals):
    """everything for NV/Gen/C01.lean beyond the constants; returns (lean text, info dict for the evidence).
    A broken tie is raised only after every part has been tried, with the partial info attached (the plugin's
    generators still need the efun table to search for a failing input)."""
    tmap = {v: k for k, v in tvals.items() if k.startswith("T_") and k != "T_ANY"}
    ops = parse_defines(os.path.join(bdir, "lib/efuns/efuns_opcode.h"), "F_")
    fmap = {v: k for k, v in ops.items()}
    parts = [LEAN_PRELUDE]
    info = {"guard_sites": [], "stack_push_fns": [], "efuns": [], "dispatch": {}, "format_calls": [], "format_functions": {},
            "error_fn": {"bufsize": 8192, "indices": []}}
    broken = []

    def part(fn):
        try:
            fn()
        except TieBroken as e:
            broken.append(e)

    def p_guards():
        g, desc = extract_guards(bdir, tmap, fmap)
        parts.append(g)
        info["guard_sites"] = desc

    def p_stack():
        parts.append(extract_stack_geometry(bdir))
        t, rows = stack_push_inventory(bdir)
        parts.append(t)
        info["stack_push_fns"] = rows

    def p_efuns():
        erows, allops = efun_table(bdir, tvals)
        info["efuns"] = erows
        disp = extract_dispatch(bdir, fmap)
        info["dispatch"] = disp
        parts.append(lean_efun_tables(erows, allops, disp))

    def p_format():
        inv, fns = format_inventory(bdir)
        t, trip = lean_format_inventory(inv)
        parts.append(t)
        info["format_calls"] = inv
        info["format_functions"] = fns

    def p_error():
        e, einfo = extract_error_fn(bdir)
        parts.append(e)
        info["error_fn"] = einfo

    def p_explode():
        parts.append(extract_index_exprs(bdir, tmap, fmap))
        parts.append(extract_reverse_exprs(bdir))
        parts.append(extract_nul_store_rule(bdir))

    def p_search():
        parts.append(extract_search_indices(bdir))
        parts.append(extract_switch(bdir))
        parts.append(extract_buffer_guards(bdir))

    def p_funptr():
        t, d = extract_funptr_dispatch(bdir)
        parts.append(t)
        info["funptr_dispatch"] = d
        parts.append(extract_explode(bdir))
        parts.append(extract_builder_sizes(bdir))

    for f in (p_guards, p_stack, p_efuns, p_format, p_explode, p_funptr, p_search, p_error):
        part(f)
    if broken:
        e = broken[0]
        e.partial_info = info
        e.all_broken = [b.site for b in broken]
        raise e
    return "\n".join(parts), info
