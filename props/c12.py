"""C12 - buffered commands are served fairly: one per user per cycle, nobody starves."""
import os
import re

from nvlib import engine as E
from nvlib import extract as X
from nvlib.check import Prop
from props import c12_extract as AX

WORDS = ["a", "b", "c", "d", "e", "f", "g", "h", "ab", "cd", "x1", "y2", "k", "q", "zz9"]
SUBWORDS2 = ["m1", "m2", "m3"]      # command() texts, level 2 (their scripts may call level 1)
SUBWORDS1 = ["n1", "n2"]            # level 1: scripts never call command()
MAX_BYTES_PER_USER = 300            # keeps every interactive_t.text far away from the compaction rules (C13)


class C12(Prop):
    id = "C12"
    title = "Buffered commands are served fairly: one per user per cycle, nobody starves"
    lean_modules = ["NV.C12.Props", "NV.C12.Witness", "NV.C12.Trace", "NV.C12.Fifo3", "NV.C12.Fifo5", "NV.C12.Neg", "NV.C12.Flag",
                    "NV.C12.Lemmas4", "NV.C12.Live4", "NV.C12.Order1", "NV.C12.Order6"]
    lean_modules_ = None
    theorems = [
        "NV.C12.flag_bits",
        "NV.C12.cursorNext_spec",
        "NV.C12.scanLength_spec",
        "NV.C12.loopCalls_spec",
        "NV.C12.grantCond_spec",
        "NV.C12.countCond_spec",
        "NV.C12.pollBlocks_spec",
        "NV.C12.growBy_pos",
        "NV.C12.cSpaceRule_spec",
        "NV.C12.arrivals_held",
        "NV.C12.held_not_idle",
        "NV.C12.held_keeps_table",
        "NV.C12.arrivals_append_partial",
        "NV.C12.arrivals_discard",
        "NV.C12.userIO_ovf",
        "NV.C12.run_ovf",
        "NV.C12.firstUserSlot_spec",
        "NV.C12.backendOrder_spec",
        "NV.C12.errorReentry_spec",
        "NV.C12.gucOrder_spec",
        "NV.C12.gucScanOrder_spec",
        "NV.C12.pucOrder_spec",
        "NV.C12.firstCmdInBufOrder_spec",
        "NV.C12.cmdInBufOrder_spec",
        "NV.C12.nextCmdInBufOrder_spec",
        "NV.C12.cursor_in_bounds",
        "NV.C12.run_never_crashes",
        "NV.C12.processIO_safe",
        "NV.C12.cycleStep_safe",
        "NV.C12.at_most_one_per_user_per_cycle",
        "NV.C12.no_turn_no_service",
        "NV.C12.per_user_fifo",
        "NV.C12.command_efun_unlimited",
        "NV.C12.command_efun_needs_no_turn",
        "NV.C12.scan_spec",
        "NV.C12.cmdLoop_spec",
        "NV.C12.scan_finds_every_eligible",
        "NV.C12.grant_gives_turn",
        "NV.C12.turns_at_most_connected_users",
        "NV.C12.loop_bound_sufficient",
        "NV.C12.no_starvation",
        "NV.C12.cmdLoop_complete",
        "NV.C12.cmdLoop_serves",
        "NV.C12.getchar_typeahead_repaired",
        "NV.C12.judgeStruct_events",
        "NV.C12.judgeEfun_events",
        "NV.C12.judgeEv_events_eq_data",
        "NV.C12.judgeFifo_events",
        "NV.C12.flag_sound",
        "NV.C12.no_idle_wait",
        "NV.C12.G_run",
        "NV.C12.G_puc",
        "NV.C12.G_processIO",
        "NV.C12.sim_send",
        "NV.C12.sim_arrive",
        "NV.C12.sim_setCall",
        "NV.C12.sim_serve",
        "NV.C12.reframe_enc",
        "NV.C12.consume_line",
        "NV.C12.consume_char",
        "NV.C12.cycleStep_weight",
        "NV.C12.cycleStep_weight_le",
        "NV.C12.cycleRun_fold",
        "NV.C12.cycleRun_quiet",
        "NV.C12.cycleRun_last",
        "NV.C12.loop_bound_sufficient_run",
        "NV.C12.struct_run",
        "NV.C12.efun_run",
        "NV.C12.G_cycleRun",
        "NV.C12.cmdLoop_thrown_false",
        "NV.C12.judgeLive_events",
        "NV.C12.judgeEv_events_eq_order",
        "NV.C12.model_satisfies_spec",
        "NV.C12.judgeOrder_events",
        "NV.C12.OB_cycle",
        "NV.C12.OB_step",
        "NV.C12.OB_run",
        "NV.C12.puc_OL",
        "NV.C12.cmdLoop_OL",
        "NV.C12.processIO_OB",
        "NV.C12.guc_ord",
        "NV.C12.scan_ord",
        "NV.C12.rank_dec",
        "NV.C12.rank_grow",
        "NV.C12.cplO_step",
        "NV.C12.model_satisfies_spec_noerr",
        "NV.C12.order_of_struct",
        "NV.C12.run_noerr",
        "NV.C12.B_cycle",
        "NV.C12.B_step",
        "NV.C12.B_run",
        "NV.C12.blocker_pending",
        "NV.C12.eligible_start",
        "NV.C12.complete_hasCmd",
        "NV.C12.LiveOK_runOps",
        "NV.C12.LiveOK_cmdLoop",
        "NV.C12.LiveOK_processIO",
        "NV.C12.accept_interactive",
        "NV.C12.newSlot_free",
        "NV.C12.cpl_fold",
        "NV.C12.inLoop_fold",
        "NV.C12.cmdLoop_inLoop",
    ]
    witness_theorems = ["NV.C12.arrivals_append_Full_false"]
    consts = [("hasCmdTurn", "HAS_CMD_TURN"), ("cmdInBuf", "CMD_IN_BUF"), ("singleChar", "SINGLE_CHAR"),
              ("maxText", "MAX_TEXT")]
    const_headers = ["src/comm.h"]
    quick_n = 220
    thorough_n = 2500
    search_n = 600
    design_ref = "5/C12"
    technique = ("Lean 4 proof (invariants of the rotating cursor, turn counting, induction over the command loop, over the "
                 "restarts after uncaught errors with a weight measure, and over histories; simulation between the "
                 "specification oracle and the model) + translator (flag bits, cursor / bound / grant / timeout / growth "
                 "expressions from the source text, statement order of backend(), get_user_command(), process_user_command() "
                 "from the clang AST) + model/implementation correspondence on the real backend() loop")
    level_text = ("Lean 4 theorems about an executable model of the turn-grant loop and bounded command loop of backend() and of "
                  "get_user_command/process_user_command (rotating cursor, HAS_CMD_TURN/CMD_IN_BUF/SINGLE_CHAR, sparse connection "
                  "table, (dis)connects between and inside cycles incl. a connect and disconnects in one process_io, command() "
                  "efun, exec() moving a connection to another object, uncaught LPC errors that abort an iteration and restart the loop) for all tables, cursors, queue depths "
                  "and scripts; TOP THEOREM model_satisfies_spec: judgeEv (events sc cs) = [] - the specification oracle (all five "
                  "clause oracles: twice / outside / crash / malformed, efun, fifo, starved / idleWait, overtaken) accepts the "
                  "trace of the model for every history with plain bytes in which no read finds the pending text short of room "
                  "(overflow = false; beyond that: arrivals_held - the read is held back, nothing is lost - and "
                  "arrivals_discard / arrivals_append_Full_false for an unfinished over-long line) and "
                  "every script oracle; the model is tied to the source by regenerated "
                  "expressions, flag bits and AST statement orders (bridging lemmas are obligations) and by stepping the REAL "
                  "backend() loop (guarded cycle hook; aborted iterations seen through the second poll) with loopback TCP clients "
                  "on the same histories; the Lean oracle judges every implementation trace")
    level_note = ("trusted: Lean kernel; extract.py / c12_extract.py; the correspondence harness (differential, only the generated "
                  "histories; poll events are reported to the driver in a fixed order: listening port, then users by slot); LPC "
                  "code run by commands is an oracle script with fuel; sent bytes in the trace theorems are plain (no "
                  "NUL/BS/DEL/CR/LF: such bytes edit or split lines); input buffer size rules (C13), `!` "
                  "escapes, ed, console user are outside the model")
    rule = ("cases = corpus + boundary list + seeded random histories: 1..12 users (sometimes 50..112) connecting (accept queue), "
            "closing, being kicked/dropped from inside commands, sparse slot layouts, 140 users at once, type-ahead of ~20 commands "
            "per cycle up to and beyond get_user_data's discard size, several users quitting inside one command "
            "loop with nobody idle, bursts of 0..12 lines per user incl. partial lines and empty lines, get_char/input_to mode "
            "switches, nested command() calls, exec() of the connection to a fresh object, commands that raise uncaught errors (aborted iterations); every cycle of the real "
            "backend() is compared line by line with the model (commands served, iflags and slot of every user after each "
            "cycle); a case is non-trivial when at least one buffered command was executed; distinct = distinct canonical "
            "implementation trace")
    not_covered = ["runs in which the pending text of a user is short of room (>= 1664 bytes) at a read: get_user_data then holds the "
                   "read back (complete commands buffered; repaired by 57d7cb1, nothing typed ahead is lost any more) or discards "
                   "an unfinished over-long line; the model mirrors both and the driver is compared on them, but the trace "
                   "theorems for fifo / starved / idleWait / overtaken carry the side condition overflow = false",
                   "harness discipline (also in the model): at most MAX_TEXT/16 unread bytes per user and at most MAX_EVENTS-2 "
                   "ready descriptors per poll round; partial reads, a CR|LF split across reads, the 'no room' exit of "
                   "reframe_single_char_input and the truncation of an over-long partial line are not modelled",
                   "`!` shell escapes (harness and model refuse to send data containing `!`), ed, snooping, telnet negotiation bytes; console "
                   "user: the grant loop, the scan and the cursor theorems range over slot 0 as well, but add_console_line as a "
                   "command source (console worker thread) is not driven by the harness",
                   "heart beats: an iteration aborted by an error skips call_heart_beat() (property C11)"]

    # ---- tie: scheduling expressions regenerated from the source text ------------------------------------
    @staticmethod
    def _c_expr(txt, names):
        """tiny grammar: <name> | <int> | <expr> (+|-|/|*) <int>   ->  Lean (Nat, truncated `-` and `/` as in the model)"""
        t = txt.strip()
        m = re.fullmatch(r"(.+?)\s*([-+/*])\s*(\d+)", t)
        if m:
            inner = C12._c_expr(m.group(1), names)
            return None if inner is None else "(%s %s %s)" % (inner, m.group(2), m.group(3))
        if re.fullmatch(r"\d+", t):
            return t
        return names.get(t)

    def gen_extra(self, ctx, bdir):
        def nocomment(t):      # comments are not part of any tie
            t = re.sub(r"/\*.*?\*/", " ", t, flags=re.S)
            return re.sub(r"//[^\n]*", " ", t)
        comm = nocomment(open(os.path.join(E.REPO, "src/comm.c"), errors="replace").read())
        back = nocomment(open(os.path.join(E.REPO, "src/backend.c"), errors="replace").read())
        out = []
        mb = re.search(r"\nvoid backend \(\) \{(.*?)\n\}", back, re.S)
        if not mb:
            raise X.TieBroken("guard:backend", "cannot locate backend() in src/backend.c")
        back = mb.group(1) + "\n"       # every tie on backend.c looks at the body of backend() only
        # (a) the rotating cursor of get_user_command: both update sites must exist and agree
        m0 = re.search(r"static char\s*\*\s*get_user_command \(\) \{(.*?)\n\}", comm, re.S)
        if not m0:
            raise X.TieBroken("guard:get_user_command", "cannot locate get_user_command() in src/comm.c")
        body = m0.group(1)
        sites = re.findall(r"if \(s_next_user(--|\+\+) == (\d+)\)\s*s_next_user = ([^;]+);", body)
        if len(sites) != 2 or len(set(sites)) != 1:
            raise X.TieBroken("guard:s_next_user update", "expected two identical cursor updates in get_user_command, found %r" % (sites,))
        if len(re.findall(r"s_next_user\s*(?:=[^=]|--|\+\+|[-+]=)", body)) != 5:   # init + 2 x (step + wrap)
            raise X.TieBroken("guard:s_next_user update", "get_user_command changes s_next_user at other places as well")
        op, k, wrap = sites[0]
        wexpr = self._c_expr(wrap, {"max_users": "maxUsers"})
        if wexpr is None:
            raise X.TieBroken("guard:s_next_user wrap", "wrap expression %r leaves the grammar" % wrap)
        stepexpr = "c - 1" if op == "--" else "c + 1"
        out.append("/-- C (get_user_command, both sites): `if (s_next_user%s == %s) s_next_user = %s;` -/\n"
                   "def cursorNext (c maxUsers : Nat) : Nat := if c = %s then %s else %s" % (op, k, wrap.strip(), k, wexpr, stepexpr))
        m1 = re.search(r"for \(i = (\d+); i < ([a-z_]+); i\+\+\)\s*\{\s*ip = all_users\[s_next_user\];", body)
        if not m1 or m1.group(1) != "0":
            raise X.TieBroken("guard:scan length", "cannot locate the scan loop header of get_user_command")
        lexpr = self._c_expr(m1.group(2), {"max_users": "maxUsers"})
        if lexpr is None:
            raise X.TieBroken("guard:scan length", "scan loop bound %r leaves the grammar" % m1.group(2))
        out.append("/-- C (get_user_command): `for (i = 0; i < %s; i++)` - iterations of one scan -/\n"
                   "def scanLength (maxUsers : Nat) : Nat := %s" % (m1.group(2), lexpr))
        # the turn is tested and consumed where the command is picked, and only there
        if len(re.findall(r"if \(ip->iflags & HAS_CMD_TURN\)\s*\{\s*ip->iflags &= ~HAS_CMD_TURN;[^{}]*break;[^{}]*\}", body)) != 1 \
                or len(re.findall(r"HAS_CMD_TURN", body)) != 2:
            raise X.TieBroken("guard:turn consumed", "get_user_command no longer tests and clears HAS_CMD_TURN exactly where it picks the command")
        # (b) the bounded command loop of backend()
        m2 = re.findall(r"for \(i = (\d+); process_user_command \(\) && i < ([^;]+); i\+\+\)\s*;", back)
        if len(m2) != 1 or m2[0][0] != "0":
            raise X.TieBroken("guard:command loop", "cannot locate `for (i = 0; process_user_command () && i < B; i++);` in backend()")
        bexpr = self._c_expr(m2[0][1], {"connected_users": "connectedUsers", "max_users": "maxUsers"})
        if bexpr is None:
            raise X.TieBroken("guard:command loop", "loop bound %r leaves the grammar" % m2[0][1])
        out.append("/-- C (backend): `for (i = 0; process_user_command () && i < %s; i++);` - the call is made before the bound is\n"
                   "    tested, so `bound + 1` calls are allowed -/\n"
                   "def loopCalls (connectedUsers maxUsers : Nat) : Nat := %s + 1" % (m2[0][1].strip(), bexpr))
        # (c) the turn-grant loop of backend()
        m3 = re.search(r"int connected_users = 0;\s*for \(i = (\d+); i < ([a-z_]+); i\+\+\)\n( *)\{(.*?)\n\3\}\n", back, re.S)
        if not m3 or m3.group(1) != "0" or m3.group(2) != "max_users":
            raise X.TieBroken("guard:grant loop", "cannot locate the turn-grant loop `for (i = 0; i < max_users; i++)` in backend()")
        gbody = m3.group(4)
        m4 = re.match(r"\s*if \((!?)all_users\[i\]\)\s*\{(.*)\}\s*$", gbody, re.S)
        if not m4:
            raise X.TieBroken("guard:grant loop", "grant loop body is not `if (all_users[i]) { ... }`")
        inner = m4.group(2)
        # statements executed unconditionally inside the if: cut nested blocks
        flat = re.sub(r"\{[^{}]*\}", "", inner)
        flat = re.sub(r"if \([^;{]*\)\s*;", "", flat)
        if re.search(r"\b(break|continue|return|goto)\b", gbody):
            raise X.TieBroken("guard:grant loop", "grant loop contains a jump statement")
        grants = bool(re.search(r"all_users\[i\]->iflags \|= HAS_CMD_TURN;", flat))
        counts = bool(re.search(r"connected_users\+\+;", flat))
        neg = "!" if m4.group(1) else ""
        out.append("/-- C (backend, grant loop over all slots): `if (%sall_users[i]) { ... iflags |= HAS_CMD_TURN ... }` -/\n"
                   "def grantCond (occupied : Bool) : Bool := %s(%soccupied)" % (neg, "" if grants else "false && ", neg))
        out.append("/-- C (backend, grant loop): `connected_users++` under the same condition -/\n"
                   "def countCond (occupied : Bool) : Bool := %s(%soccupied)" % ("" if counts else "false && ", neg))
        # (d) the poll timeout: zero when a heart beat is due or a command is pending
        m5 = re.findall(r"if \(HEART_BEAT_FLAG\s*\(\) \|\| has_pending_commands\)\s*\{[^{}]*?timeout\.tv_sec = (\d+);[^{}]*\}\s*"
                        r"else\s*\{[^{}]*?timeout\.tv_sec = (\d+);[^{}]*\}\s*nb = do_comm_polling \(&timeout\);", back, re.S)
        if len(m5) != 1:
            raise X.TieBroken("guard:poll timeout", "cannot locate `if (HEART_BEAT_FLAG() || has_pending_commands) {tv_sec = A} else "
                              "{tv_sec = B}` directly in front of do_comm_polling() in backend()")
        out.append("/-- C (backend): `timeout.tv_sec` handed to do_comm_polling -/\n"
                   "def pollTimeout (heartBeat pending : Bool) : Nat := if heartBeat || pending then %s else %s" % m5[0])
        # has_pending_commands is set from CMD_IN_BUF of occupied slots, inside the grant loop
        if not re.search(r"if \(!has_pending_commands && \(all_users\[i\]->iflags & CMD_IN_BUF\)\)\s*\{\s*has_pending_commands = 1;\s*\}",
                         gbody) or len(re.findall(r"has_pending_commands\s*=[^=]", back)) != 2:
            raise X.TieBroken("guard:has_pending_commands", "has_pending_commands is no longer `some occupied slot has CMD_IN_BUF`")
        # (e) the connection table grows by a constant number of slots
        m6 = re.findall(r"int new_max_users = max_users \+ (\d+);", comm)
        if len(m6) != 1 or not re.search(r"while \(max_users < new_max_users\)\s*all_users\[max_users\+\+\] = 0;", comm):
            raise X.TieBroken("guard:table growth", "cannot locate `new_max_users = max_users + N` / the fill loop in new_interactive()")
        out.append("/-- C (new_interactive): `int new_max_users = max_users + %s;` -/\ndef growBy : Nat := %s" % (m6[0], m6[0]))
        # (i) the space rule of get_user_data (PORT_TELNET): divisors of the two tests and of the space after a discard
        m8 = re.search(r"text_space = \(MAX_TEXT - \(int\)ip->text_end - 1\) / (\d+);\s*if \(text_space < MAX_TEXT / (\d+)\)\s*\{"
                       r"\s*size_t len = ip->text_end - ip->text_start;\s*"
                       r"if \(\(MAX_TEXT - len - 1\) / (\d+) < MAX_TEXT / (\d+) && !\(evt && evt->buffer\) && cmd_in_buf \(ip\)\)\s*\{\s*"
                       r"ip->iflags \|= CMD_IN_BUF;\s*return;\s*\}\s*"
                       r"memmove \(ip->text, ip->text \+ ip->text_start, len \+ 1\);\s*"
                       r"ip->text_start = 0;\s*ip->text_end = len;\s*text_space = \(MAX_TEXT - ip->text_end - 1\) / (\d+);\s*"
                       r"if \(text_space < MAX_TEXT / (\d+)\)\s*\{\s*ip->text_start = 0;\s*ip->text_end = 0;\s*text_space = MAX_TEXT / (\d+);",
                       comm, re.S)
        if not m8 or len({m8.group(1), m8.group(3), m8.group(5)}) != 1 or len({m8.group(2), m8.group(4), m8.group(6)}) != 1:
            raise X.TieBroken("guard:space rule", "get_user_data's PORT_TELNET room rule (space / hold-back while a command is "
                              "buffered / compaction / discard of an unfinished line) left its shape")
        out.append("/-- C (get_user_data): `text_space = (MAX_TEXT - text_end - 1) / %s` -/\ndef spaceDiv : Nat := %s" % (m8.group(1), m8.group(1)))
        out.append("/-- C (get_user_data): `if (text_space < MAX_TEXT / %s)` (both tests) -/\ndef compactDiv : Nat := %s" % (m8.group(2), m8.group(2)))
        out.append("/-- C (get_user_data): `text_space = MAX_TEXT / %s` after the discard -/\ndef discardSpaceDiv : Nat := %s" % (m8.group(7), m8.group(7)))
        # (j) events per poll round
        epo = nocomment(open(os.path.join(E.REPO, "lib/async/async_runtime_epoll.c"), errors="replace").read())
        m9 = re.findall(r"#define MAX_EVENTS (\d+)", epo)
        if len(m9) != 1 or not re.search(r"int max_epoll_events = \(max_events < MAX_EVENTS\) \? max_events : MAX_EVENTS;\s*"
                                         r"int result = epoll_wait\(runtime->epoll_fd, epoll_events, max_epoll_events, timeout_ms\);", epo):
            raise X.TieBroken("guard:events per round", "cannot locate MAX_EVENTS / the epoll_wait call in lib/async/async_runtime_epoll.c")
        out.append("/-- C (async_runtime_epoll.c): `#define MAX_EVENTS %s` - events handed out per poll round -/\ndef maxEvents : Nat := %s" % (m9[0], m9[0]))
        # (g) the slot search of new_interactive starts behind the console slot; a new interactive holds no flag
        m7 = re.findall(r"for \(i = (\d+); i < max_users; i\+\+\)\s*if \(!all_users\[i\]\)\s*break;", comm)
        if len(m7) != 1 or not re.search(r"master_ob->interactive->iflags = 0;", comm):
            raise X.TieBroken("guard:slot search", "cannot locate `for (i = N; i < max_users; i++) if (!all_users[i]) break;` / "
                              "`iflags = 0` in new_interactive()")
        out.append("/-- C (new_interactive): first slot tried for a network user: `for (i = %s; i < max_users; i++)` -/\n"
                   "def firstUserSlot : Nat := %s" % (m7[0], m7[0]))
        # (h) structural guards (no generated definition): where CMD_IN_BUF is set and cleared, what ends single-char mode
        if len(re.findall(r"~CMD_IN_BUF", body)) != 2 \
                or len(re.findall(r"\}\s*else\s*ip->iflags &= ~CMD_IN_BUF;", body)) != 1 \
                or len(re.findall(r"next_cmd_in_buf \(ip\);\s*if \(!cmd_in_buf \(ip\)\)\s*ip->iflags &= ~CMD_IN_BUF;", body)) != 1:
            raise X.TieBroken("guard:CMD_IN_BUF cleared", "get_user_command no longer clears CMD_IN_BUF exactly (a) when "
                              "first_cmd_in_buf finds nothing and (b) when nothing complete is left after next_cmd_in_buf")
        nset = len(re.findall(r"iflags \|= CMD_IN_BUF;", comm))
        nguard = len(re.findall(r"if \([^;{}]*cmd_in_buf\s*\([^()]*\)\)\s*\{?[^{};]*(?:;[^{};]*)?iflags \|= CMD_IN_BUF;", comm))
        if nset != nguard or nset < 3:
            raise X.TieBroken("guard:CMD_IN_BUF set", "CMD_IN_BUF is set somewhere without the cmd_in_buf() test (%d sets, %d guarded)"
                              % (nset, nguard))
        if not re.search(r"free_sentence \(sent\);\s*i->input_to = 0;.*?if \(i->iflags & SINGLE_CHAR\)\s*\{\s*i->iflags &= ~SINGLE_CHAR;\s*"
                         r"set_telnet_single_char \(i, 0\);\s*reframe_single_char_input \(i\);\s*\}.*?call_function_pointer \(funp",
                         comm, re.S):
            raise X.TieBroken("guard:call_function_interactive", "call_function_interactive no longer clears input_to, ends "
                              "single-char mode and reframes the buffer BEFORE it calls the callback")
        if not re.search(r"if \(flags & I_SINGLE_CHAR\)\s*\{\s*set_telnet_single_char \(ob->interactive, 1\);[^{}]*?"
                         r"if \(ob->interactive && cmd_in_buf \(ob->interactive\)\)\s*ob->interactive->iflags \|= CMD_IN_BUF;\s*\}",
                         comm, re.S):
            raise X.TieBroken("guard:set_call", "set_call no longer flags typed-ahead text when it enters single-char mode")
        # (f) statement order of backend()'s loop, get_user_command() and process_user_command() from the clang AST
        out.append(AX.generate(bdir))
        return "\n".join(out)

    def prepare(self, ctx):
        epo = open(os.path.join(E.REPO, "lib/async/async_runtime_epoll.c"), errors="replace").read()
        m = re.search(r"#define MAX_EVENTS (\d+)", epo)
        self.exe = E.compile_harness("c12", [os.path.join(E.VERIF, "harness/c12/c12.c")],
                                     extra=("-DC12_MAX_EVENTS=%s" % (m.group(1) if m else "64"),))
        self.conf = E.make_mudlib(ctx.rundir, master="/c12/master.c")

    def run_impl(self, ctx, cases):
        return E.run_harness(self.exe, self.conf, cases, ctx.rundir)

    def nontrivial_key(self, case, out):
        import hashlib
        if not any(l.startswith("cmd ") for l in out):
            return None
        return hashlib.sha1("\n".join(out).encode()).hexdigest()

    # ---- boundary cases --------------------------------------------------
    def boundary(self):
        B = []

        def mk(name, lines):
            B.append(E.Case("b-" + name, lines + ["run"], {"origin": "boundary"}))

        def conns(n):
            out = []
            for _ in range(n):
                out += ["conn", "cycle"]
            return out
        mk("deep-queue-vs-one", conns(2) + ["send u1 " + "".join("a%d~" % i for i in range(20)), "send u2 x~"] +
           ["cycle"] * 4 + ["send u2 y~"] + ["cycle"] * 18)
        mk("sparse-layout", conns(7) + ["close u2", "close u3", "close u5", "cycle"] +
           ["send u%d a~b~c~" % i for i in (1, 4, 6, 7)] + ["cycle"] * 2 + ["conn", "cycle", "send u8 z~"] + ["cycle"] * 3)
        mk("table-grows", ["conn"] * 52 + ["cycle"] * 53 + ["send u%d a~b~" % i for i in (1, 2, 49, 50, 51, 52)] +
           ["cycle"] * 3 + ["close u51", "cycle", "conn", "cycle", "send u53 q~", "send u52 c~", "cycle", "cycle"])
        mk("last-slot-of-table", ["conn"] * 49 + ["cycle"] * 50 + ["send u49 a~b~", "send u48 a~", "send u1 a~b~"] +
           ["cycle"] * 3 + ["send u49 c~", "cycle", "cycle"])
        mk("table-grows-twice", ["conn"] * 101 + ["cycle"] * 102 + ["send u%d a~b~" % i for i in (1, 2, 50, 51, 99, 100, 101)] +
           ["cycle"] * 3 + ["close u100", "close u3", "cycle", "conn", "cycle", "conn", "cycle", "send u102 q~", "send u103 r~",
                            "send u101 c~", "cycle", "cycle"])
        mk("new-user-below-and-above-cursor", ["script u4 =k kick,u2"] + conns(6) +
           ["send u%d a~b~c~d~" % i for i in (1, 3, 4, 5, 6)] + ["send u4 k~", "cycle", "cycle", "cycle", "cycle", "cycle",
            "conn", "cycle", "send u7 x~y~", "cycle", "close u6", "cycle", "conn", "cycle", "conn", "cycle",
            "send u8 p~", "send u9 q~", "send u1 e~", "cycle", "cycle", "cycle"])
        mk("getchar-lines-and-empties", ["script u1 =g gc", "script u1 =h gc;it", "script u2 =g it"] + conns(2) +
           ["send u1 g~c~", "send u2 g~x~", "cycle", "send u1 ~~x~", "send u1 ~", "cycle", "cycle", "cycle", "cycle",
            "send u1 h~ab", "cycle", "send u1 cd~~e", "cycle", "cycle", "cycle", "send u1 f~", "cycle", "cycle", "cycle"])
        mk("input-to-noecho", ["script u1 =p itn", "script u1 =q itn;gc", "script u2 =p gc;itn"] + conns(2) +
           ["send u1 p~secret~a~", "send u2 p~zz", "cycle", "cycle", "cycle", "send u1 q~pw~b~", "send u2 y~", "cycle", "cycle",
            "cycle", "cycle"])
        # sparse table with one high slot; the cursor is parked just below the top slot (top user served last), then the
        # top user leaves: by its own command, by EOF, by another user's command
        def sparse(n, keep_low, tail):
            return (conns(n) + ["close u%d" % i for i in range(keep_low + 1, n)] + ["cycle", "cycle"] +
                    ["send u%d t~" % n, "cycle"] +                       # only the top user served: cursor = top - 1
                    tail)
        mk("sparse-top-leaves-by-own-command", ["script u12 =k kick,u12"] + sparse(12, 2,
           ["send u1 a~b~c~d~e~", "send u2 a~b~c~d~e~", "send u12 k~", "cycle"] + ["cycle"] * 6))
        mk("sparse-top-leaves-by-eof", sparse(12, 2,
           ["send u1 a~b~c~d~e~", "send u2 a~b~c~d~e~", "send u12 z~", "cycle", "close u12"] + ["cycle"] * 6))
        mk("sparse-top-dropped-by-own-command", ["script u9 =k drop,u9"] + sparse(9, 1,
           ["send u1 a~b~c~d~", "send u9 k~", "cycle"] + ["cycle"] * 5))
        mk("sparse-top-kicked-by-other", ["script u11 =k kick,u12"] + sparse(12, 2,
           ["conn", "cycle",                                               # u13 takes the free slot 3
            "close u13", "cycle",
            "send u1 a~b~c~", "send u2 a~b~c~", "send u12 z~", "cycle", "send u1 k~", "cycle", "cycle", "cycle", "cycle"]) )
        mk("sparse-two-high-slots", ["script u20 =k kick,u20;kick,u19"] + conns(20) +
           ["close u%d" % i for i in range(3, 19)] + ["cycle", "cycle", "send u20 t~", "cycle",
            "send u1 a~b~c~d~e~f~", "send u2 a~b~c~d~e~f~", "send u19 x~", "send u20 k~", "cycle"] + ["cycle"] * 8)
        # uncaught LPC errors: the iteration is aborted (longjmp to the top of backend()), the loop restarts at once
        mk("error-aborts-cycle", ["script u1 =x err", "script u2 =y ecmd,u1,m1", "script u1 =m1 err"] + conns(3) +
           ["send u1 a~x~b~", "send u2 p~y~q~", "send u3 r~s~t~"] + ["cycle"] * 4)
        mk("error-every-command", ["script u1 =%s err" % w for w in "abcde"] + conns(2) +
           ["send u1 a~b~c~d~e~f~", "send u2 p~q~r~", "cycle", "cycle", "cycle"])
        mk("error-in-callbacks", ["script u1 =g gc", "script u1 =z err;gc", "script u2 =h it", "script u2 =w gc;err",
                                  "script u2 =k err"] + conns(2) +
           ["send u1 g~zab~", "send u2 h~w~k", "cycle", "cycle", "send u2 ~x~", "cycle", "cycle", "cycle", "cycle"])
        mk("error-and-accept", ["script u1 =x err", "script u1 =y err"] + conns(1) +
           ["conn", "conn", "conn", "send u1 x~y~a~", "cycle", "send u2 p~", "send u3 q~", "cycle", "cycle", "cycle"])
        mk("error-after-leaving", ["script u1 =d drop,u1;err", "script u2 =k kick,u3;err", "script u3 =s kick,u3;err"] +
           conns(4) + ["send u%d a~b~" % i for i in (1, 2, 3, 4)] + ["send u1 d~", "send u2 k~", "send u3 s~"] +
           ["cycle"] * 5)
        mk("error-sparse-last-slot", ["script u49 =x err", "script u1 =x err"] + ["conn"] * 49 + ["cycle"] * 50 +
           ["close u%d" % i for i in range(2, 49)] + ["cycle", "send u49 x~a~x~b~", "send u1 a~x~b~"] + ["cycle"] * 4)
        # several users leave by their own command inside ONE command loop while the users served after them hold
        # commands and nobody is idle (the loop bound must not shrink with the table): quit = destruct, drop = remove_interactive
        def quitters(n, quit, how="kick", park=None, idle=0):
            sc = ["script u%d =q %s,u%d" % (q, how, q) for q in quit]
            pre = conns(n + idle)
            if park:
                pre += ["send u%d t~" % park, "cycle"]
            return sc + pre + ["send u%d %s" % (i, "q~z~" if i in quit else "a~b~") for i in range(1, n + 1)] + ["cycle"] * 4
        mk("two-quit-one-waits", quitters(3, (3, 2)))
        mk("two-drop-one-waits", quitters(3, (3, 2), "drop"))
        mk("two-quit-two-wait", quitters(4, (4, 3)))
        mk("three-quit-two-wait-parked", quitters(5, (2, 1, 5), park=3))
        mk("quit-mid-table-parked", quitters(6, (4, 3, 2), park=5))
        mk("two-quit-one-waits-one-idle", quitters(3, (3, 2), idle=1))
        mk("killer-and-quitters", ["script u5 =q kick,u4;kick,u5", "script u3 =q drop,u3"] + conns(5) +
           ["send u5 q~", "send u4 a~", "send u3 q~", "send u2 a~b~", "send u1 a~b~"] + ["cycle"] * 4)
        mk("quit-at-table-edge", ["script u50 =q kick,u50", "script u49 =q kick,u49"] + ["conn"] * 51 + ["cycle"] * 52 +
           ["close u%d" % i for i in range(2, 49)] + ["cycle", "send u51 q~", "send u50 q~", "send u49 q~", "send u1 a~b~"] +
           ["cycle"] * 4)
        # exec(): the connection (slot, iflags, text buffer, pending input_to) moves to a fresh object
        mk("exec-moves-connection", ["script u1 =x exec;gc", "script u2 =y exec;exec;ecmd,u1,m1", "script u1 =m1 exec;it",
                                     "script u3 =k exec;kick,u3"] + conns(3) +
           ["send u1 x~ab~c~", "send u2 y~p~q~", "send u3 r~k~s~"] + ["cycle"] * 5 + ["send u1 z~", "cycle", "cycle"])
        # type-ahead far beyond what is served (about 20 commands arrive per cycle, one is executed): everybody else is
        # still served in every cycle; below the discard size nothing is lost
        fl = []
        nx = 0
        for c in range(9):
            s, nx = self.flood(1, nx, 30)
            fl += [s, "send u2 x%d~" % c, "cycle"]
        mk("long-typeahead-below-discard", conns(3) + fl + ["send u3 z~"] + ["cycle"] * 6)
        # more users than a signed char counts: every one of them holds a command in the same cycle
        mk("many-users-140", ["conn"] * 140 + ["cycle"] * 141 + ["send u%d a~" % i for i in range(1, 141)] + ["cycle"] * 3)
        mk("kick-waiting-user", ["script u3 =k kick,u1;kick,u2", "script u2 =s kick,u2;gc"] + conns(3) +
           ["send u1 a~b~", "send u2 a~b~", "send u3 k~c~", "cycle", "cycle", "conn", "cycle", "send u4 s~", "cycle", "cycle"])
        mk("self-kick-and-drop", ["script u2 =s kick,u2;ecmd,u1,m1", "script u1 =d drop,u1;ecmd,u1,m1;gc", "script u1 =m1 it"] +
           conns(3) + ["send u1 d~a~", "send u2 s~a~", "send u3 a~", "cycle", "cycle", "send u1 z~", "cycle"])
        mk("getchar-typed-ahead", ["script u1 =g gc"] + conns(1) + ["send u1 g~ab", "cycle", "cycle", "cycle", "send u1 c",
                                                                     "cycle", "cycle", "send u1 x~y~", "cycle", "cycle", "cycle"])
        mk("getchar-sticky", ["script u1 =g gc", "script u1 =a gc", "script u1 =b gc", "script u2 =h it"] + conns(2) +
           ["send u1 g~", "send u2 h~q~r~", "cycle", "send u1 a", "cycle", "send u1 b", "send u1 ~", "cycle", "send u1 cc~d~",
            "cycle", "cycle", "cycle", "cycle"])
        mk("efun-flood", ["script u1 =f ecmd,u2,m1;ecmd,u2,m1;ecmd,u2,m2;ecmd,u1,m1;ecmd,u3,m1", "script u2 =m2 ecmd,u1,n1;gc",
                          "script u1 =n1 it"] + conns(2) + ["send u1 f~f~", "send u2 a~b~c~", "cycle", "cycle", "cycle", "cycle"])
        mk("accept-queue", ["conn", "conn", "conn", "cycle", "send u1 a~", "cycle", "send u1 b~", "send u2 a~", "cycle", "cycle",
                            "send u3 a~", "send u2 b~", "send u1 c~", "cycle", "cycle"])
        mk("close-with-data", conns(2) + ["send u1 a~b~", "close u1", "send u2 x~", "cycle", "cycle", "cycle", "conn", "cycle",
                                          "send u3 q~", "cycle"])
        mk("empty-and-partial", conns(2) + ["send u1 ~~a~", "send u2 ab", "cycle", "cycle", "send u2 c~~", "cycle", "cycle",
                                            "cycle", "cycle"])
        # a connect and disconnects of other users inside one process_io (the harness reports ready descriptors in a
        # fixed order: listening port, then users in slot order): the new user takes the first free slot BEFORE the
        # slots of the leaving users are freed
        mk("connect-and-disconnect-one-io", conns(4) + ["close u2", "conn", "send u3 a~", "cycle", "send u5 x~", "cycle",
                                                        "close u1", "close u4", "conn", "conn", "cycle", "cycle", "cycle",
                                                        "send u6 y~", "send u7 z~", "send u5 w~", "cycle", "cycle"])
        mk("disconnect-with-data-and-connect", conns(3) + ["send u1 a~b~", "close u1", "conn", "send u2 x~", "cycle", "cycle",
                                                           "conn", "close u2", "cycle", "send u4 q~", "send u5 r~", "cycle", "cycle"])
        mk("bang-is-never-sent", conns(1) + ["send u1 !a~", "send u1 b~", "send u1 c!~", "cycle", "cycle"])
        mk("no-cycle", ["conn", "send u1 a~"])
        mk("idle-cycles", ["cycle", "cycle", "conn", "cycle", "cycle", "send u1 a~", "cycle"])
        mk("everybody-kicked", ["script u1 =k kick,u2;kick,u3;kick,u1"] + conns(3) +
           ["send u3 a~", "send u2 a~", "send u1 k~", "cycle", "cycle", "conn", "cycle", "send u4 a~", "cycle"])
        return B

    # ---- random histories --------------------------------------------------
    def gen_script(self, rng, nusers, level):
        ops = []
        for _ in range(rng.range(1, 3)):
            k = rng.weighted([("kick", 2), ("drop", 2), ("ecmd", 5 if level > 1 else 0), ("gc", 3), ("it", 2), ("itn", 1),
                              ("err", 2), ("exec", 2)])
            if k in ("kick", "drop"):
                ops.append("%s,u%d" % (k, rng.range(1, nusers + 1)))
            elif k == "ecmd":
                words = SUBWORDS2 if level == 3 else SUBWORDS1
                ops.append("ecmd,u%d,%s" % (rng.range(1, nusers + 1), rng.choice(words)))
            else:
                ops.append(k)
        return ";".join(ops)

    def gen_data(self, rng):
        k = rng.weighted([("lines", 10), ("partial", 3), ("empty", 1), ("deep", 2)])
        if k == "lines":
            s = "".join(rng.choice(WORDS) + "~" for _ in range(rng.range(1, 3)))
            if rng.chance(1, 5):
                s += rng.choice(WORDS)
            return s
        if k == "partial":
            return rng.choice(WORDS)
        if k == "empty":
            return "~" * rng.range(1, 2)
        return "".join(rng.choice(WORDS) + "~" for _ in range(rng.range(4, 12)))

    def gen_case(self, rng, cid, tier):
        big = tier != "quick" and rng.chance(1, 40)
        nmax = rng.range(1, 6) if not rng.chance(1, 6) else rng.range(6, 12)
        if big:
            nmax = rng.range(50, 58) if rng.chance(2, 3) else rng.range(100, 112)
        lines = []
        # scripts
        for _ in range(rng.range(0, 6)):
            u = rng.range(1, nmax)
            lines.append("script u%d =%s %s" % (u, rng.choice(WORDS), self.gen_script(rng, nmax, 3)))
        for _ in range(rng.range(0, 3)):
            u = rng.range(1, nmax)
            lines.append("script u%d =%s %s" % (u, rng.choice(SUBWORDS2), self.gen_script(rng, nmax, 2)))
        for _ in range(rng.range(0, 2)):
            u = rng.range(1, nmax)
            lines.append("script u%d =%s %s" % (u, rng.choice(SUBWORDS1), self.gen_script(rng, nmax, 1)))
        if rng.chance(1, 4):
            # get_char heavy: lines typed while a get_char() is pending, partial lines typed ahead of it
            for u in range(1, min(nmax, 4) + 1):
                for wd in (rng.choice(WORDS), rng.choice(WORDS)):
                    lines.append("script u%d =%s %s" % (u, wd, rng.choice(["gc", "gc", "gc;it", "it", "itn", "gc;ecmd,u%d,n1" % u,
                                                                           "gc;err", "err"])))
        nconn = 0
        nacc = 0
        closed = set()
        eof = {}            # user -> data pending at the time of close
        rxp = set()         # users with unread data
        sent = {}
        body = []
        first = rng.range(1, min(nmax, 4)) if not big else nmax - rng.range(0, 3)
        for _ in range(first):
            body.append("conn")
            nconn += 1
            if rng.chance(2, 3) and not big:
                body.append("cycle")
                nacc = min(nconn, nacc + 1)
        while nacc < nconn:
            body.append("cycle")
            nacc += 1
        steps = rng.range(3, 14) if not big else rng.range(2, 5)
        for _ in range(steps):
            for _ in range(rng.range(0, 4 if not big else 12)):
                k = rng.weighted([("send", 12), ("close", 1), ("conn", 2)])
                if k == "send" and nacc > 0:
                    u = rng.range(1, nacc)
                    d = self.gen_data(rng)
                    cost = len(d) + 2 * d.count("~")
                    if u in closed or sent.get(u, 0) + cost > MAX_BYTES_PER_USER:
                        continue
                    sent[u] = sent.get(u, 0) + cost
                    rxp.add(u)
                    body.append("send u%d %s" % (u, d))
                elif k == "close" and nacc > 0:
                    u = rng.range(1, nacc)
                    if u in closed:
                        continue
                    closed.add(u)
                    eof[u] = True
                    body.append("close u%d" % u)
                elif k == "conn" and nconn < nmax:
                    nconn += 1
                    body.append("conn")
            for _ in range(rng.weighted([(1, 8), (2, 4), (3, 2), (5, 1)])):
                body.append("cycle")
                if nacc < nconn:
                    nacc += 1
                for u in list(eof):
                    if u in rxp:
                        continue
                    del eof[u]
                rxp = set()
        body += ["cycle"] * rng.range(1, 6)
        return E.Case(cid, lines + body + ["run"], {"origin": "generated"})

    def gen_sparse(self, rng, cid):
        """sparse table with a high slot: connect many, disconnect the middle ones, park the cursor at different slots,
        then let the top user(s) leave in different ways while the low users have queues"""
        n = rng.range(5, 16)
        keep = sorted(set([rng.range(1, max(1, n // 3)) for _ in range(rng.range(1, 3))]))
        tops = [n] if rng.chance(2, 3) else [n - 1, n]
        gone = [i for i in range(1, n + 1) if i not in keep and i not in tops]
        lines = []
        how = rng.choice(["own-kick", "own-drop", "eof", "other", "eof-later"])
        top = tops[-1]
        if how == "own-kick":
            lines.append("script u%d =k kick,u%d" % (top, top))
        elif how == "own-drop":
            lines.append("script u%d =k drop,u%d" % (top, top))
        elif how == "other":
            lines.append("script u%d =k kick,u%d" % (rng.choice(keep), top))
        body = []
        for _ in range(n):
            body += ["conn", "cycle"]
        body += ["close u%d" % i for i in rng.shuffle(gone)] + ["cycle", "cycle"]
        # park the cursor: serve one chosen user alone
        parked = rng.choice(tops + keep + tops)
        body += ["send u%d t~" % parked, "cycle"]
        depth = rng.range(3, 8)
        for u in keep:
            body.append("send u%d %s" % (u, "".join(rng.choice(WORDS[:8]) + "~" for _ in range(depth))))
        for t in tops:
            body.append("send u%d %s" % (t, "k~" if (t == top and how.startswith("own")) else rng.choice(WORDS[:8]) + "~"))
        if how == "other":
            body.append("cycle")
            body.append("send u%d k~" % keep[0])
        body.append("cycle")
        if how == "eof":
            body.append("close u%d" % top)
        elif how == "eof-later":
            body += ["cycle", "close u%d" % top]
        body += ["cycle"] * rng.range(depth, depth + 4)
        if rng.chance(1, 2):
            body += ["conn", "cycle", "send u%d q~" % (n + 1), "cycle", "cycle"]
        return E.Case(cid, lines + body + ["run"], {"origin": "generated-sparse"})

    @staticmethod
    def flood(user, first, nlines, tag="q"):
        """one `send` of numbered (unique) lines, at most MAX_TEXT/16 = 128 bytes on the wire"""
        out, raw, i = "", 0, first
        while i < first + nlines:
            l = "%s%d~" % (tag, i)
            if raw + len(l) + 1 > 120:
                break
            out += l
            raw += len(l) + 1
            i += 1
        return "send u%d %s" % (user, out), i

    def gen_longqueue(self, rng, cid, cross=None):
        """type-ahead far beyond what is served: one or two users paste ~120 bytes per cycle (about 20 commands) while one
        command per cycle is executed; the others send now and then and must be served in every cycle.  `cross`: go on
        until the pending text reaches the size at which get_user_data throws the buffer away (C13-typeahead-discard)"""
        n = rng.range(2, 4)
        flooders = [1] if rng.chance(2, 3) else [1, 2]
        if cross is None:
            cross = rng.chance(1, 3)
        cycles = rng.range(14, 17) if cross else rng.range(4, 10)
        lines = []
        if rng.chance(1, 3):
            lines.append("script u%d =%s gc" % (n, "x3"))
        body = ["conn", "cycle"] * n
        nxt = {f: 0 for f in flooders}
        k = 0
        for c in range(cycles):
            for f in flooders:
                s, nxt[f] = self.flood(f, nxt[f], 30, "q" if f == 1 else "r")
                body.append(s)
            for u in range(1, n + 1):
                if u not in flooders and rng.chance(1, 2):
                    body.append("send u%d x%d~" % (u, k))
                    k += 1
            body.append("cycle")
            if c == cycles // 2 and rng.chance(1, 3) and n not in flooders:
                body += ["close u%d" % n, "cycle"]
        body += ["cycle"] * rng.range(3, 8)
        return E.Case(cid, lines + body + ["run"], {"origin": "generated-longqueue"})

    def gen_quitters(self, rng, cid):
        """everybody holds a command in the same cycle; two or more users leave by their own command (destruct /
        remove_interactive) or are removed by somebody else's; cursor parked at a random slot; few or no idle users"""
        n = rng.range(3, 9) if not rng.chance(1, 8) else rng.range(48, 52)
        users = list(range(1, n + 1))
        active = users if n < 20 else rng.shuffle(users)[:rng.range(3, 8)]
        nq = rng.range(2, max(2, len(active) - 1))
        quit = rng.shuffle(list(active))[:nq]
        lines = []
        for q in quit:
            k = rng.weighted([("kick", 5), ("drop", 3), ("other", 2)])
            if k == "other":
                lines.append("script u%d =q kick,u%d;kick,u%d" % (q, rng.choice(quit), q))
            else:
                lines.append("script u%d =q %s,u%d" % (q, k, q))
        body = ["conn"] * n + ["cycle"] * (n + 1)
        idle = rng.weighted([(0, 6), (1, 2), (2, 1)])
        body += ["conn", "cycle"] * idle
        if n >= 20:
            body += ["close u%d" % i for i in users if i not in active and rng.chance(4, 5)] + ["cycle"]
        for _ in range(rng.range(0, 2)):                       # park the cursor
            body += ["send u%d t~" % rng.choice(active), "cycle"]
        for u in active:
            body.append("send u%d %s" % (u, ("q~" + "".join(rng.choice(WORDS[:6]) + "~" for _ in range(rng.range(0, 2)))) if u in quit
                                         else "".join(rng.choice(WORDS[:6]) + "~" for _ in range(rng.range(1, 3)))))
        body += ["cycle"] * rng.range(2, 5)
        if rng.chance(1, 3):
            body += ["conn", "cycle", "send u%d a~" % (n + idle + 1), "cycle", "cycle"]
        return E.Case(cid, lines + body + ["run"], {"origin": "generated-quitters"})

    def generate(self, rng, n, tier):
        out = []
        for i in range(n):
            if (tier == "search" and i < 150) or i % 7 == 6:
                out.append(self.gen_quitters(rng, "g%d" % i))
            elif i % 11 == 10 or (tier == "search" and i < 200):
                out.append(self.gen_longqueue(rng, "g%d" % i))
            elif i % 5 == 4:
                out.append(self.gen_sparse(rng, "g%d" % i))
            else:
                out.append(self.gen_case(rng, "g%d" % i, tier))
        return out

    def mutate_around(self, case, rng, n):
        """cases near a differing case: the same history with the slot layout and the cursor position perturbed
        (extra connects / disconnects in front, single commands that move the cursor, other users leaving), plus
        fresh sparse-table histories"""
        out = []
        lines = [l for l in case.lines if l != "run"]
        nconn = sum(1 for l in lines if l == "conn")
        for i in range(n):
            if i % 3 == 2 or nconn == 0:
                out.append(self.gen_sparse(rng, "m%d" % i) if i % 2 else self.gen_quitters(rng, "m%d" % i))
                continue
            ls = list(lines)
            for _ in range(rng.range(1, 4)):
                k = rng.weighted([("move-cursor", 4), ("close", 2), ("kick-script", 1), ("more-cycles", 2), ("queue", 2)])
                u = rng.range(1, nconn)
                pos = rng.range(0, len(ls))
                # never in front of the connects the ids refer to: insert after the u-th conn
                seen = 0
                first_ok = 0
                for j, l in enumerate(ls):
                    if l == "conn":
                        seen += 1
                    if seen >= nconn:
                        first_ok = j + 2
                        break
                pos = max(pos, min(first_ok, len(ls)))
                if k == "move-cursor":
                    ls[pos:pos] = ["send u%d %s~" % (u, rng.choice(WORDS[:8])), "cycle"]
                elif k == "close":
                    ls[pos:pos] = ["close u%d" % u, "cycle"]
                elif k == "kick-script":
                    ls.insert(0, "script u%d =%s kick,u%d" % (u, rng.choice(WORDS[:8]), rng.range(1, nconn)))
                elif k == "queue":
                    ls[pos:pos] = ["send u%d %s" % (u, "".join(rng.choice(WORDS[:8]) + "~" for _ in range(rng.range(2, 6))))]
                else:
                    ls[pos:pos] = ["cycle"] * rng.range(1, 4)
            out.append(E.Case("m%d" % i, ls + ["cycle"] * rng.range(2, 6) + ["run"], {"origin": "mutated"}))
        return out

    def histogram(self, cases, impl):
        h = {"cycles": 0, "aborted_cycles": 0, "buffered_cmds": 0, "efun_cmds": 0, "kicks": 0, "drops": 0, "getchar": 0, "input_to": 0,
             "cycles_with_3plus_served": 0, "cycles_leaving_backlog": 0, "max_users_100": 0, "closes": 0, "logons": 0,
             "connect_and_disconnect_in_one_io": 0, "exec_moves": 0}
        for c in cases:
            served = 0
            closed_since_end = False
            for l in impl.get(c.id, []):
                t = l.split()
                if not t:
                    continue
                if t[0] == "begin":
                    served = 0
                    h["cycles"] += 1
                elif t[0] == "cmd":
                    h["buffered_cmds"] += 1
                    served += 1
                elif t[0] == "ecmd":
                    h["efun_cmds"] += 1
                elif t[0] == "kick" and t[-1] == "1":
                    h["kicks"] += 1
                elif t[0] == "drop" and t[-1] == "1":
                    h["drops"] += 1
                elif t[0] == "gc" and t[-1] == "1":
                    h["getchar"] += 1
                elif t[0] == "it" and t[-1] == "1":
                    h["input_to"] += 1
                elif t[0] == "exec" and t[-1] == "1":
                    h["exec_moves"] += 1
                elif t[0] == "abort":
                    h["aborted_cycles"] += 1
                elif t[0] == "close":
                    h["closes"] += 1
                    closed_since_end = True
                elif t[0] == "logon":
                    h["logons"] += 1
                    if closed_since_end:
                        h["connect_and_disconnect_in_one_io"] += 1
                elif t[0] == "end":
                    closed_since_end = False
                    if served >= 3:
                        h["cycles_with_3plus_served"] += 1
                    if any(x.split(":")[-1].isdigit() and int(x.split(":")[-1]) & 128 for x in t[3:]):
                        h["cycles_leaving_backlog"] += 1
                    if len(t) > 2 and t[2] == "max=100":
                        h["max_users_100"] += 1
        return h


PROP = C12()
