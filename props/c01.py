"""C01 - running any LPC program is memory-safe (partial: see level_note)."""
import hashlib
import os
import re

from nvlib import engine as E
from nvlib import extract as X
from nvlib.check import Prop
from props import c01_extract as T

TNAMES = ["T_INVALID", "T_LVALUE", "T_NUMBER", "T_STRING", "T_ARRAY", "T_OBJECT", "T_MAPPING", "T_FUNCTION", "T_REAL",
          "T_BUFFER", "T_CLASS", "T_ANY"]


class C01(Prop):
    id = "C01"
    title = "Running any LPC program is memory-safe; the worst outcome is an LPC error"
    lean_modules = ["NV.C01.Props", "NV.C01.Witness"]
    theorems = []
    witness_theorems = []
    consts = [("tNumber", "T_NUMBER"), ("tString", "T_STRING"), ("tArray", "T_ARRAY"), ("tMapping", "T_MAPPING"),
              ("tBuffer", "T_BUFFER"), ("tAny", "T_ANY"),
              ("bufTailPad", "sizeof(buffer_t) - offsetof(buffer_t, item) - 1"),
              ("bufHeaderSize", "offsetof(buffer_t, item)"),
              ("arrayInline", "sizeof(((array_t*)0)->item) / sizeof(svalue_t)"),
              ("ushrtMax", "USHRT_MAX"), ("instrTypeSlots", "sizeof(((instr_t*)0)->type) / sizeof(short)")]
    const_headers = ["lpc/types.h", "lpc/array.h", "lpc/buffer.h", "lpc/lex.h"]

    def gen_extra(self, ctx, bdir):
        tv = X.probe_values(bdir, [(n, n) for n in TNAMES], ["lpc/types.h"])
        text, info = T.generate_all(bdir, tv)
        self.info = info
        return text

    def prepare(self, ctx):
        self.exe = E.compile_harness("c01", [os.path.join(E.VERIF, "harness/c01/c01.c")])
        self.conf = E.make_mudlib(ctx.rundir, master="/c01/master.c", extra_conf="MaxArraySize 65535\nMaxStringLength 300000\n")
        self.raw = {}

    def run_impl(self, ctx, cases):
        res = E.run_harness(self.exe, self.conf, cases, ctx.rundir, timeout=3000, args=["--timeout", "60"])
        out = {}
        for cid, lines in res.items():
            self.raw[cid] = lines
            o = []
            for l in lines:
                if l.startswith("caught "):
                    continue                      # errors caught by catch() inside fuzz programs
                if l.startswith("fz "):
                    t = l.split()
                    if t[-1] in ("ok", "err"):
                        t[-1] = "done"
                    l = " ".join(t)
                o.append(l)
            out[cid] = o
        return out

    def canon(self, lines):
        out = []
        prev_san = False
        for l in lines:
            l = l.rstrip()
            if not l:
                continue
            if l.startswith("sanitizer ") and ("ERROR:" in l or "runtime error:" in l):
                if "signed integer overflow" in l:
                    l = "ub signed-overflow"
                else:
                    m = re.search(r"AddressSanitizer: ([\w-]+)", l)
                    if m:
                        l = "sanitizer " + m.group(1)
                    else:
                        m = re.search(r"runtime error: (.*)$", l)
                        what = m.group(1) if m else l[10:]
                        what = re.sub(r"-?\d+", "N", what)
                        l = "sanitizer ubsan " + what
                prev_san = True
                out.append(l)
                continue
            if prev_san and l.startswith("crash exit"):
                prev_san = False
                continue                          # the abort that follows a sanitizer report
            prev_san = False
            if l.startswith("sanitizer "):
                prev_san = True
                out.append(l)
                continue
            out.append(l)
        return out


PROP = C01()
