"""C17 generators: unit cases for the table algorithms and system histories over generated LPC program families."""
from nvlib import engine as E

WORDS = ["alpha", "beta", "gamma", "delta", "omega", "kappa", "sigma", "theta", "zeta", "eta", "iota", "lambda", "mu", "nu",
         "xi", "pi", "rho", "tau", "phi", "chi", "psi", "north", "south", "east", "west", "up", "down", "in", "out", "x", "y",
         "z", "q", "w", "a", "b"]


def hx(s):
    return s.encode().hex() if s else "-"


# ---------------------------------------------------------------------------
# unit cases

def gen_usort(rng, n=None):
    n = rng.range(0, 40) if n is None else n
    keys = rng.shuffle(list(range(8, 8 + 3 * n + 5)))[:n]
    h = rng.below(n) if n and rng.chance(2, 5) else -1
    f_ov = rng.range(0, 4)
    n_ov = rng.range(0, 6)
    gap = rng.range(0, 3)
    f_def = f_ov + n_ov + gap
    n_def = rng.range(0, n + 2)
    index, j = [], 0
    for _ in range(n_ov):
        if rng.chance(1, 3):
            index.append(255)
        else:
            index.append(j)
            j += 1
    total = f_def + n_def
    flags = []
    for ri in range(total):
        inh = 1 if (ri < f_def and rng.chance(1, 2)) or (ri >= f_def and rng.chance(1, 6)) else 0
        flags.append(inh | rng.choice([0, 4, 0x200, 0x804, 0x14 & ~1]))
    nslots = j + n_def
    # slot -> runtime index
    slot_ri = {}
    for i in range(n_ov):
        if index[i] != 255:
            slot_ri[index[i]] = f_ov + i
    for i in range(n_def):
        slot_ri[j + i] = f_def + i
    offs = []
    for s in range(nslots):
        if flags[slot_ri[s]] & 1 or n == 0:
            offs.append(rng.below(65536) if not (n == 0 and not (flags[slot_ri[s]] & 1)) else 0)
        else:
            offs.append(rng.below(n))
    if n == 0:
        # with no functions defined nothing may be a definition: mark everything inherited
        flags = [f | 1 for f in flags]
    ts = [rng.choice([65535, rng.below(500)]) for _ in range(n)] if n and rng.chance(1, 2) else []

    def c(xs):
        return ",".join(str(x) for x in xs) if xs else "-"
    return "usort k=%s h=%d fl=%s of=%s fd=%d fo=%d nc=%d nd=%d ix=%s ts=%s" % (
        c(keys), h, c(flags), c(offs), f_def, f_ov, f_def - n_ov, f_def - j, c(index), c(ts))


def gen_ureloc(rng):
    size = rng.range(400, 60000)
    f = [rng.range(168, size - 1) for _ in range(13)]
    if rng.chance(1, 2):
        f[8] = 0                      # no inherits: prog->inherit == 0
    if rng.chance(1, 2):
        f[11] = f[12] = 0             # no save_types
    return "ureloc size=%d f=%s" % (size, ",".join(str(x) for x in f))


def gen_upatch(rng, pad=None):
    nsp = rng.range(1, 40)
    mode = rng.below(4)
    ptrs = set()
    while len(ptrs) < nsp:
        if mode == 0:
            p = 0x1000 + 16 * rng.below(1 << 16)
        elif mode == 1:
            p = (rng.range(0x6020, 0x6090) << 32) + 16 * rng.below(4096)          # ASan-like size-class regions
        elif mode == 2:
            p = 0x1000 + rng.below(1 << 34)                                        # beyond 2 GiB apart
        else:
            p = rng.choice([0x1000 + 16 * rng.below(4096), 0x7f0000000000 + 16 * rng.below(4096)])
        ptrs.add(p)
    ptrs = rng.shuffle(sorted(ptrs))
    tables = []
    for _ in range(rng.range(1, 3)):
        k = rng.range(0, min(nsp, 30))
        idx = rng.shuffle(list(range(nsp)))[:k]
        if rng.chance(1, 3):
            idx.append(-1)
        idx = rng.shuffle(idx)
        tables.append(",".join("%d:%d" % (i, 10 + n) for n, i in enumerate(idx)) or "-")
    if pad is None:
        pad = rng.choice([0, 0, 7, 32759, 32768, 40000, 60000])
    need = pad + 8 * len(tables) + 1 + sum((t.count(":")) * 10 for t in tables)
    if need > 65000:
        pad = 0
    return "upatch pad=%d sp=%s sw=%s" % (pad, ",".join(str(p) for p in ptrs), ";".join(tables))


def gen_uqsort(rng, n=None, kind=None):
    """the real quickSort on n elements over a small value domain with a comparison TABLE: a strict order (distinct or
    repeated values), reversed / already sorted input, or an arbitrary (inconsistent) table - the model mirrors the
    code, so both must agree for every table; the oracle demands a permutation always and sortedness for orders"""
    n = rng.choice([0, 1, 2, 3, rng.range(4, 12), rng.range(12, 60), rng.range(60, 200)]) if n is None else n
    m = rng.range(1, 12)
    kind = rng.weighted([("order", 5), ("reverse-order", 1), ("preorder", 2), ("random", 3), ("const", 1)]) if kind is None else kind
    rank = rng.shuffle(list(range(m)))
    if kind == "preorder":
        rank = [r // 2 for r in rank]            # ties between different values
    tab = []
    for x in range(m):
        for y in range(m):
            if kind in ("order", "preorder", "reverse-order"):
                tab.append("-" if rank[x] < rank[y] else "+" if rank[x] > rank[y] else "0")
            elif kind == "const":
                tab.append("-")
            else:
                tab.append(rng.choice("-0+"))
    shape = rng.below(4)
    if shape == 0 and kind in ("order", "preorder", "reverse-order"):
        by = sorted(range(m), key=lambda v: rank[v])
        v = sorted((rng.below(m) for _ in range(n)), key=lambda x: by.index(x))
        if kind == "reverse-order":
            v.reverse()
    elif shape == 1:
        v = [rng.below(m)] * n
    else:
        v = [rng.below(m) for _ in range(n)]
    return "uqsort sz=%d m=%d v=%s c=%s" % (rng.choice([4, 8, 10]), m, ",".join(str(x) for x in v) or "-", "".join(tab))


def gen_utimes(rng, cid):
    b = rng.range(100, 200)
    f = rng.choice([b - 1, b, b + 1, rng.range(50, 250), None])
    return "utimes %d %s /c17/w/%s/t" % (b, "none" if f is None else f, cid)


# ---------------------------------------------------------------------------
# LPC program families

class Fam:
    """a family of programs: progs[0] is the top; every program knows its includes, inherits and function texts"""

    def __init__(self, rng, cid, nprog=None, big=False, saves=None, sb_force=None, shape=None):
        self.rng = rng
        self.dir = "c17/w/" + cid
        self.used_names = set()
        nprog = rng.range(1, 4) if nprog is None else nprog
        self.shape = shape
        if shape == "siblings":
            nprog = 3
        self.progs = []
        for i in range(nprog):
            # names of different lengths (the binary stores the names of the program and of its parents)
            self.progs.append({"file": "p%d%s" % (i, "x" * rng.weighted([(0, 3), (1, 1), (3, 1), (7, 1)])), "k": rng.range(1, 99),
                               "inh": [], "inc": [], "fns": [], "labels": []})
        # inheritance: a chain, sometimes the top inherits two
        for i in range(nprog - 1):
            self.progs[i]["inh"].append(i + 1)
        if shape == "siblings":
            # two programs share a parent: p0 and p1 both inherit p2 (p1 is loaded only by the sibling steps)
            for p in self.progs:
                p["inh"] = []
            self.progs[0]["inh"] = [2]
            self.progs[1]["inh"] = [2]
        elif nprog >= 3 and rng.chance(1, 3):
            self.progs[1]["inh"].remove(2)
            self.progs[0]["inh"].append(2)
        self.incs = {}     # include file name -> constant
        for n, p in enumerate(self.progs):
            p["save"] = rng.chance(5, 6) if saves is None else saves[n]
            p["types"] = rng.chance(1, 2)
            for _ in range(rng.weighted([(0, 3), (1, 4), (2, 2)])):
                nm = "h%d.h" % len(self.incs)
                if rng.chance(1, 4):
                    # a header that lives in the include directory (found through the search path, by its bare name)
                    nm = "c17g_%s_h%d.h" % (cid, len(self.incs))
                    self.incs[nm] = {"k": rng.range(1, 50), "nested": None, "global": True}
                else:
                    self.incs[nm] = {"k": rng.range(1, 50), "nested": None}
                p["inc"].append(nm)
        if shape == "siblings":
            nm = "h%d.h" % len(self.incs)             # the shared parent has a header of its own
            self.incs[nm] = {"k": rng.range(1, 50), "nested": None}
            self.progs[2]["inc"].append(nm)
        # one nested include now and then
        names = sorted(n for n in self.incs if not self.incs[n].get("global"))
        if len(names) >= 2 and rng.chance(1, 2):
            self.incs[names[0]]["nested"] = names[1]
            for p in self.progs:                     # a file must not be included twice by the same program
                if names[0] in p["inc"] and names[1] in p["inc"]:
                    p["inc"].remove(names[1])
        for i in reversed(range(nprog)):
            self.make_functions(i, big and i == 0)
        # where the pragmas stand: the decision to save is taken from the state at the END of the file
        for i, p in enumerate(self.progs):
            nf = len(p["fns"])
            if p["save"]:
                p["sb"] = rng.weighted([("top", 4), ("mid", 4), ("end", 3), ("inc-top", 1), ("inc-end", 2), ("toggle-on", 2)])
                if sb_force and i in sb_force:
                    p["sb"] = sb_force[i]
            else:
                p["sb"] = rng.weighted([("none", 3), ("toggle-off", 1)])
            if not nf and p["sb"] == "mid":
                p["sb"] = "top"                                   # (no function to put the pragma behind)
            p["sb_at"] = rng.range(1, nf) if nf else 0          # "mid": after this many functions
            p["st"] = rng.weighted([("top", 3), ("mid", 2), ("end", 1)]) if p["types"] else "none"
            if not nf and p["st"] == "mid":
                p["st"] = "top"
            p["st_at"] = rng.range(1, nf) if nf else 0
            if p["sb"] in ("inc-top", "inc-end"):
                nm = "s%d.h" % i
                self.incs[nm] = {"k": rng.range(1, 50), "nested": None, "pragma": True}
                p["sbinc"] = nm

    def ident(self):
        while True:
            n = "".join(self.rng.choice("abcdefghijklmnopqrstuvwxyz") for _ in range(self.rng.range(1, 8)))
            n += "_" + self.rng.choice("abcdefghijklmnopqrstuvwxyz")     # never a keyword or an efun
            if n not in self.used_names and n not in ("if", "do", "in", "for", "int", "new", "ref", "nomask", "static", "string",
                                                       "mixed", "void", "object", "mapping", "float", "class", "case", "else",
                                                       "while", "switch", "return", "break", "inherit", "private", "public",
                                                       "varargs", "function", "buffer", "efun", "catch", "foreach", "default",
                                                       "continue", "protected", "array", "time", "sscanf", "parse", "call"):
                self.used_names.add(n)
                return n

    def label(self):
        rng = self.rng
        kind = rng.below(4)
        if kind == 0:
            return rng.choice(WORDS)
        if kind == 1:
            return " ".join(rng.choice(WORDS) for _ in range(rng.range(2, 4)))
        if kind == 2:
            return "".join(rng.choice("abcdefghijklmnopqrstuvwxyz0123456789") for _ in range(rng.range(10, 70)))
        return rng.choice(WORDS) + str(rng.below(1000))

    def make_functions(self, i, big):
        rng = self.rng
        p = self.progs[i]
        nf = rng.range(3, 12)
        empty = None
        if not big and rng.chance(1, 9):
            # a program without functions: nothing at all, one variable, or one string in an initialiser
            nf = 0
            empty = rng.choice(["nothing", "variable", "string"])
        p["empty"] = empty
        fns = []
        inherited_public = []
        for j in p["inh"]:
            inherited_public += [(f["name"], f["args"]) for f in self.progs[j]["fns"] if f["public"]]
        macro = None
        if p["inc"]:
            macro = "K_" + p["inc"][0].replace(".", "_").upper()
        kinds = ["arith", "sswitch", "iswitch", "literal", "callinh", "private", "class", "vararg", "global"]
        have_class = False
        for _ in range(nf):
            kind = rng.choice(kinds)
            name = self.ident()
            f = {"name": name, "public": True, "kind": kind, "args": 1}
            if kind == "arith":
                f["body"] = "int %s (string s, string t) { return strlen (s) * @K@ + strlen (t)%s; }" % (
                    name, (" + " + macro) if macro else "")
                f["args"] = 2
            elif kind == "sswitch":
                n = rng.weighted([(1, 4), (2, 8), (3, 12), (5, 12), (9, 12), (17, 8), (40, 4), (130, 1), (257, 1), (270, 1)])
                labels = []
                while len(labels) < n:
                    l = self.label()
                    if l not in labels:
                        labels.append(l)
                cases = "".join('\n case "%s": return "%s-%d";' % (l, name, k) for k, l in enumerate(labels))
                zero = ' case 0: return "%s-zero";' % name if rng.chance(1, 4) else ""
                dflt = ' default: return "%s-dflt";' % name if rng.chance(2, 3) else ""
                f["body"] = 'string %s (string s) { switch (s) {%s%s%s } return "%s-none@K@"; }' % (name, cases, zero, dflt, name)
                f["labels"] = labels
                p["labels"] += labels
            elif kind == "iswitch":
                f["body"] = ('string %s (string s) { switch (strlen (s)) { case 1: return "one"; case 2..4: return "few"; '
                             'case 100: return "many@K@"; } return "other"; }' % name)
            elif kind == "literal":
                f["body"] = "int %s (string s) { function f = (: $1 * 2 + @K@ :); return evaluate (f, strlen (s)); }" % name
            elif kind == "callinh" and inherited_public:
                target, targs = rng.choice(inherited_public)
                f["body"] = 'mixed %s (string s) { return ({ %s (%s), "@K@" }); }' % (name, target, "s, s" if targs == 2 else "s")
            elif kind == "private":
                helper = self.ident()
                f["body"] = ("private int %s (int a, int b) { return a * 3 + b; }\n"
                             "int %s (string s) { return %s (strlen (s), @K@); }" % (helper, name, helper))
                f["extra_names"] = [helper]
            elif kind == "class" and not have_class:
                have_class = True
                cn = "C" + self.ident()
                f["pre"] = "class %s { int num; string txt; }" % cn
                f["body"] = ("mixed %s (string s) { class %s c; c = new (class %s); c->num = strlen (s) + @K@; c->txt = s; "
                             "return ({ c->num, c->txt }); }" % (name, cn, cn))
            elif kind == "vararg":
                f["body"] = 'varargs string %s (string s, string t, int n) { if (!t) t = "@K@"; return s + "/" + t; }' % name
            elif kind == "global":
                g = self.ident()
                f["pre"] = "int %s = @K@;\nstring %s_s = \"%s\";" % (g, g, self.label())
                f["body"] = "mixed %s (string s) { %s += strlen (s); return ({ %s, %s_s }); }" % (name, g, g, g)
            else:
                f["body"] = "int %s (string s, string t) { return strlen (s + t) + @K@; }" % name
                f["args"] = 2
            fns.append(f)
        if big:
            # bytecode beyond 32 KiB, then a string switch
            for b in range(14):
                name = self.ident()
                stmts = "\n".join("  x = (x * 3 + %d) & 65535; y = y ^ (x >> 2);" % (100000 + b * 1000 + q) for q in range(100))
                fns.append({"name": name, "public": True, "kind": "bulk", "args": 1,
                            "body": "int %s (string s) {\n  int x, y; x = strlen (s); y = 2;\n%s\n  return y;\n}" % (name, stmts)})
            name = self.ident()
            labels = ["late " + w for w in WORDS[:12]]
            cases = "".join('\n case "%s": return "%s-%d";' % (l, name, k) for k, l in enumerate(labels))
            fns.append({"name": name, "public": True, "kind": "sswitch", "args": 1, "labels": labels,
                        "body": 'string %s (string s) { switch (s) {%s } return "%s-none@K@"; }' % (name, cases, name)})
            p["labels"] += labels
        p["fns"] = fns

    # -- texts ------------------------------------------------------------
    def path(self, i):
        return "%s/%s.c" % (self.dir, self.progs[i]["file"])

    def obj(self, i):
        return "%s/%s" % (self.dir, self.progs[i]["file"])

    def inc_path(self, nm):
        d = self.incs.get(nm, {})
        if d.get("global") and not d.get("shadowed"):
            return "include/%s" % nm
        return "%s/%s" % (self.dir, nm)

    def local_path(self, nm):
        return "%s/%s" % (self.dir, nm)

    def inc_text(self, nm):
        d = self.incs[nm]
        t = ""
        if d["nested"]:
            t += '#include "%s"\n' % d["nested"]
        if d.get("pragma"):
            t += "#pragma save_binary\n"
        t += "#define K_%s %d\n" % (nm.replace(".", "_").upper(), d["k"])
        return t

    def inc_list(self, i):
        """include files as the compiler records them: in order of inclusion, nested ones after their parent"""
        out = []
        p = self.progs[i]
        if p.get("sb") == "inc-top":
            out.append(self.inc_path(p["sbinc"]))
        for nm in p["inc"]:
            if self.incs[nm].get("global") and not self.incs[nm].get("shadowed"):
                out.append("!" + self.local_path(nm))      # looked for next to the source first: noted as missing
            out.append(self.inc_path(nm))
            if self.incs[nm]["nested"]:
                out.append(self.inc_path(self.incs[nm]["nested"]))
        if p.get("sb") == "inc-end":
            out.append(self.inc_path(p["sbinc"]))
        return out

    def text(self, i):
        p = self.progs[i]
        sb, st = p.get("sb", "top" if p["save"] else "none"), p.get("st", "top" if p["types"] else "none")
        t = ""
        if sb in ("top", "toggle-on", "toggle-off"):
            t += "#pragma save_binary\n"
        if sb == "inc-top":
            t += '#include "%s"\n' % p["sbinc"]
        if st == "top":
            t += "#pragma save_types\n"
        for nm in p["inc"]:
            t += '#include "%s"\n' % nm
        for j in p["inh"]:
            t += 'inherit "/%s";\n' % self.obj(j)
        if p.get("empty") == "variable":
            t += "int lone%d_g = %d;\n" % (i, p["k"])
        elif p.get("empty") == "string":
            t += "string lone%d_s = \"lone %d\";\n" % (i, p["k"])
        for g in range(p.get("grow", 0)):
            # an edit that changes what heirs see: one more global variable and one more public function
            t += "int grown%d_g = %d;\nint grown%d_f (string s) { return %d + strlen (s); }\n" % (g, 7000 + g, g, 7100 + g)
        for f in p["fns"]:
            if "pre" in f:
                t += f["pre"].replace("@K@", str(p["k"])) + "\n"
        for n, f in enumerate(p["fns"]):
            t += f["body"].replace("@K@", str(p["k"])) + "\n"
            if sb == "mid" and n + 1 == p["sb_at"]:
                t += "#pragma save_binary\n"
            if sb == "toggle-on" and n + 1 == p["sb_at"]:
                t += "#pragma no_save_binary\n"
            if st == "mid" and n + 1 == p["st_at"]:
                t += "#pragma save_types\n"
        if st == "end":
            t += "#pragma save_types\n"
        if sb in ("end", "toggle-on"):
            t += "#pragma save_binary\n"
        if sb == "toggle-off":
            t += "#pragma no_save_binary\n"
        if sb == "inc-end":
            t += '#include "%s"\n' % p["sbinc"]
        return t

    def decl(self, i):
        p = self.progs[i]
        ssw = sum(1 for f in p["fns"] if f["kind"] == "sswitch")
        return "prog %s save=%d inc=%s inh=%s ssw=%d%s" % (self.path(i), 1 if p["save"] else 0, ",".join(self.inc_list(i)) or "-",
                                                           ",".join(self.path(j) for j in p["inh"]) or "-", ssw,
                                                           " refuse=1" if p.get("refuse") else "")

    def all_names(self):
        names = ["#global_init#"]
        for p in self.progs:
            for f in p["fns"]:
                names.append(f["name"])
                names += f.get("extra_names", [])
            names += p["labels"]
        return names

    def calls(self):
        """(call tokens, expectations): every label of every string switch is called (a sample of 12 for big tables);
        the value the source prescribes for it is the expectation"""
        rng = self.rng
        toks, expect = [], []
        for n, p in enumerate(self.progs):
            if self.shape == "siblings" and n == 1:
                continue
            for f in p["fns"]:
                if not f["public"] or len(toks) > 300:
                    continue
                if f["kind"] == "sswitch":
                    ls = f["labels"]
                    picks = list(range(len(ls))) if len(ls) <= 12 else sorted(set([0, len(ls) - 1] + rng.shuffle(list(range(len(ls))))[:10]))
                    for k in picks:
                        tok = "%s:%%%s" % (f["name"], hx(ls[k]))
                        toks.append(tok)
                        expect.append((tok, "%s-%d" % (f["name"], k)))
                    toks.append("%s:%%%s" % (f["name"], hx("no such label")))
                elif f["args"] == 2:
                    toks.append("%s:%s:%s" % (f["name"], rng.choice(WORDS), rng.choice(WORDS)))
                else:
                    toks.append("%s:%s" % (f["name"], rng.choice(WORDS)))
        return toks, expect


def sys_case(rng, cid, steps=None, nprog=None, big=False, script=None, mode=None, saves=None, sb_force=None, shape=None):
    fam = Fam(rng, cid, nprog=nprog, big=big, saves=saves, sb_force=sb_force, shape=shape)
    t = 1000
    L = ["clean /" + fam.dir]
    for nm in sorted(fam.incs):
        L.append("file /%s %s" % (fam.inc_path(nm), hx(fam.inc_text(nm))))
        L.append("mtime /%s %d" % (fam.inc_path(nm), t))
        t += 1
    for i in range(len(fam.progs)):
        for nm in fam.progs[i]["inc"]:
            if fam.incs[nm].get("global"):
                L.append("incsearch %s %s %s" % (fam.path(i), fam.local_path(nm), fam.inc_path(nm)))
    for i in reversed(range(len(fam.progs))):
        L.append("file /%s %s" % (fam.path(i), hx(fam.text(i))))
        L.append("mtime /%s %d" % (fam.path(i), t))
        L.append(fam.decl(i))
        t += 1
    L.append("mtime /simul_efun.c %d" % (t - 500))
    objs = [fam.obj(i) for i in range(len(fam.progs))]
    L.append("restart " + " ".join(objs))
    calls, expect = fam.calls()
    L.append("calls " + " ".join(calls))
    for tok, want in expect:
        L.append("expect %s %s" % (tok, want))
    # every reload of the case either in this process or each in a process of its own (a new driver as far as string
    # addresses and loaded programs go)
    mode = mode or rng.choice(["reload", "reloadp"])
    names = fam.all_names()

    reference = rng.chance(1, 2)

    def reload(first=False):
        nonlocal t
        t += 10
        L.append("now %d" % t)
        L.append("intern " + " ".join(hx(n) for n in rng.shuffle(names)))
        if reference and not first:
            # what the current sources compile to (a process of its own, binaries neither read nor written): the
            # program a binary load yields in the reload that follows is compared with THIS, not with an older compile
            L.append("reloadf " + " ".join(objs))
        L.append(mode + " " + " ".join(objs))
        t += 10

    reload(True)       # the first compile
    if mode == "reload" and rng.chance(1, 2):
        # the bytes of the binaries just written, read by the model's own decoder
        for o in objs:
            L.append("bindump " + o)
    if script is None:
        nsteps = rng.range(1, 5) if steps is None else steps
        script = []
        for _ in range(nsteps):
            script.append(rng.weighted([("nothing", 6), ("edit-src", 3), ("edit-inc", 3), ("touch-inh", 2), ("touch-src", 2),
                                        ("touch-inc", 1), ("simul-restart", 2), ("restart", 1), ("equal-inc", 1),
                                        ("simul-norestart", 1), ("edit-parent-inc", 2), ("damage", 2), ("foreign", 2), ("moved", 1), ("badload", 1),
                                        ("parent-noreload", 3), ("parent-drops-pragma", 3), ("parent-refused", 3), ("shadow-inc", 3),
                                        ("grandparent-reloaded", 2)]))
    for act in script:
        t += 1
        which = None
        if isinstance(act, tuple):
            act, which = act
        if act == "badload":
            # a file that does not compile is loaded first (same process: the compiler's error state is left behind)
            bad = "%s/bad%d" % (fam.dir, t)
            L.append("file /%s.c %s" % (bad, hx("int broken ( { return 1 }\n")))
            L.append("mtime /%s.c %d" % (bad, t))
            L.append("badload %s" % bad)
        if act == "edit-src":
            i = rng.below(len(fam.progs)) if which is None else which
            fam.progs[i]["k"] += 1
            L.append("file /%s %s" % (fam.path(i), hx(fam.text(i))))
            L.append("mtime /%s %d" % (fam.path(i), t))
        elif act in ("edit-inc", "touch-inc", "equal-inc") and fam.incs:
            nm = rng.choice(sorted(fam.incs))
            if act == "edit-inc":
                fam.incs[nm]["k"] += 1
                L.append("file /%s %s" % (fam.inc_path(nm), hx(fam.inc_text(nm))))
            if act == "equal-inc":
                # the modification time of the newest binary: not newer, the binary may still be used
                L.append("mtime /%s %d" % (fam.inc_path(nm), t - 11))
            else:
                L.append("mtime /%s %d" % (fam.inc_path(nm), t))
        elif act == "touch-inh" and len(fam.progs) > 1:
            i = rng.range(1, len(fam.progs) - 1)
            L.append("mtime /%s %d" % (fam.path(i), t))
        elif act == "touch-src":
            L.append("mtime /%s %d" % (fam.path(0), t))
        elif act == "simul-restart":
            L.append("mtime /simul_efun.c %d" % t)
            L.append("restart " + " ".join(objs))
        elif act == "simul-norestart":
            L.append("mtime /simul_efun.c %d" % t)
        elif act == "damage":
            # the saved binary of one program is truncated or gets a flipped bit (its mtime kept)
            saved = [i for i in range(len(fam.progs)) if fam.progs[i]["save"]]
            if saved:
                i = rng.choice(saved)
                if rng.chance(1, 2):
                    L.append("corrupt %s trunc %d" % (fam.path(i), rng.below(1000)))
                else:
                    L.append("corrupt %s flip %d %d" % (fam.path(i), rng.below(1000) if rng.chance(2, 3) else rng.below(60),
                                                         rng.choice([1, 2, 4, 8, 16, 32, 64, 128, 255])))
        elif act == "foreign":
            # a binary written by another driver build (magic / driver_id) or under another configuration
            saved = [i for i in range(len(fam.progs)) if fam.progs[i]["save"]]
            if saved:
                L.append("foreign %s %s" % (fam.path(rng.choice(saved)), rng.choice(["magic", "driver", "config"])))
        elif act == "moved":
            saved = [i for i in range(len(fam.progs)) if fam.progs[i]["save"]]
            if len(saved) >= 2:
                a, b = rng.shuffle(saved)[:2]
                L.append("copybin %s %s" % (fam.path(a), fam.path(b)))
        elif act == "edit-parent-inc":
            # a header that a parent includes and the top does not (if there is one)
            cand = [nm for i in range(1, len(fam.progs)) for nm in fam.progs[i]["inc"] if nm not in fam.progs[0]["inc"]]
            if cand:
                nm = rng.choice(cand)
                fam.incs[nm]["k"] += 1
                L.append("file /%s %s" % (fam.inc_path(nm), hx(fam.inc_text(nm))))
                L.append("mtime /%s %d" % (fam.inc_path(nm), t))
        elif act == "parent-noreload" and len(fam.progs) > 1:
            # a parent is edited so that its variables and functions shift, but stays loaded as it was; programs above
            # it are compiled again (against the old parent in memory) and saved; the following full reload compiles the
            # parent from its new source
            i = rng.range(1, len(fam.progs) - 1) if which is None else which
            fam.progs[i]["grow"] = fam.progs[i].get("grow", 0) + 1
            L.append("file /%s %s" % (fam.path(i), hx(fam.text(i))))
            L.append("mtime /%s %d" % (fam.path(i), t))
            if mode == "reload":
                # (in a case whose reloads each run in a process of their own nothing stays loaded: only the edit remains)
                keep = rng.range(1, i)
                t += 10
                L.append("now %d" % t)
                L.append("intern " + " ".join(hx(n) for n in rng.shuffle(names)))
                # the programs after `|` stay loaded as they are; they are dumped like the others
                L.append("reload " + " ".join(objs[:keep]) + " | " + " ".join(objs[keep:]))
                t += 10
        elif act == "parent-refused" and len(fam.progs) > 1:
            # from now on the master refuses to have a saved parent saved again (its binary on disk becomes a leftover), and
            # something only that parent was built from changes: one of its headers, or a program it inherits
            cand = [i for i in range(1, len(fam.progs)) if fam.progs[i]["save"]]
            if which is not None:
                cand = [i for i in cand if i == which]
            if cand:
                i = rng.choice(cand)
                fam.progs[i]["refuse"] = True
                L.append("file /c17/nosave/%s 00" % fam.path(i))
                L.append(fam.decl(i))
                above = set(nm for j in range(i) for nm in fam.progs[j]["inc"])
                heads = [nm for nm in fam.progs[i]["inc"] if nm not in above]
                below = [j for j in range(i + 1, len(fam.progs))]
                if heads and (not below or rng.chance(1, 2)):
                    nm = rng.choice(heads)
                    fam.incs[nm]["k"] += 1
                    L.append("file /%s %s" % (fam.inc_path(nm), hx(fam.inc_text(nm))))
                    L.append("mtime /%s %d" % (fam.inc_path(nm), t))
                elif below:
                    j = rng.choice(below)
                    fam.progs[j]["grow"] = fam.progs[j].get("grow", 0) + 1
                    L.append("file /%s %s" % (fam.path(j), hx(fam.text(j))))
                    L.append("mtime /%s %d" % (fam.path(j), t))
                else:
                    fam.progs[i]["k"] += 1
                    L.append("file /%s %s" % (fam.path(i), hx(fam.text(i))))
                    L.append("mtime /%s %d" % (fam.path(i), t))
        elif act == "sibling-rebuild" and fam.shape == "siblings" and mode == "reload":
            # p0 and p1 both inherit p2.  A header only p2 includes is edited; then only the sibling p1 is loaded again
            # (compiled and saved again: newer than the header) while p0's binary stays older than the header.  After a
            # restart both are loaded one after the other with p2 staying in memory: the driver is asked about the same
            # parent program twice, with two different binary times.  (p1 is never the top of the ordinary reloads.)
            own = [nm for nm in fam.progs[2]["inc"] if all(nm not in fam.progs[j]["inc"] for j in range(2))]
            if own:
                nm = rng.choice(own)
                fam.incs[nm]["k"] += 1
                L.append("file /%s %s" % (fam.inc_path(nm), hx(fam.inc_text(nm))))
                L.append("mtime /%s %d" % (fam.inc_path(nm), t))
                for fam_line in ("reload %s %s | %s" % (objs[1], objs[2], objs[0]), None,
                                 "reload %s %s" % (objs[1], objs[2]), "reload %s | %s" % (objs[0], objs[2])):
                    if fam_line is None:
                        L.append("restart " + " ".join(objs))
                        continue
                    t += 10
                    L.append("now %d" % t)
                    L.append("intern " + " ".join(hx(n) for n in rng.shuffle(names)))
                    # p1 is a top of its own: none of the case's calls are meant for it
                    L.append("calls nosuch_zz:x" if fam_line.startswith("reload " + objs[1] + " ") else "calls " + " ".join(calls))
                    L.append(fam_line)
                    t += 10
                L.append("calls " + " ".join(calls))
        elif act == "grandparent-reloaded" and mode == "reload" and len(fam.progs) >= 3 and 2 in fam.progs[1]["inh"] \
                and 1 in fam.progs[0]["inh"]:
            # p0 inherits p1 inherits p2.  p2 is edited (its variables and functions shift) and loaded again ALONE, so p1 in
            # memory is still linked with the old p2 block; then p0 is compiled again against that p1
            fam.progs[2]["grow"] = fam.progs[2].get("grow", 0) + 1
            L.append("file /%s %s" % (fam.path(2), hx(fam.text(2))))
            L.append("mtime /%s %d" % (fam.path(2), t))
            for top_calls, line in (("nosuch_zz:x", "reload %s | %s %s" % (objs[2], objs[0], objs[1])),
                                    (" ".join(calls), "reload %s | %s %s" % (objs[0], objs[1], objs[2]))):
                t += 10
                L.append("now %d" % t)
                L.append("intern " + " ".join(hx(n) for n in rng.shuffle(names)))
                L.append("calls " + top_calls)
                L.append(line)
                t += 10
            L.append("calls " + " ".join(calls))
        elif act == "shadow-inc":
            # a header found in the include directory gets a namesake next to the sources (older or newer than everything)
            cand = [nm for nm in sorted(fam.incs) if fam.incs[nm].get("global") and not fam.incs[nm].get("shadowed")]
            if cand:
                nm = rng.choice(cand)
                fam.incs[nm]["shadowed"] = True
                fam.incs[nm]["k"] += 1
                L.append("file /%s %s" % (fam.inc_path(nm), hx(fam.inc_text(nm))))
                L.append("mtime /%s %d" % (fam.inc_path(nm), rng.choice([t, 900, 950])))
                for i in range(len(fam.progs)):
                    if nm in fam.progs[i]["inc"]:
                        L.append(fam.decl(i))
        elif act == "parent-drops-pragma":
            # the header that carries a parent's `#pragma save_binary` is edited and loses it: the parent is compiled again
            # but not saved again, its binary on disk is a leftover older than what the parent in memory was built from
            cand = [i for i in range(1, len(fam.progs)) if fam.progs[i]["save"] and fam.progs[i].get("sb") in ("inc-top", "inc-end")]
            if which is not None:
                cand = [i for i in cand if i == which]
            if cand:
                i = rng.choice(cand)
                nm = fam.progs[i]["sbinc"]
                fam.incs[nm]["pragma"] = False
                fam.incs[nm]["k"] += 1
                fam.progs[i]["save"] = False
                L.append("file /%s %s" % (fam.inc_path(nm), hx(fam.inc_text(nm))))
                L.append("mtime /%s %d" % (fam.inc_path(nm), t))
                L.append(fam.decl(i))
        elif act == "restart":
            L.append("restart " + " ".join(objs))
        reload()
    L.append("mtime /simul_efun.c 500")
    return E.Case(cid, L, {"origin": "generated", "kind": "sys", "empty": any(p.get("empty") for p in fam.progs)})


def unit_case(rng, cid):
    L = []
    for _ in range(rng.range(3, 8)):
        k = rng.weighted([("usort", 6), ("ureloc", 1), ("upatch", 4), ("utimes", 1), ("uqsort", 4)])
        if k == "uqsort":
            L.append(gen_uqsort(rng))
        elif k == "usort":
            L.append(gen_usort(rng))
        elif k == "ureloc":
            L.append(gen_ureloc(rng))
        elif k == "upatch":
            L.append(gen_upatch(rng))
        else:
            L.append(gen_utimes(rng, cid))
    return E.Case(cid, L, {"origin": "generated", "kind": "unit"})


def boundary():
    B = []
    rng = E.Rng(1717)
    B.append(E.Case("b-usort-edges", [gen_usort(rng, 0), gen_usort(rng, 1), gen_usort(rng, 2),
                                      "usort k=30,10,20,5 h=-1 fl=4,4,4,4 of=0,1,2,3 fd=0 fo=0 nc=0 nd=0 ix=- ts=100,101,102,103",
                                      "usort k=30,10,20,5 h=1 fl=1,4,4,4,4 of=0,1,2,3 fd=1 fo=1 nc=1 nd=1 ix=- ts=-",
                                      "usort k=9,8,7,6,5,4,3,2,1 h=8 fl=4,5,4,4,4,4,4,4,4,4,4 of=2,8,7,6,5,4,3,2,1,0 fd=2 fo=0 nc=0 nd=1 ix=0,255 ts=1,2,3,4,5,6,7,8,9"]))
    B.append(E.Case("b-reloc", ["ureloc size=4096 f=200,300,400,500,600,700,800,900,0,1000,1100,1200,1300",
                                "ureloc size=4096 f=200,300,400,500,600,700,800,900,950,1000,1100,0,0",
                                "ureloc size=400 f=168,168,168,168,168,168,168,168,168,168,168,168,168"]))
    B.append(E.Case("b-patch", ["upatch pad=0 sp=4096,8192,100,6442450944,96 sw=0:10,1:11,2:12,3:13,-1:9;4:1,2:2",
                                "upatch pad=0 sp=4096,2147487744,4294971392 sw=2:1,1:2,0:3",
                                "upatch pad=33000 sp=4096,8192,100 sw=0:10,1:11,2:12",
                                "upatch pad=32767 sp=4096,8192,100 sw=2:10,1:11,0:12;-",
                                "upatch pad=0 sp=1 sw=-"]))
    B.append(E.Case("b-qsort", ["uqsort sz=4 m=1 v=- c=0", "uqsort sz=8 m=1 v=0 c=0", "uqsort sz=10 m=2 v=1,0 c=0-+0",
                                "uqsort sz=10 m=2 v=0,1 c=0-+0", "uqsort sz=8 m=3 v=2,0,1,0 c=0--+0-++0",
                                "uqsort sz=8 m=3 v=2,2,2,2,2 c=0--+0-++0", "uqsort sz=8 m=2 v=0,1,0,1,0,1 c=----",
                                "uqsort sz=8 m=2 v=0,1,0,1,0,1 c=++++", "uqsort sz=4 m=2 v=1,1,0,0,1 c=0+-0"] +
                    [gen_uqsort(rng, n, k) for n in (2, 3, 7, 64, 249) for k in ("order", "random")]))
    B.append(E.Case("b-times", ["utimes 100 99 /c17/w/bt/x", "utimes 100 100 /c17/w/bt/x", "utimes 100 101 /c17/w/bt/x",
                                "utimes 100 none /c17/w/bt/x"]))
    for k, script in enumerate([["nothing"], ["edit-inc"], ["touch-inh"], ["simul-restart"], ["equal-inc", "touch-inc"],
                                ["edit-src", "nothing", "restart"]]):
        B.append(sys_case(E.Rng(4000 + k), "b%d" % k, nprog=3, script=script))
        B[-1].id = "b-sys-" + "-".join(script)
    for k, script in enumerate([["edit-parent-inc"], ["edit-parent-inc", "nothing", "edit-parent-inc"],                                 ["simul-norestart", "nothing"]]):
        for seed in (5000, 5001, 5002):
            c = sys_case(E.Rng(seed + 10 * k), "p%d_%d" % (k, seed), nprog=3, script=script)
            c.id = "b-sys-%d-" % seed + "-".join(script)
            B.append(c)
    for k in range(6):
        c = sys_case(E.Rng(7000 + k), "d%d" % k, nprog=2, script=["damage", "nothing", "damage"], mode=["reloadp", "reload"][k % 2])
        c.id = "b-sys-damage-%d" % k
        B.append(c)
    for k, script in enumerate([["foreign"], ["foreign", "foreign"], ["moved"], ["moved", "nothing"]]):
        for seed in (7100, 7101, 7102):
            c = sys_case(E.Rng(seed + 10 * k), "f%d_%d" % (k, seed), nprog=3, script=script, mode=["reloadp", "reload"][seed % 2])
            c.id = "b-sys-%d-%d-" % (k, seed) + "-".join(script)
            B.append(c)
    # chains with unsaved parents: the leaf, the middle, or a header of them changes
    for k, (saves, script) in enumerate([([True, False, False], [("edit-src", 2)]), ([True, False, False], [("edit-src", 1)]),
                                         ([True, False, True], [("edit-src", 2)]), ([True, True, False], [("edit-src", 2)]),
                                         ([True, False, False], ["edit-parent-inc"]), ([True, False, False, False], [("edit-src", 3)])]):
        for seed in (7200, 7201):
            c = sys_case(E.Rng(seed + 10 * k), "u%d_%d" % (k, seed), nprog=len(saves), script=script, saves=saves,
                         mode=["reloadp", "reload"][seed % 2])
            c.id = "b-sys-unsaved-%d-%d" % (k, seed)
            B.append(c)
    # a parent edited (variables and functions shift) but not loaded again while its heirs are compiled and saved
    for k, (saves, script) in enumerate([([True, False], ["parent-noreload"]), ([True, True], ["parent-noreload", "nothing"]),
                                         ([True, False, False], [("parent-noreload", 2)]), ([True, True, False], [("parent-noreload", 2), "nothing"]),
                                         ([True, False, True], [("parent-noreload", 1), "restart"]),
                                         ([True, False], ["parent-noreload", "parent-noreload", "edit-src"])]):
        for seed in (7400, 7401):
            c = sys_case(E.Rng(seed + 10 * k), "n%d_%d" % (k, seed), nprog=len(saves), script=script, saves=saves,
                         mode=["reloadp", "reload"][seed % 2])
            c.id = "b-sys-parent-noreload-%d-%d" % (k, seed)
            B.append(c)
    # a parent whose binary on disk is a leftover: the header with its pragma is edited and drops it (parent compiled again,
    # not saved again); then nothing / further edits at other levels; chains of 2, 3 and 4 programs
    for k, (saves, force, script) in enumerate([
            ([True, True], {1: "inc-end"}, [("parent-drops-pragma", 1), "nothing"]),
            ([True, True], {1: "inc-top"}, [("parent-drops-pragma", 1), "edit-parent-inc", "nothing"]),
            ([True, True, True], {2: "inc-end"}, [("parent-drops-pragma", 2), "nothing"]),
            ([True, True, True], {1: "inc-end"}, [("parent-drops-pragma", 1), ("edit-src", 2), "nothing"]),
            ([True, False, True], {2: "inc-top"}, [("parent-drops-pragma", 2), "nothing", "restart"]),
            ([True, True, True, True], {2: "inc-end", 3: "inc-end"}, [("parent-drops-pragma", 3), ("parent-drops-pragma", 2), "nothing"])]):
        for seed in (7500, 7501):
            c = sys_case(E.Rng(seed + 10 * k), "l%d_%d" % (k, seed), nprog=len(saves), script=script, saves=saves, sb_force=force,
                         mode=["reloadp", "reload"][seed % 2])
            c.id = "b-sys-leftover-binary-%d-%d" % (k, seed)
            B.append(c)
    for k, (saves, script) in enumerate([([True, True], [("parent-refused", 1), "nothing"]),
                                         ([True, True, True], [("parent-refused", 1), "nothing"]),
                                         ([True, True, False], [("parent-refused", 1), "nothing", "restart"]),
                                         ([True, True, True], [("parent-refused", 2), "nothing"]),
                                         ([True, True, True, True], [("parent-refused", 2), ("parent-refused", 1), "nothing"]),
                                         ([True, True], [("parent-refused", 1), "edit-src", "nothing"])]):
        for seed in (7600, 7601, 7602):
            c = sys_case(E.Rng(seed + 10 * k), "r%d_%d" % (k, seed), nprog=len(saves), script=script, saves=saves,
                         mode=["reloadp", "reload"][seed % 2])
            c.id = "b-sys-refused-resave-%d-%d" % (k, seed)
            B.append(c)
    # two programs share a parent whose own header is edited; one of them is rebuilt before everything is loaded again
    for k, (saves, script) in enumerate([([True, True, False], ["sibling-rebuild", "nothing"]),
                                         ([True, True, False], ["sibling-rebuild", "sibling-rebuild", "nothing"]),
                                         ([True, True, True], ["sibling-rebuild", "nothing"])]):
        for seed in (7800, 7801, 7802, 7803):
            c = sys_case(E.Rng(seed + 10 * k), "sb%d_%d" % (k, seed), script=script, saves=saves, shape="siblings", mode="reload")
            c.id = "b-sys-siblings-%d-%d" % (k, seed)
            B.append(c)
    # a header in the include directory is shadowed by a new file next to the sources (seeds chosen so that the family has one)
    nsh = 0
    for seed in range(7700, 7760):
        c = sys_case(E.Rng(seed), "h%d" % seed, nprog=2 + seed % 2, script=["shadow-inc", "nothing", "edit-inc"],
                     mode=["reloadp", "reload"][seed % 2])
        if any(l.startswith("incsearch ") for l in c.lines) and nsh < 8:
            c.id = "b-sys-shadow-inc-%d" % seed
            B.append(c)
            nsh += 1
    # a grandparent is edited and loaded again alone; its child in memory stays linked with the old block
    ngp = 0
    for seed in range(8000, 8040):
        c = sys_case(E.Rng(seed), "gp%d" % seed, nprog=3, script=["grandparent-reloaded", "nothing"], saves=[True, seed % 2 == 0, False],
                     mode="reload")
        if any(l.startswith("calls nosuch_zz") for l in c.lines) and ngp < 6:
            c.id = "b-sys-grandparent-reloaded-%d" % seed
            B.append(c)
            ngp += 1
    # programs without functions (nothing at all / one variable / one string), as top, in the middle and as a parent
    nem = 0
    for seed in range(7900, 7990):
        c = sys_case(E.Rng(seed), "em%d" % seed, nprog=1 + seed % 3, script=["nothing", "edit-src", "nothing"],
                     mode=["reloadp", "reload"][seed % 2])
        if c.meta.get("empty") and nem < 10:
            c.id = "b-sys-empty-program-%d" % seed
            B.append(c)
            nem += 1
    for k in range(4):
        c = sys_case(E.Rng(7300 + k), "e%d" % k, nprog=2, script=["badload", "nothing"], mode="reload")
        c.id = "b-sys-badload-%d" % k
        B.append(c)
    # pragma positions (top / between functions / end / in an include / toggled), same process and new process
    for k in range(12):
        c = sys_case(E.Rng(6000 + k), "q%d" % k, nprog=2, script=["nothing", "nothing"], mode=["reloadp", "reload"][k % 2])
        c.id = "b-sys-pragma-%d" % k
        B.append(c)
    big = sys_case(E.Rng(77), "bbig", nprog=1, big=True, script=["nothing"])
    big.id = "b-sys-switch-beyond-32k"
    B.append(big)
    return B


def generate(rng, n, tier):
    out = []
    for i in range(n):
        if rng.chance(3, 10):
            if rng.chance(1, 8):
                # two programs sharing a parent, rebuilt one at a time
                out.append(sys_case(rng, "g%d" % i, shape="siblings", mode="reload",
                                    script=[rng.choice(["sibling-rebuild", "nothing", "edit-inc"]) for _ in range(rng.range(1, 3))] +
                                           ["sibling-rebuild", "nothing"]))
            else:
                out.append(sys_case(rng, "g%d" % i))
        else:
            out.append(unit_case(rng, "g%d" % i))
    return out


def histogram(cases, impl):
    h = {"unit_cases": 0, "sys_cases": 0, "reloads": 0, "binary_used": 0, "stale": 0, "needs_inherit": 0, "saves": 0,
         "permuted_reloads": 0, "damaged_binaries": 0, "switch_tables": 0, "programs_dumped": 0, "usort": 0, "upatch": 0, "call_results": 0}
    h["fresh_process_reloads"] = sum(1 for c in cases for l in c.lines if l.startswith("reloadp "))
    h["reference_compiles"] = sum(1 for c in cases for l in c.lines if l.startswith("reloadf "))
    h["string_case_expectations"] = sum(1 for c in cases for l in c.lines if l.startswith("expect "))
    pos = {}
    for c in cases:
        for l in c.lines:
            if l.startswith("file ") and l.split()[1].endswith(".c") and "/c17/w/" in l:
                t = bytes.fromhex(l.split()[2].replace("-", "")).decode(errors="replace").splitlines()
                idx = [i for i, x in enumerate(t) if x.strip() == "#pragma save_binary"]
                k = "none" if not idx else "top" if idx[-1] == 0 else "last" if idx[-1] >= len(t) - 2 else "between"
                if any("no_save_binary" in x for x in t):
                    k += "+toggle"
                pos[k] = pos.get(k, 0) + 1
    h["save_binary_pragma_position"] = pos
    for c in cases:
        lines = impl.get(c.id, [])
        if any(l.startswith("begin ") for l in lines):
            h["sys_cases"] += 1
        else:
            h["unit_cases"] += 1
        order, last, used = {}, {}, set()
        for l in lines:
            t = l.split()
            if not t:
                continue
            if t[0] == "begin":
                h["reloads"] += 1
                order, used = {}, set()
            elif t[0] == "end":
                for tag, names in order.items():
                    if tag + ".c" in used and tag in last and last[tag] != names and sorted(last[tag]) == sorted(names):
                        h["permuted_reloads"] += 1
                    last[tag] = names
            elif t[0] == "D" and t[2] == "cf":
                order.setdefault(t[1], []).append(t[4])
                continue
            elif t[0] == "lb":
                if t[2] == "use":
                    used.add(t[1])
                h["binary_used" if t[2] == "use" else "stale" if t[2] == "stale" else "needs_inherit"] += 1
            elif t[0] == "sv":
                h["saves"] += 1
            elif t[0] == "corrupted":
                h["damaged_binaries"] += 1
            elif t[0] == "D" and t[2] == "hdr":
                h["programs_dumped"] += 1
            elif t[0] == "D" and t[2] == "sw":
                h["switch_tables"] += 1
            elif t[0] == "R":
                h["call_results"] += 1
            elif t[0] == "binsum":
                h["binary_files_decoded"] = h.get("binary_files_decoded", 0) + 1
            elif t[0] == "qs":
                h["uqsort"] = h.get("uqsort", 0) + 1
            elif t[0] == "ft":
                h["usort"] += 1
            elif t[0] == "sw":
                h["upatch"] += 1
    return h
