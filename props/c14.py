"""C14 - output reaches the client in order, exactly once, under any write pattern.

Case language (one command per line; the same lines are parsed by harness/c14/c14.c and by the Lean driver):

  sendres <tok>,<tok>,...   append to the script of send() results; tok = n>=1 | W | I | P | E<errno>
  write <hex|->             add_message(user, bytes)          trace: wbeg m <hex|-> ... wend
  vwrite <hex|->            add_vmessage(user, "%s", bytes)   trace: wbeg v <hex|-> ... wend
  flush                     flush_message(ip) if the connection still exists
  cycle                     one call of get_user_command() (per-cycle flush of users with pending output)
  wready                    do_comm_polling + process_io (EVENT_WRITE only when write interest is registered)
  close                     remove_interactive(user, 0)
  peerclose                 peer closes its end; poll + process_io (EPOLLHUP -> EVENT_CLOSE)
  peerfin                   peer half-closes; poll + process_io (recv()==0 -> NET_DEAD -> remove_interactive)
  dump                      dump <hex|->  = ring contents from consumer, message_length bytes
  snoop <j> / unsnoop       new_set_snoop (this user, user j / 0)
  react <tok>,<tok>,...     scripted reactions of this user's receive_snoop (LPC), one per call: e echo the text to itself,
                            t<j> tell user j, d<j> destruct user j, x raise an error, n nothing.  After the first `react`
                            every write prints the state of every user.
  input <hex>               the peer of a PORT_TELNET user sends these bytes; one poll + process_io pass: get_user_data ->
                            copy_chars (telnet decoder) -> negotiation replies through add_message / flush_message, then the
                            user's write-ready event; other users: their write-ready events.  A plain pass for other kinds of
                            user, closed users and in cases that script reactions.
  (wbeg/wend come from the add_message hook of src/comm.c, `close` from the interposed close())

Trace lines:
  send <offered_len> a <acceptedhex>      |  send <offered_len> W|I|P|E<n> -
  close                                   the connection went away during the command
  st <want> <producer> <consumer> <length> <dead>   |  st closed      (after every command but sendres / dump)
"""
import os
import re

from nvlib import engine as E
from nvlib import extract as X
from nvlib.check import Prop
from props import c14_extract as T

N = 4096  # MESSAGE_BUF_SIZE: re-read from src/comm.h on every run (gen_extra); aims the generators and boundary cases


def hx(b):
    return b.hex() if b else "-"


def filler(n, salt=0):
    """n printable bytes without LF; long period so that reordering/duplication is visible"""
    return bytes(0x21 + ((i + salt) * 7 + (i + salt) // 94) % 94 for i in range(n))


def w(b):
    return "write " + hx(b)


def vw(b):
    return "vwrite " + hx(b)


class C14(Prop):
    id = "C14"
    title = "Output reaches the client in order, exactly once, under any write pattern"
    lean_modules = ["NV.C14.Props", "NV.C14.PropsHist", "NV.C14.PropsNeg", "NV.C14.PropsMulti", "NV.C14.PropsClose", "NV.C14.PropsFmt"]
    theorems = ["NV.C14.model_satisfies_spec", "NV.C14.ring_inv", "NV.C14.ring_indices_in_bounds",
                "NV.C14.chunk_in_bounds", "NV.C14.no_fault", "NV.C14.write_interest_when_pending",
                "NV.C14.N_two_le", "NV.C14.only_tail_lost", "NV.C14.write_stores_prefix_image",
                "NV.C14.sent_then_ring_is_stored", "NV.C14.delivered_is_ordered_prefix_image",
                "NV.C14.delivered_texts",
                # several users, snoop links, add_message re-entered from a snooper's receive_snoop
                "NV.C14.world_user_stream", "NV.C14.multi_user_stream_ok", "NV.C14.multi_model_satisfies_spec",
                "NV.C14.multi_delivered_is_stored",
                # pending bytes at close: what is promised
                "NV.C14.close_loses_only_unsent_suffix", "NV.C14.close_delivers_all_when_socket_accepts",
                "NV.C14.flushLoop_drains", "NV.C14.peerfin_sends_nothing",
                # formatting clause of the oracle (add_vmessage stores exactly the text it was asked to format)
                "NV.C14.model_formats_exactly",
                # bridges between the definitions regenerated from src/comm.c and the ring operations
                "NV.C14.chunkLen_eq", "NV.C14.producerNext_eq", "NV.C14.consumerNext_eq", "NV.C14.lengthAfterSend_eq",
                "NV.C14.thrFull_eq", "NV.C14.thrLF_eq", "NV.C14.keepsData_eq", "NV.C14.keepsData_pipe",
                "NV.C14.LF_CR_values"]
    consts = [("messageBufSize", "MESSAGE_BUF_SIZE"), ("eWouldBlock", "EWOULDBLOCK"), ("eIntr", "EINTR"),
              ("ePipe", "EPIPE"),
              # telnet decoder (copy_chars): protocol bytes and option numbers
              ("tnIAC", "IAC"), ("tnDO", "DO"), ("tnDONT", "DONT"), ("tnWILL", "WILL"), ("tnWONT", "WONT"), ("tnSB", "SB"),
              ("tnSE", "SE"), ("tnBREAK", "BREAK"), ("tnIP", "IP"), ("tnAYT", "AYT"), ("tnAO", "AO"),
              ("optSGA", "TELOPT_SGA"), ("optTM", "TELOPT_TM"), ("optTTYPE", "TELOPT_TTYPE"), ("optNAWS", "TELOPT_NAWS"),
              ("optLINEMODE", "TELOPT_LINEMODE"), ("lmMODE", "LM_MODE"), ("lmSLC", "LM_SLC"), ("modeACK", "MODE_ACK"),
              ("modeEDIT", "MODE_EDIT"), ("modeTRAPSIG", "MODE_TRAPSIG"), ("slcACK", "SLC_ACK"),
              ("slcNOSUPPORT", "SLC_NOSUPPORT"), ("slcLEVELBITS", "SLC_LEVELBITS"), ("slcDEFAULT", "SLC_DEFAULT"),
              ("slcVARIABLE", "SLC_VARIABLE"), ("slcCANTCHANGE", "SLC_CANTCHANGE"), ("nSLC", "NSLC"),
              ("sbSize", "SB_SIZE")]
    const_headers = ["src/comm.h"]
    const_prelude = "#include <errno.h>\n#include <arpa/telnet.h>"
    quick_n = 250
    thorough_n = 3000
    search_n = 800
    design_ref = "5/C14"
    technique = ("Lean 4 proof (ring invariant, delivered-stream refinement, induction over write / send-result "
                 "histories, world-level simulation for several users with re-entrant add_message) + translator-generated "
                 "constants, expressions and control-flow shape ties + model/implementation correspondence")
    level_text = ("Lean 4 theorems about an executable model of the per-user output ring of src/comm.c "
                  "(add_message, add_vmessage, flush_message, the flush points in get_user_command, process_io and "
                  "remove_interactive) for all message sequences and all scripts of send() results, and about a world of "
                  "several users (routing, driver passes over all users, snoop links, add_message re-entered from a "
                  "snooper's receive_snoop that writes, destructs users or raises an error, telnet negotiation replies "
                  "written by copy_chars while input bytes are decoded, interleaved with text): every user's stream of every "
                  "world run is proved to be a single-user run and to satisfy the specification oracle; at close only an unsent "
                  "suffix of the pending bytes is lost and nothing is lost when the socket accepts; the text add_vmessage stores is "
                  "the text it was asked to format (oracle clause judgeFmt, proved for the model, checked on every trace with "
                  "lengths swept around powers of two / ring size / local buffer sizes); the model is tied "
                  "to the source by regenerated constants / expressions / telnet reply strings / 33 statement-shape checks and by running the real "
                  "comm.c code (real setup_accepted_connection on socketpairs, real epoll runtime, real LPC user objects, "
                  "interposed send()/write()/close(), every add_message call observed through a guarded hook) and the model "
                  "on the same generated histories; the Lean specification oracle judges every implementation trace")
    level_note = ("trusted: Lean kernel; extract.py; the correspondence harness (differential, only the generated "
                  "histories); the socket is an oracle script of send() results; write interest is observed at the "
                  "epoll_ctl() boundary; the snooper's LPC behaviour is a script of reactions (echo / tell / destruct / "
                  "error / nothing), other LPC behaviour is not modelled; of the input path only the output calls of "
                  "copy_chars are mirrored (hand-copied control flow, regenerated constants; framing is C13's)")
    rule = ("cases = corpus + known-finding inputs + boundary list (messages of N-1/N/N+1/3N bytes, LF arriving at "
            "length N-2/N-1/N, partial sends ending at/before/after the wrap point, all-EWOULDBLOCK, EPIPE mid-write, "
            "EINTR, close/peer close/peer FIN with pending data) + seeded random histories of write/vwrite/sendres/"
            "flush/cycle/wready/close/peerfin/peerclose/input/vwrite2 with message lengths on both sides of the buffer size, "
            "LF densities 0..1 and send scripts of partial/W/I/P/E results, half of them started at a random ring "
            "offset, for three kinds of user (PORT_ASCII, PORT_TELNET with its connect negotiation, console user), one to "
            "three users per case with independent send scripts, snoop links (set, replaced, loop refused, cleared by "
            "close), scripted receive_snoop reactions of the snooper (echo to itself via receive(), tell_object to any "
            "user, destruct of any user incl. the one being written to and the snooper itself, error) in half of the "
            "multi-user cases, flush_messages() efun with and without argument, send results given as plain errno numbers; the "
            "quantifier of the property is covered as: writes of all lengths = 0,1,2,10,100,1000,N-2..N+2,2N,3N+7,random "
            "up to 12400 bytes; send results = full, partial of every size class (1..5, 6..600, around N, up to the ring "
            "end +-2, any), EWOULDBLOCK, EINTR, EPIPE, ECONNRESET; flush points = explicit, per cycle, write-ready, "
            "efun, close, peer close, peer FIN; a case is non-trivial when its trace has >= 2 lines; distinct = distinct canonical "
            "implementation trace")
    not_covered = ["console reconnect (console_mode option: the reconnect prompt is written after CLOSING is set and is "
                   "therefore never stored - seen by reading, not run) and the console worker thread; the console user's "
                   "output path itself (write(2) branch of flush_message, flush at the end of add_message) is modelled and run",
                   "telnet input: the control flow of copy_chars' output side is hand-copied (constants and reply strings are "
                   "regenerated, behaviour compared on every run); input is not fed in cases that script snooper reactions (a "
                   "snooper destructing the user inside copy_chars' add_message, or in get_user_data's input-side snoop "
                   "forwarding, is a use after free of the input code: read, not run - C09/C13); SINGLE_CHAR mode and the "
                   "terminal_type / window_size / telnet_suboption callbacks are left to C13",
                   "snooper LPC code other than the scripted reactions (echo / tell / destruct / error); a leak of the "
                   "formatted string when the snooper raises an error inside add_vmessage is not observed (leak detection off)",
                   "the lazy creation of users by the case driver happens between world runs; the several-user theorems "
                   "are stated for world runs (they compose: multi_user_stream_ok re-establishes its hypothesis)",
                   "MSG_OOB flag (telnet AO) of the first send after an abort-output request (the reply bytes are modelled, "
                   "the flag is not observed)",
                   "the flush attempt of remove_interactive is a model theorem (PropsClose) and compared, not an oracle clause: "
                   "the property allows loss at close, so a change that drops it yields no-failing-input-found",
                   "telnet IAC doubling is not done by the code and not claimed",
                   "builds with FLUSH_OUTPUT_IMMEDIATELY",
                   "Windows IOCP runtime (only the Linux epoll runtime is run)"]

    def _gen_extra(self, ctx, bdir):
        """chunk rule, index updates, ring-full tests, CR/LF bytes and the errno classification of flush_message,
        translated from the text of src/comm.c (props/c14_extract.py); TieBroken when a site cannot be located"""
        global N
        src = open(os.path.join(E.REPO, "src/comm.c"), errors="replace").read()
        try:
            n = X.probe_values(bdir, [("v", "MESSAGE_BUF_SIZE")], self.const_headers, self.const_prelude)["v"]
            if 64 <= n <= 1 << 20:
                N = n       # boundary cases and generators follow a changed buffer size
        except X.TieBroken:
            pass

        # fixed-size local buffers of the output functions (none in this tree: add_vmessage formats with vasprintf)
        self.buf_sizes = []
        for fn, name, expr in T.local_buffers(src):
            try:
                self.buf_sizes.append(X.probe_values(bdir, [("v", expr)], self.const_headers, self.const_prelude)["v"])
            except X.TieBroken:
                pass

        def errno_value(name):
            try:
                return X.probe_values(bdir, [("v", name)], self.const_headers, self.const_prelude)["v"]
            except X.TieBroken:
                raise X.TieBroken("guard:flush_message.errno", "errno name %s of flush_message is not a constant" % name)
        sites = T.shape_checks(lambda rel: open(os.path.join(E.REPO, rel), errors="replace").read())
        self.shape_sites = sites
        cfg = open(os.path.join(bdir, "config.h"), errors="replace").read()
        pk = re.search(r'#define PACKAGE "([^"]*)"', cfg)
        ve = re.search(r'#define VERSION "([^"]*)"', cfg)
        if not pk or not ve:
            raise X.TieBroken("guard:config.PACKAGE", "PACKAGE / VERSION not found in the generated config.h")
        return T.extract(src, errno_value, (pk.group(1), ve.group(1))) + "\n\n-- control-flow shapes checked against the source on this run (props/c14_extract.py SHAPES):\n-- " \
            + "\n-- ".join(sites)

    def gen_extra(self, ctx, bdir):
        """as _gen_extra; when a site has left the translatable shape (tie broken) the plain constants are STILL regenerated
        (with the last good translation of the expressions), so that the search that follows judges the changed tree with
        its own buffer size / errno values and not with stale ones"""
        try:
            return self._gen_extra(ctx, bdir)
        except X.TieBroken:
            path = os.path.join(E.LEAN, "NV/Gen/C14.lean")
            try:
                old = open(path).read()
                a = old.index("set_option linter.unusedVariables false")
                b = old.rindex("\nend NV.Gen.C14")
                X.gen_consts(self.id, bdir, self.consts, self.const_headers, self.const_prelude, old[a:b].rstrip("\n"))
            except (OSError, ValueError, X.TieBroken):
                pass
            raise

    def prepare(self, ctx):
        self.exe = E.compile_harness("c14", [os.path.join(E.VERIF, "harness/c14/c14.c")], exclude_objs=("comm.c.o",))
        self.conf = E.make_mudlib(ctx.rundir, master="/c14/master.c")

    def run_impl(self, ctx, cases):
        return E.run_harness(self.exe, self.conf, cases, ctx.rundir)

    def canon(self, lines):
        """every line is tagged u<k>; the property is per user, so the lines are grouped by user (stable): the order in
        which the driver visits the users during one pass (slot order / epoll order) is not part of the comparison"""
        # `err ...` = the master's error_handler line of an LPC error; the harness reports the error itself as `lpcerr`
        ls = [l for l in Prop.canon(self, lines) if not (l.startswith("logon") or l.startswith("net_dead") or l.startswith("err *"))]

        def key(l):
            ts = l.split(" ", 2)
            t = ts[0]
            # the texts a user receives as a snooper are logged by LPC code while ANOTHER user's event is processed; where
            # they fall between the snooper's own ring events of the same pass depends on the order epoll reports the
            # events: they form a sub-stream of their own (order among themselves kept; the oracle ignores them)
            return (int(t[1:]) if t[:1] == "u" and t[1:].isdigit() else 99, 1 if ts[1:2] == ["snoop"] else 0)
        return sorted(ls, key=key)

    # ---- boundary -----------------------------------------------------------
    def boundary(self):
        B = []
        END = ["flush", "dump"]

        def mk(name, lines):
            B.append(E.Case("b-" + name, lines + END, {"origin": "boundary"}))

        LF = b"\n"
        # message sizes around N, default accept-all socket
        for d in (-1, 0, 1):
            mk("len-N%+d" % d, [w(filler(N + d)), "dump"])
            mk("len-N%+d-W" % d, ["sendres W", w(filler(N + d)), "dump", "flush", "dump"])
            mk("vlen-N%+d" % d, [vw(filler(N + d))])
        # LF arriving when length is N-2 / N-1 / N
        for k in (N - 3, N - 2, N - 1, N):
            msg = filler(k) + LF + b"xyz" + LF
            mk("lf-at-%d" % k, [w(msg), "dump"])
            mk("lf-at-%d-W" % k, ["sendres W", w(msg), "dump", "sendres W", "wready", "dump"])
            mk("lf-at-%d-part1" % k, ["sendres 1,W,1,W", w(msg), "dump"])
            mk("vlf-at-%d-W" % k, ["sendres W,W", vw(msg), "dump"])
        mk("all-lf-N", [w(LF * N), "dump"])
        mk("all-lf-W", ["sendres W", w(LF * (N // 2 + 5)), "dump"])
        mk("all-lf-odd-offset", [w(b"a"), "flush", "sendres W", w(LF * (N // 2 + 5)), "dump"])
        mk("all-lf-odd-length", [w(b"a"), "sendres W", w(LF * (N // 2 + 5)), "dump"])
        # long message, partial sends of many sizes
        big = b"".join(filler(37, i) + LF for i in range(3 * N // 38 + 1))[:3 * N]
        mk("3N-partials", ["sendres 1,2,3,100,%d,1,W,%d,7,I,%d" % (N - 1, N + 904, N), w(big), "dump", "cycle", "wready"])
        mk("3N-partials-v", ["sendres 1,2,3,100,%d,1,W,%d,7,I,%d" % (N - 1, N + 904, N), vw(big), "dump", "cycle", "wready"])
        mk("3N-one-by-one", ["sendres " + ",".join(["1"] * 40) + ",W", w(big), "dump"])
        # ring filled, partial send ends exactly at / one before / one after the wrap point
        for r in (1, 7, N // 2, N - 1):
            for dk in (-1, 0, 1):
                k = N - r + dk
                if k < 1:
                    continue
                mk("wrap-r%d-k%+d" % (r, dk),
                   [w(filler(r)), "flush", w(filler(N, 5)), "dump", "sendres %d,W" % k, "flush", "dump",
                    w(b"tail" + LF), "dump"])
        mk("wrap-then-refill", [w(filler(100)), "flush", w(filler(N, 3)), "sendres %d,W" % (N - 100), "flush",
                                "sendres W", w(filler(N, 9)), "dump", "sendres 50,I,50,W", "cycle", "dump", "cycle", "dump"])
        # all-W: tail dropped
        mk("allW-5000", ["sendres W", w(filler(N + 904)), "dump", "sendres W", "flush", "wready", "dump"])
        mk("allW-lfpair", ["sendres W", w(filler(N - 1) + LF + filler(10)), "dump"])
        mk("allW-then-more", ["sendres W,W,W", w(filler(N + 904)), w(b"more" + LF), w(LF), "dump", "wready",
                              w(b"after" + LF), "dump"])
        # W then later drain
        mk("W-then-drain", [w(b"hello" + LF), "sendres W", "flush", "dump", "wready", "dump", "wready"])
        mk("W-cycle-drain", [w(b"hello" + LF), "sendres W,W", "cycle", "cycle", "cycle", "cycle"])
        # EPIPE in the middle of a long write
        mk("P-mid-write", ["sendres 100,P", w(big), "dump", w(b"later" + LF), vw(b"later2"), "cycle", "wready"])
        mk("P-mid-vwrite", ["sendres 100,P", vw(big), "dump", w(b"later" + LF), "close", w(b"x")])
        mk("P-on-flush", [w(b"abc" + LF), "sendres P", "flush", "dump", w(b"def"), "wready", "close"])
        mk("P-final-vflush", ["sendres P", vw(b"abc"), "dump"])
        mk("E104-on-flush", [w(b"abc" + LF), "sendres E104", "flush", "dump", w(b"def")])
        # EINTR
        mk("I-results", ["sendres I,I,5,I", w(b"0123456789" + LF), "flush", "flush", "flush", "flush", "dump"])
        mk("I-mid-write", ["sendres I", w(filler(N + 10)), "dump", "wready"])
        # vwrite
        mk("v-small", [vw(b"hi" + LF), vw(b"-"), vw(LF)])
        mk("v-W", ["sendres W", vw(b"hi" + LF), "dump", "sendres 2,W", vw(b"yo" + LF), "dump", "wready"])
        mk("v-after-m", [w(b"one" + LF), "sendres 3", vw(b"two" + LF), "dump"])
        # after close
        mk("write-after-close", [w(b"abc" + LF), "close", w(b"def" + LF), vw(b"ghi"), "cycle", "wready", "close"])
        mk("close-partial", [w(filler(200)), "sendres 10,W", "close"])
        mk("close-wrapped", [w(filler(3 * N // 4)), "flush", w(filler(3 * N // 4, 11)), "sendres 500,600", "close"])
        # peer events
        mk("peerfin-pending", [w(b"abc" + LF), "peerfin", w(b"x")])
        mk("peerfin-idle", ["peerfin"])
        mk("peerclose-pending-P", [w(b"abc" + LF), "sendres P", "peerclose", w(b"x")])
        mk("peerclose-pending", [w(b"abc" + LF), "peerclose"])
        mk("peerclose-pending-W", [w(b"abc" + LF), "sendres W", "peerclose"])
        mk("peerclose-idle", ["peerclose", "wready"])
        mk("peerclose-dead", [w(b"abc"), "sendres P", "flush", "peerclose"])
        # cycle / wready with and without pending data
        mk("cycle-idle", ["cycle", "wready"])
        mk("cycle-pending", [w(b"abc" + LF), "cycle", "cycle"])
        mk("wready-pending", [w(b"abc" + LF), "wready", "wready"])
        mk("wready-after-flush", [w(b"abc" + LF), "flush", "wready", "wready"])
        # empty message
        mk("empty", [w(b""), "wready", vw(b""), "cycle"])
        mk("bytes-hi-cr", [w(bytes([0xff, 0xfa, 0x0d, 0x0a, 0x0d, 0x80, 0x0a])), vw(bytes([0xff, 0x0d, 0x0a]))])
        # kinds of user: telnet negotiation at connect (partial / refused / failing sends), console write(2) path
        mk("telnet-connect", ["connect telnet", w(b"hi\n")])
        mk("telnet-connect-partial", ["sendres 5,W", "connect telnet", w(b"hi\n"), "wready"])
        mk("telnet-connect-epipe", ["sendres 3,P", "connect telnet", w(b"lost\n")])
        mk("telnet-connect-eintr", ["sendres I", "connect telnet", "cycle"])
        mk("console-basic", ["connect console", w(b"hello\n"), vw(b"v\n")])
        mk("console-partial", ["connect console", "sendres 1,W,2,I", w(b"hello\n"), "cycle", "wready", "wready"])
        mk("console-full-refused", ["connect console", "sendres W,W,W", w(filler(N + 100)), "wready"])
        mk("console-long", ["connect console", "sendres 1000,7,W", w(filler(3 * N, 5)), "wready"])
        mk("console-epipe", ["connect console", "sendres P", w(b"x\n"), w(b"y\n"), "close"])
        mk("console-close-pending", ["connect console", "sendres W", w(b"abc\n"), "sendres 2", "close", w(b"z")])
        mk("ascii-explicit", ["connect ascii", w(b"a\n")])
        # several users: independent rings and scripts, one pass of the driver serves all of them; snoop forwarding
        mk("two-users-independent", ["@1 sendres W", "@2 sendres 2,I", w(b"one\n"), "@2 " + w(b"two\n"), "cycle", "wready",
                                     "@2 dump"])
        mk("three-users-kinds", ["@1 connect telnet", "@2 connect console", "@3 connect ascii", "@3 sendres W",
                                 "@1 " + w(b"a\n"), "@2 " + w(b"b\n"), "@3 " + vw(b"c\n"), "flushall", "@2 dump", "@3 dump"])
        mk("snoop-basic", ["@2 snoop 1", w(b"seen\n"), vw(b"also\n"), "@2 unsnoop", w(b"unseen\n"), "@2 dump"])
        mk("snoop-broken-connection", ["@2 snoop 1", "sendres W,P", w(filler(N)), w(b"x"), w(b"y"), vw(b"z"), "@2 dump"])
        mk("snoop-tail-dropped", ["@2 snoop 1", "sendres W,W", w(filler(N + 50)), vw(filler(60)), "@2 dump"])
        mk("snoop-loop-refused", ["@2 snoop 1", "@1 snoop 2", w(b"a\n"), "@2 " + w(b"b\n"), "@3 snoop 2", "@1 snoop 3",
                                  "@2 " + w(b"c\n"), "@3 " + w(b"d\n"), "@2 dump", "@3 dump"])
        mk("snoop-replaced", ["@2 snoop 1", "@3 snoop 1", w(b"a\n"), "@3 snoop 2", w(b"b\n"), "@2 " + w(b"c\n"),
                              "@2 dump", "@3 dump"])
        mk("snooper-closes", ["@2 snoop 1", w(b"a\n"), "@2 close", w(b"b\n"), "@2 dump"])
        mk("snoopee-closes", ["@2 snoop 1", "close", w(b"b\n"), "@2 snoop 1", "@2 dump"])
        mk("snoop-high-bytes", ["@2 snoop 1", w(bytes([0xc3, 0xa9, 0xff, 0x80, 0x0a, 0xe2, 0x82])), "@2 dump"])
        mk("efun-flush", ["sendres W", w(b"p\n"), "eflush", "@2 sendres 1,W", "@2 " + w(b"q\n"), "flushall", "@2 eflush", "@2 dump"])
        mk("peerfin-serves-others", ["@2 sendres W", "@2 " + w(b"pending\n"), "@2 flush", "@1 peerfin", "@2 dump"])
        mk("peerclose-serves-others", ["@2 sendres W", "@2 " + w(b"pending\n"), "@2 flush", "sendres W", w(b"mine\n"),
                                       "sendres 2,P", "@1 peerclose", "@2 dump"])
        # add_vmessage formatting step: lengths around every power of two, the ring size, the longest printable string and
        # every fixed-size local buffer the translator finds in the output functions (vreq = text requested, wbeg = text formatted)
        sweep = set()
        for base in [1 << k for k in range(0, 14)] + [N, 2 * N, 8192] + list(getattr(self, "buf_sizes", [])):
            for d in (-1, 0, 1):
                if 0 <= base + d <= 4 * N:
                    sweep.add(base + d)
        for ln in sorted(sweep):
            mk("vfmt-%d" % ln, [vw(filler(ln, ln % 89))])
        for ln in sorted(x for x in sweep if 2 <= x <= 2 * N and (x & (x - 1)) == 0 or x in getattr(self, "buf_sizes", [])):
            mk("vfmt2-%d" % ln, ["vwrite2 %s %s" % (hx(filler(ln // 3, 5)), hx(filler(ln - ln // 3, 9))),
                                 "vwrite2 - %s" % hx(filler(ln - 1, 3) + LF)])
        # (A) short newline-free texts (prompts, telnet sequences) straddling the physical end of the ring
        for r in (N - 1, N - 2, N - 5, N - 30):
            for ln in (2, 6, 40):
                mk("straddle-r%d-l%d" % (r, ln), [w(filler(r)), "flush", w(filler(ln, 17)), "dump", "flush", vw(filler(ln, 23)), "dump"])
                mk("straddle-pending-r%d-l%d" % (r, ln), ["sendres W", w(filler(r)), "sendres %d,W" % (r - 7), "flush",
                                                          w(filler(ln, 29)), w(filler(ln, 31) + LF), "dump"])
        mk("straddle-telnet-prompt", ["connect telnet", w(filler(N - 14)), "flush", w(b"HP:100 SP:42> "), "dump", "flush",
                                      w(b"Name: "), vw(b"Password: "), "dump"])
        # telnet negotiation replies produced by input processing (copy_chars), interleaved with text output
        IAC, DO, DONT, WILL, WONT, SB, SE = 255, 253, 254, 251, 252, 250, 240

        def inp(*bs):
            return "input " + hx(bytes(bs))
        mk("telnet-input-do", ["connect telnet", inp(IAC, DO, 3), inp(IAC, DO, 6), inp(IAC, DO, 1), w(b"hi\n")])
        mk("telnet-input-commands", ["connect telnet", inp(IAC, 243, IAC, 244, IAC, 246, IAC, 245, IAC, 241), w(b"hi\n")])
        mk("telnet-input-will", ["connect telnet", w(b"text\n"), "sendres W", inp(IAC, WILL, 24, IAC, WILL, 34, IAC, WILL, 3,
                                                                                IAC, WILL, 31, IAC, DONT, 3, IAC, WONT, 34), "wready"])
        mk("telnet-input-crlf", ["connect telnet", inp(97, 13, 10, 98, 13, 0, 13, 99, 13, 13, 10, 10), "cycle"])
        mk("telnet-input-split", ["connect telnet", inp(IAC), inp(DO), inp(3), inp(13), inp(10), inp(IAC, SB, 34), inp(1, 0, IAC),
                                  inp(SE)])
        mk("telnet-input-lm-mode", ["connect telnet", inp(IAC, SB, 34, 1, 0, IAC, SE), inp(IAC, SB, 34, 1, 4, IAC, SE),
                                    inp(IAC, WILL, 34), inp(IAC, SB, 34, 1, 1, IAC, SE)])
        mk("telnet-input-lm-mode-global", ["connect telnet", "@2 connect telnet", "@2 " + inp(IAC, WILL, 34),
                                           inp(IAC, SB, 34, 1, 0, IAC, SE), "@2 dump"])
        mk("telnet-input-slc", ["connect telnet", inp(IAC, SB, 34, 3, 1, 2, 3, 4, 5, 6, 7, 8, 9, 16, 17, 18, IAC, SE),
                                inp(IAC, SB, 34, 3, 0, 0, 0, IAC, SE),
                                inp(IAC, SB, 34, 3, 5, 2, 65, 6, 1, 3, 7, 3, 32, 8, 128, 9, 200, 1, 0, 19, 2, 1, 1, 2, 127, IAC, SE),
                                inp(IAC, SB, 34, 3, IAC, IAC, 2, 1, IAC, SE), inp(IAC, SB, 34, 3, IAC, SE)])
        mk("telnet-input-sb-other", ["connect telnet", inp(IAC, SB, 24, 0, 118, 116, IAC, SE), inp(IAC, SB, 31, 0, 80, 0, 24, IAC, SE),
                                     inp(IAC, SB, 99, 1, IAC, SE), inp(IAC, SB, 34, 9, IAC, SE), inp(IAC, SB, IAC, 1, SE)])
        mk("telnet-input-sb-overlong", ["connect telnet", "input " + hx(bytes([IAC, SB, 34, 3] + [1, 2, 3] * 40 + [IAC, SE]))])
        mk("telnet-input-ring-full", ["connect telnet", "sendres W,W,W,W", w(filler(N - 14)), inp(IAC, DO, 3, IAC, DO, 6),
                                      inp(IAC, 246), "sendres 5,W", inp(IAC, WILL, 24), "dump"])
        mk("telnet-input-straddle", ["connect telnet", w(filler(N - 14)), "flush", inp(IAC, DO, 3), inp(IAC, WILL, 34),
                                     inp(IAC, 246), "dump"])
        mk("telnet-input-dead", ["connect telnet", "sendres P", inp(IAC, DO, 3, IAC, DO, 6), inp(IAC, 246), "cycle"])
        mk("telnet-input-snooped", ["connect telnet", "@2 snoop 1", inp(104, 105, IAC, DO, 3, 13, 10), inp(0, 65), "@2 dump"])
        mk("telnet-input-other-users-pass", ["connect telnet", "@2 sendres W", "@2 " + w(b"pending\n"), "@2 flush",
                                             inp(IAC, DO, 3), "@2 dump"])
        mk("telnet-input-ineligible", ["connect ascii", inp(IAC, DO, 3), "@2 connect console", "@2 " + inp(IAC, DO, 3),
                                       "@3 connect telnet", "@3 close", "@3 " + inp(IAC, DO, 3)])
        # re-entrancy: the snooper's receive_snoop (LPC) writes, destructs, raises an error while add_message is running
        mk("react-echo", ["@2 snoop 1", "@2 react e,e", w(b"seen\n"), vw(b"also\n"), w(b"plain\n"), "@2 dump"])
        mk("react-error-keeps-write-interest", ["@2 snoop 1", "@2 react x", w(b"hi\n"), "cycle"])
        mk("react-error-vwrite", ["@2 snoop 1", "@2 react x,x", "sendres W", vw(b"hi\n"), w(b"ho\n"), "wready"])
        mk("react-destructs-writer-target", ["@2 snoop 1", "@2 react d1", w(b"hi\n"), w(b"gone\n"), "@2 dump"])
        mk("react-destructs-target-pending-W", ["@2 snoop 1", "@2 react d1", "sendres W", w(b"hi\n"), "@2 dump"])
        mk("react-destructs-target-vwrite", ["@2 snoop 1", "@2 react d1", vw(b"hi\n"), w(b"x")])
        mk("react-destructs-console-target", ["@1 connect console", "@2 snoop 1", "@2 react d1", w(b"hi\n"), w(b"x")])
        mk("react-destructs-itself", ["@2 snoop 1", "@2 react d2", w(b"hi\n"), w(b"again\n"), "@2 " + w(b"x")])
        mk("react-tells-target", ["@2 snoop 1", "@2 react t1,t1", "sendres W", w(filler(N - 4)), w(b"z"), "dump"])
        mk("react-chain", ["@2 snoop 1", "@3 snoop 2", "@2 react e,t1,d2", "@3 react t2,x,e", "sendres W", w(b"hi\n"),
                           vw(b"AB\n"), w(b"C"), "@3 dump", w(b"D"), "@2 dump"])
        mk("react-echo-full-ring", ["@2 snoop 1", "@2 react e,e,e", "@2 sendres W,5,W", w(filler(1990) + LF),
                                    w(filler(1990, 3) + LF), w(filler(1990, 7) + LF), "@2 dump"])
        mk("react-echo-console-snooper", ["@2 connect console", "@2 snoop 1", "@2 react e,e", "@2 sendres 3,W", w(b"hello\n"),
                                          vw(b"v\n"), "wready"])
        mk("react-destructed-object-commands", ["@2 snoop 1", "@2 react d2", w(b"x\n"), "@2 eflush", "@2 flushall", "@2 react e",
                                                "@2 snoop 1", w(b"y\n"), "@2 " + w(b"z")])
        mk("react-tell-dead", ["@2 snoop 1", "@3 sendres P", "@3 " + w(b"x"), "@3 flush", "@2 react t3,d3,t3", w(b"a"), w(b"b"), w(b"c")])
        return B

    # ---- random ---------------------------------------------------------------
    def gen_len(self, rng):
        k = rng.weighted([("fix", 30), ("nearN", 8), ("2N", 2), ("3N", 1), ("small", 12), ("mid", 6), ("big", 3)])
        if k == "fix":
            return rng.weighted([(0, 2), (1, 4), (2, 4), (10, 6), (100, 6), (1000, 5)])
        if k == "nearN":
            return rng.range(N - 2, N + 2)
        if k == "2N":
            return 2 * N + rng.range(-1, 1)
        if k == "3N":
            return 3 * N + 7
        if k == "small":
            return rng.range(1, 40)
        if k == "mid":
            return rng.range(40, 1500)
        return rng.range(1500, 2 * N + 100)

    def gen_msg(self, rng, n):
        dens = rng.weighted([((0, 1), 4), ((1, 50), 5), ((1, 8), 4), ((1, 2), 3), ((1, 1), 1)])
        hi = rng.chance(1, 8)
        cr = rng.chance(1, 8)
        out = bytearray()
        for _ in range(n):
            if dens[0] and rng.chance(dens[0], dens[1]):
                out.append(0x0a)
            elif hi and rng.chance(1, 10):
                out.append(rng.range(0x80, 0xff))
            elif cr and rng.chance(1, 10):
                out.append(0x0d)
            else:
                out.append(rng.range(0x20, 0x7e))
        return bytes(out)

    def gen_tok(self, rng, offset):
        k = rng.weighted([("small", 10), ("med", 6), ("nearN", 4), ("toend", 4), ("any", 3), ("W", 9), ("I", 4),
                          ("P", 1), ("E", 1)])
        if k == "small":
            return str(rng.range(1, 5))
        if k == "med":
            return str(rng.range(6, 600))
        if k == "nearN":
            return str(rng.range(N - 2, N + 2))
        if k == "toend":
            return str(max(1, N - offset + rng.range(-2, 2)))
        if k == "any":
            return str(rng.range(1, N))
        if k == "E":
            return rng.weighted([("E104", 6), ("P", 1), ("E11", 2), ("E4", 1)])      # E11/E4: EWOULDBLOCK/EINTR as plain numbers
        return k

    def gen_telnet_input(self, rng):
        """bytes a telnet client sends: negotiation, commands, sub-negotiations (LINEMODE mode / SLC triplets), line ends"""
        IAC, DO, DONT, WILL, WONT, SB, SE = 255, 253, 254, 251, 252, 250, 240
        out = bytearray()
        for _ in range(rng.range(1, 5)):
            k = rng.weighted([("neg", 10), ("cmd", 6), ("crlf", 4), ("plain", 3), ("lm", 3), ("slc", 3), ("sb", 2), ("raw", 1)])
            if k == "neg":
                out += bytes([IAC, rng.choice([DO, DONT, WILL, WONT]), rng.choice([3, 6, 24, 31, 34, 1, 0, rng.range(0, 255)])])
            elif k == "cmd":
                out += bytes([IAC, rng.choice([243, 244, 245, 246, 241, 249, IAC, rng.range(236, 255)])])
            elif k == "crlf":
                out += rng.choice([b"\r\n", b"\r\0", b"\r", b"\n", b"\r\r\n", b"x\r\n"])
            elif k == "plain":
                out += bytes(rng.range(0x20, 0x7e) for _ in range(rng.range(1, 6)))
            elif k == "lm":
                out += bytes([IAC, SB, 34, 1, rng.choice([0, 1, 3, 4, 5, rng.range(0, 255)]), IAC, SE])
            elif k == "slc":
                trip = []
                for _ in range(rng.range(0, 8)):
                    trip += [rng.choice([0, 1, 5, 18, 19, 30, 127, 128, 200, rng.range(0, 255)]),
                             rng.choice([0, 1, 2, 3, 0x80, 0x81, 0x82, 0x83, 0x42, rng.range(0, 255)]),
                             rng.choice([0, 3, 8, 31, 32, 65, 127, 128, IAC, rng.range(0, 255)])]
                body = bytearray()
                for b in trip:
                    body += bytes([IAC, IAC]) if b == IAC else bytes([b])
                out += bytes([IAC, SB, 34, 3]) + bytes(body) + (bytes([IAC, SE]) if rng.chance(5, 6) else b"")
            elif k == "sb":
                out += bytes([IAC, SB, rng.choice([24, 31, 34, 99])]) + bytes(rng.range(0, 254) for _ in range(rng.range(0, 6))) \
                    + bytes([IAC, SE])
            else:
                out += bytes(rng.range(0, 255) for _ in range(rng.range(1, 8)))
        return bytes(out)

    def gen_react(self, rng, nusers):
        toks = []
        for _ in range(rng.range(1, 4)):
            t = rng.weighted([("e", 8), ("t", 5), ("d", 2), ("x", 2), ("n", 1)])
            toks.append(t + str(rng.range(1, nusers)) if t in ("t", "d") else t)
        return ",".join(toks)

    def gen_case(self, rng, cid):
        body = []
        offset = 0
        nusers = rng.weighted([(1, 6), (2, 3), (3, 2)])
        kinds = {}
        have_console = False
        for u in range(1, nusers + 1):
            kind = rng.weighted([("ascii", 5), ("telnet", 3), ("console", 0 if have_console else 3), (None, 2)])
            have_console = have_console or kind == "console"
            kinds[u] = kind
            if kind:
                if rng.chance(1, 3):
                    body.append("@%d sendres " % u + ",".join(self.gen_tok(rng, 0) for _ in range(rng.range(1, 3))))
                body.append("@%d connect %s" % (u, kind))
        if rng.chance(1, 2):
            # a third of the offsets sit just before the physical end: the next short texts straddle it
            offset = rng.range(N - 60, N - 1) if rng.chance(1, 3) else rng.range(1, N - 1)
            body += [w(filler(offset, rng.below(1000))), "flush"]
        closed = {}
        # a third of the multi-user cases script receive_snoop reactions (re-entrant add_message)
        reactive = nusers > 1 and rng.chance(1, 2)
        if reactive:
            a, b = rng.range(1, nusers), rng.range(1, nusers)
            body.append("@%d snoop %d" % (a, b))
            body.append("@%d react %s" % (a, self.gen_react(rng, nusers)))
        for _ in range(rng.range(3, 25)):
            if closed and len(closed) == nusers and len(body) - max(closed.values()) > 3:
                break           # after every connection went away only a few more ops are interesting
            u = rng.range(1, nusers)
            at = "" if (u == 1 and rng.chance(1, 2)) else "@%d " % u
            k = rng.weighted([("write", 10), ("vwrite", 3), ("sendres", 8), ("flush", 3), ("eflush", 1), ("cycle", 3),
                              ("wready", 4), ("flushall", 1), ("close", 1), ("peerfin", 1), ("peerclose", 1), ("dump", 1),
                              ("snoop", 3 if nusers > 1 else 0), ("unsnoop", 1 if nusers > 1 else 0),
                              ("react", 2 if nusers > 1 and reactive else 0),
                              ("input", 6 if kinds[u] == "telnet" and not reactive else 0)])
            if kinds[u] == "console" and k in ("peerfin", "peerclose"):
                k = "close"     # the console has no peer socket
            if k in ("write", "vwrite"):
                ln = self.gen_len(rng)
                if k == "vwrite" and rng.chance(1, 3):
                    # formatted lengths at a power of two (or a local buffer size of the output code) +-1
                    ln = max(0, rng.choice([1 << rng.range(4, 13)] + list(getattr(self, "buf_sizes", []))) + rng.range(-1, 1))
                if nusers > 1 and ln > N:
                    ln = rng.choice([ln, rng.range(0, 200)])      # keep multi-user cases small enough for the quick tier
                msg = self.gen_msg(rng, ln)
                if k == "vwrite" and ln >= 2 and rng.chance(1, 4):
                    cut = rng.range(0, ln)
                    body.append("%svwrite2 %s %s" % (at, hx(msg[:cut]), hx(msg[cut:])))
                else:
                    body.append("%s%s %s" % (at, k, hx(msg)))
            elif k == "sendres":
                body.append(at + "sendres " + ",".join(self.gen_tok(rng, offset if u == 1 else 0) for _ in range(rng.range(1, 6))))
            elif k in ("close", "peerfin", "peerclose"):
                # closing makes the rest of that user's case trivial: at most once per user, and not in every case
                if u not in closed and rng.chance(1, 3):
                    body.append(at + k)
                    closed[u] = len(body)
            elif k == "snoop":
                body.append("%ssnoop %d" % (at, rng.range(1, nusers)))
            elif k == "react":
                body.append("%sreact %s" % (at, self.gen_react(rng, nusers)))
            elif k == "input":
                if u in closed:
                    continue
                bs = self.gen_telnet_input(rng)
                if rng.chance(1, 3) and len(bs) > 1:       # a sequence split over two reads
                    cut = rng.range(1, len(bs) - 1)
                    body.append("%sinput %s" % (at, hx(bs[:cut])))
                    bs = bs[cut:]
                body.append("%sinput %s" % (at, hx(bs)))
            elif k in ("cycle", "wready", "flushall"):
                body.append(k)
            else:
                body.append(at + k)
        body += ["flushall"] + ["@%d dump" % u for u in range(1, nusers + 1)]
        return E.Case(cid, body, {"origin": "generated"})

    def generate(self, rng, n, tier):
        # E.Rng streams of neighbouring seeds are the same sequence shifted by one draw: jump to a far offset
        rng = E.Rng((rng.next() ^ (rng.next() << 17)) & 0xFFFFFFFFFFFF)
        return [self.gen_case(rng, "g%d" % i) for i in range(n)]

    # ---- coverage ---------------------------------------------------------------
    def histogram(self, cases, impl):
        h = {"send_accept_full": 0, "send_accept_partial": 0, "send_W": 0, "send_I": 0, "send_P": 0, "send_Eother": 0,
             "send_offered_lt_pending": 0, "writes": 0, "vwrites": 0, "max_msg_len": 0, "cases_ring_full": 0,
             "cases_wrapped": 0, "closes": 0, "cases_dead": 0, "want_set": 0,
             # branches of the model (seen from the trace)
             "inloop_flush_sends": 0, "inloop_refused_giveup": 0, "inloop_refused_after_progress": 0, "inloop_dead": 0,
             "vwrite_trailing_flush_sends": 0, "writes_on_dead_or_closed": 0,
             "lf_guard_chunk_N_minus_1": 0, "snoop_forwards": 0, "users_ascii_or_default": 0, "users_telnet": 0,
             "users_console": 0, "cases_multi_user": 0, "peerfin": 0, "peerclose": 0, "eflush_or_flushall": 0,
             "sendres_E_keep": 0, "cases_reactive": 0, "nested_writes": 0, "lpcerr": 0, "react_errors": 0, "react_destructs": 0,
             "input_cmds": 0, "input_driven_writes": 0, "writes_straddling_ring_end": 0}
        for c in cases:
            users = set()
            for l in c.lines:
                t = l.split()
                if t and t[0].startswith("@"):
                    users.add(t[0])
                    t = t[1:]
                if t[:1] == ["connect"]:
                    h["users_" + ("telnet" if t[1] == "telnet" else "console" if t[1] == "console" else "ascii_or_default")] += 1
                elif t[:1] == ["input"]:
                    h["input_cmds"] += 1
                elif t[:1] == ["peerfin"]:
                    h["peerfin"] += 1
                elif t[:1] == ["peerclose"]:
                    h["peerclose"] += 1
                elif t[:1] in (["eflush"], ["flushall"]):
                    h["eflush_or_flushall"] += 1
                elif t[:1] == ["sendres"] and len(t) > 1:
                    h["sendres_E_keep"] += sum(1 for x in t[1].split(",") if x in ("E11", "E4"))
            if len(users - {"@1"}) > 0:
                h["cases_multi_user"] += 1
            if any(" react " in " " + l + " " for l in c.lines):
                h["cases_reactive"] += 1
                nw = sum(1 for l in c.lines if " write " in " " + l or " vwrite " in " " + l or l.startswith(("write ", "vwrite ")))
                tr = impl.get(c.id, [])
                h["nested_writes"] += max(0, sum(1 for l in tr if " wbeg " in l) - nw)
                h["lpcerr"] += sum(1 for l in tr if l.endswith(" lpcerr"))      # none since receive_snoop runs under safe_apply
                h["react_errors"] += sum(l.split()[-1].split(",").count("x") for l in c.lines if "react" in l.split()[:2])
                h["react_destructs"] += sum(1 for l in c.lines if " react " in " " + l and re.search(r"[ ,]d\d", l) is not None)
            inw = {}        # per user: None / [kind, sends so far, last was accept, gone at start]
            gone = {}
            for l in impl.get(c.id, []):
                t = l.split()
                if len(t) < 2 or not t[0].startswith("u"):
                    continue
                u, t = t[0], t[1:]
                if t[0] == "wbeg":
                    inw[u] = [t[1], 0, False]
                    if gone.get(u):
                        h["writes_on_dead_or_closed"] += 1
                elif t[0] == "wend":
                    inw[u] = None
                elif t[0] == "snoop":
                    h["snoop_forwards"] += 1
                elif t[0] == "close" or (t[0] == "st" and (t[1] == "closed" or t[-1] == "1")):
                    gone[u] = True
                elif t[0] == "send" and inw.get(u):
                    w_ = inw[u]
                    w_[1] += 1
                    if t[1] == str(N - 1):
                        h["lf_guard_chunk_N_minus_1"] += 1
                    if t[2] == "a":
                        h["inloop_flush_sends"] += 1
                        w_[2] = True
                    elif t[2] in ("W", "I", "E11", "E4"):
                        h["inloop_refused_after_progress" if w_[2] else "inloop_refused_giveup"] += 1
                        w_[2] = False
                    else:
                        h["inloop_dead"] += 1
                        gone[u] = True
                    if w_[0] == "v":
                        h["vwrite_trailing_flush_sends"] += 1
            full = wrapped = dead = False
            pending = 0
            wrote = False
            last_prod = {}
            if any(l.split()[-2:-1] == ["input"] or l.startswith("input ") for l in c.lines):
                nw = sum(1 for l in c.lines if l.split()[:1] in (["write"], ["vwrite"]) or l.split()[1:2] in (["write"], ["vwrite"]))
                h["input_driven_writes"] += max(0, sum(1 for l in impl.get(c.id, []) if " wbeg " in l) - nw)
            for l in impl.get(c.id, []):
                t = l.split()
                utag = t[0] if t else ""
                if t and t[0][:1] == "u" and t[0][1:].isdigit():
                    t = t[1:]
                if not t:
                    continue
                if t[0] == "send" and len(t) >= 4:
                    offered = int(t[1])
                    if pending is not None and offered < pending:
                        h["send_offered_lt_pending"] += 1
                    if t[2] == "a":
                        acc = len(t[3]) // 2 if t[3] != "-" else 0
                        h["send_accept_full" if acc == offered else "send_accept_partial"] += 1
                        if pending is not None:
                            pending = max(0, pending - acc)
                    elif t[2] in ("W", "I", "P"):
                        h["send_" + t[2]] += 1
                    else:
                        h["send_Eother"] += 1
                elif t[0] == "wbeg" and len(t) >= 3:
                    h["writes" if t[1] == "m" else "vwrites"] += 1
                    ln = 0 if t[2] == "-" else len(t[2]) // 2
                    h["max_msg_len"] = max(h["max_msg_len"], ln)
                    pending = None  # unknown until the next st line
                    wrote = True
                elif t[0] == "close":
                    h["closes"] += 1
                elif t[0] == "st" and len(t) == 6:
                    if wrote and last_prod.get(utag) is not None and int(t[2]) < last_prod[utag]:
                        h["writes_straddling_ring_end"] += 1
                    last_prod[utag] = int(t[2])
                    wrote = False
                    pending = int(t[4])
                    if t[1] == "1":
                        h["want_set"] += 1
                    if int(t[4]) == N:
                        full = True
                    if int(t[4]) > 0 and int(t[2]) <= int(t[3]):
                        wrapped = True
                    if t[5] == "1":
                        dead = True
            h["cases_ring_full"] += full
            h["cases_wrapped"] += wrapped
            h["cases_dead"] += dead
        return h


PROP = C14()
