"""C17 - a program loaded from a saved binary equals what its source compiles to."""
import os
import re

from nvlib import engine as E
from nvlib import extract as X
from nvlib.check import Prop

from props import gen_c17 as G


class C17(Prop):
    id = "C17"
    title = "A program loaded from a saved binary equals what its source compiles to"
    lean_modules = ["NV.C17.Props", "NV.C17.BinFileLemmas", "NV.C17.Top", "NV.C17.Witness", "NV.C17.SpecTests"]
    theorems = [
        "NV.C17.model_use_passes_stale_clause",
        "NV.C17.model_save_passes_outdated_clause",
        "NV.C17.model_use_passes_shadow_clause",
        "NV.C17.model_use_passes_damaged_and_foreign_clauses",
        "NV.C17.never_stale",
        "NV.C17.never_stale_transitive",
        "NV.C17.fresh_binary_used",
        "NV.C17.include_resolution_partial",
        "NV.C17.includes_resolve_as_recorded",
        "NV.C17.parent_include_shadow_partial",
        "NV.C17.incOpen_spec",
        "NV.C17.saved_only_against_current_parents",
        "NV.C17.current_parents_are_saved",
        "NV.C17.swap_loop_correct",
        "NV.C17.perm_sort_correct",
        "NV.C17.remap_points_at_same_function",
        "NV.C17.type_start_follows",
        "NV.C17.relocate_roundtrip",
        "NV.C17.relocate_offsets_preserved",
        "NV.C17.switch_tables_sorted_after_patch",
        "NV.C17.patch_roundtrip",
        "NV.C17.all_string_switches_patched",
        "NV.C17.quickSort_perm",
        "NV.C17.quickSort_sorted",
        "NV.C17.sort_perm_from_quicksort",
        "NV.C17.function_table_sorted",
        "NV.C17.patch_in_total",
        "NV.C17.relocation_members_tied",
        "NV.C17.every_pointer_member_handled",
        "NV.C17.only_switch_keys_are_addresses",
        "NV.C17.every_block_pointer_recreated",
        "NV.C17.patch_offsets_read_unsigned",
        "NV.C17.qsort_statements_tied",
        "NV.C17.binary_file_roundtrip",
        "NV.C17.decoded_file_has_valid_checksum",
        "NV.C17.getField_checks_length",
        "NV.C17.byte_model_follows_source_layout",
        "NV.C17.layout_write_read_agree",
        "NV.C17.layout_checksum_covers_file",
    ]
    witness_theorems = [
        "NV.C17.old_type_start_loop_wrong",
        "NV.C17.old_str_case_cmp_missorts",
        "NV.C17.old_patch_offset_negative",
        "NV.C17.old_config_id_blind",
        "NV.C17.old_indirect_inherit_not_checked",
        "NV.C17.conditional_patch_list_misses_switch",
        "NV.C17.old_saved_against_outdated_parent",
        "NV.C17.include_shadowing_not_seen",
        "NV.C17.unsaved_parent_include_shadowing_not_seen",
    ]
    consts = [("switchCaseSize", "SWITCH_CASE_SIZE"), ("fSwitch", "F_SWITCH"), ("nameInherited", "NAME_INHERITED"),
              ("indexStartNone", "INDEX_START_NONE"), ("sizeofProgram", "sizeof(program_t)"),
              ("sizeofCompilerFunction", "sizeof(compiler_function_t)"),
              ("sizeofRuntimeFunction", "sizeof(runtime_function_u)"),
              # where load_binary finds the four counts inside the program block it has just read (NV/C17/BinFile.lean)
              ("offNumInherited", "offsetof(program_t, num_inherited)"), ("offNumStrings", "offsetof(program_t, num_strings)"),
              ("offNumVariablesDefined", "offsetof(program_t, num_variables_defined)"),
              ("offNumFunctionsDefined", "offsetof(program_t, num_functions_defined)"),
              ("offTotalSize", "offsetof(program_t, total_size)"), ("sizeofCount", "sizeof(((program_t *)0)->num_inherited)"),
              ("sizeofFunctionNumber", "sizeof(((program_t *)0)->num_functions_defined)")]
    const_headers = ["src/interpret.h", "lpc/program.h", "efuns_opcode.h"]
    quick_n = 800
    thorough_n = 6000
    search_n = 200
    design_ref = "5/C17"
    technique = ("Lean 4 proof (decision logic of load_binary and of save_binary's outdated-parent test; the code of qsort.c; "
                 "sort_function_table swap loop, f_index remap, type_start; locate_out/locate_in; patch_out/patch_in; byte-level "
                 "encode/decode of the .b file) + source-derived constants, member lists, statement orders and function texts + "
                 "unit-style correspondence on the real static functions and the real quickSort + real .b files decoded by the "
                 "model + translation validation of whole programs (fresh compile vs load from binary, model-on-real-tables) + "
                 "independent staleness oracle over mtime / load histories")
    level_text = ("Lean 4 theorems about an executable model of lib/lpc/program/binaries.c and lib/misc/qsort.c: the binary is used "
                  "only when no dependency is newer - source, includes, simul_efun file, and for every program reachable through "
                  "inherit lists its source, its includes and its saved binary (never_stale_transitive) - and both ids match; a "
                  "binary is written only for a program whose inherited programs, at any depth, are still current in memory "
                  "(saved_only_against_current_parents); quickSort as coded permutes for every comparison function and sorts for "
                  "strict orders, so the function table and every string switch table come out in the order their searches "
                  "assume; every #include directive still resolves to the recorded file when a binary is used (includes_resolve_as_recorded); "
                  "the in-place sort by swaps, the f_index remap and type_start follow; relocation round-trips and covers "
                  "every pointer member; the byte format round-trips (binary_file_roundtrip) and every read is length-checked.  "
                  "Equality of whole programs is by correspondence: generated programs are compiled, dumped, reloaded from the "
                  "binary and dumped again; the Lean model predicts the reloaded dump from the fresh one and the Lean oracle "
                  "compares functions, variables, inherits, line info, code and call results")
    level_note = ("trusted: Lean kernel; nvlib/extract.py + the regular expressions of props/c17.py that read ids, member "
                  "lists, statement orders and function texts; the harness (differential; only generated programs and "
                  "histories); the compiler is not modelled (its dumps are data); no judge(model trace) = [] for whole "
                  "histories - clause-level top theorems for the never-stale and outdated-parent clauses "
                  "(model_use_passes_stale_clause, model_save_passes_outdated_clause, model_use_passes_shadow_clause), invariants for the others; the "
                  "program generator is a grammar of shapes, not all LPC")
    rule = ("cases = corpus + known-finding inputs + boundary list + seeded random cases of six kinds: uqsort (the real quickSort "
            "on 0..250 elements of 4/8/10 bytes under comparison tables that are orders, preorders, constant or random), usort (random "
            "function tables, permutations, compressed-table headers, type_start), ureloc, upatch (random string switch "
            "tables, far-apart fake addresses, offsets above 32767), utimes, and system histories (generated program "
            "families with string switches, inheritance chains, includes, classes, function literals, save_types; steps "
            "compile / edit source / edit include / touch inherited / touch simul_efun + restart / nothing, distinct mtimes, "
            "touch simul_efun without restart / parent edited (variables and functions shift) but not loaded again while its heirs are compiled / "
            "parent compiled again but not saved again so that its binary on disk is a leftover (the header with its pragma loses it; the master refuses the save) / damage (truncation, bit flip) / foreign (other magic, driver_id, config_id) / "
            "binary moved to another name / failing compile first; pragma on top, between functions, last line, in an include, "
            "toggled; chains with unsaved parents; every reload either in the same process or each in a fresh process; "
            "in half of the cases a reference compile of the current sources (own process, no binaries) before every reload, which the program loaded from a binary is compared with; reload after every step with permuted string addresses; every decision branch of the model is taken (histogram.decision_branches); non-trivial = trace with >= 2 lines; distinct = "
            "distinct canonical implementation trace")
    not_covered = ["open finding C17-unsaved-parent-include-shadowed: an include of a parent WITHOUT saved binary shadowed by a file older "
                   "than the child's binary (witness, partial theorem, replay input; the newer case is proved caught)",
                   "the refusal branches of save_binary for programs / include lists above USHRT_MAX and strings of USHRT_MAX "
                   "or more (they are the hypotheses of binary_file_roundtrip; no generated program is that large)",
                   "clock granularity: an edit in the same second as a load or a save (the quantifier has distinct times)",
                   "crdir_fopen, valid_save_binary refusals, re-entrancy of the master apply inside save_binary",
                   "f_switch's binary search itself (C03); LPC_TO_C, Windows paths"]

    # ---- stage A: generated Lean from the source text ---------------------
    def gen_extra(self, ctx, bdir):
        src = open(os.path.join(E.REPO, "lib/lpc/program/binaries.c")).read()

        def need(name, pat, flags=re.S):
            m = re.search(pat, src, flags)
            if not m:
                raise X.TieBroken("binaries.c:" + name, "site `%s` not found in lib/lpc/program/binaries.c (pattern %s)" % (name, pat))
            return m
        drv = need("driver_id", r"static\s+uint32_t\s+driver_id\s*=\s*(0x[0-9a-fA-F]+|\d+)\s*;").group(1)
        mag = need("magic_id", r'static\s+char\s*\*\s*magic_id\s*=\s*"([^"]*)"\s*;').group(1)
        op = need("check_times.compare", r"check_times\s*\(time_t mtime, const char \*nm\)\s*\{.*?if\s*\(st\.st_mtime\s*(>=|>)\s*mtime\)").group(1)
        lb = src[src.index("program_t *load_binary"):src.index("void init_binaries")]

        def need_lb(name, pat):
            if not re.search(pat, lb, re.S):
                raise X.TieBroken("load_binary:" + name, "comparison site `%s` not found in load_binary (pattern %s)" % (name, pat))
        need_lb("source", r"check_times\s*\(mtime,\s*name\)\s*<=\s*0")
        need_lb("include", r"check_times\s*\(mtime,\s*iname\)\s*<=\s*0")
        need_lb("missing-include", r"if\s*\(iname\[0\]\s*==\s*'!'\)\s*\{[^{}]*if\s*\(check_times\s*\(mtime,\s*iname \+ 1\)\s*!=\s*-1\)\s*\{[^{}]*return OUT_OF_DATE;\s*\}\s*continue;\s*\}\s*if\s*\(check_times\s*\(mtime,\s*iname\)\s*<=\s*0\)")
        self.tie_inc_open()
        need_lb("inherit", r"check_times\s*\(mtime,\s*buf\)\s*<=\s*0\s*\|\|\s*check_times\s*\(mtime,\s*file_name_two\)\s*==\s*0")
        need_lb("binary-path", r"if\s*\(file_name\[0\]\s*==\s*'/'\)\s*file_name\+\+;")
        need_lb("inherited-binary-path", r"if\s*\(file_name_two\[0\]\s*==\s*'/'\)\s*file_name_two\+\+;")
        need_lb("behind-inherited", r"inherited_program_newer\s*\(mtime,\s*ob->prog\)")
        need_lb("simul-newer", r"simul_efun_path\[0\]\s*&&\s*check_times\s*\(mtime,\s*simul_efun_path\)\s*==\s*0")
        need_lb("driver_id", r"driver_id\s*!=\s*bin_driver_id")
        need_lb("config_id", r"config_id\s*!=\s*bin_config_id")
        need_lb("magic", r"strncmp\s*\(buf,\s*magic_id,\s*strlen\s*\(magic_id\)\)\s*!=\s*0")
        need_lb("name", r"strcmp\s*\(name,\s*buf\)\s*!=\s*0")
        need_lb("sort", r"sort_function_table\s*\(p\)\s*;")
        need_lb("patch_in", r"patch_in\s*\(p,")
        # the order of the tests in load_binary, as the model has it
        order = ["READ_CHECKSUM", "check_times (mtime, name)", "strncmp (buf, magic_id", "driver_id != bin_driver_id",
                 "config_id != bin_config_id", "check_times (mtime, simul_efun_path)", "check_times (mtime, iname)",
                 "strcmp (name, buf)", "check_times (mtime, buf)", "find_object_by_name (buf)",
                 "inherited_program_newer (mtime, ob->prog)", "sort_function_table (p)", "patch_in (p,"]
        pos = [lb.find(x) for x in order]
        if -1 in pos or pos != sorted(pos):
            raise X.TieBroken("load_binary:order", "the tests of load_binary are no longer in the modelled order: %s" % list(zip(order, pos)))
        need_lb("checksum", r"sum\s*!=\s*bin_sum")
        if lb.index("READ_CHECKSUM") > lb.index("check_times (mtime, name)"):
            raise X.TieBroken("load_binary:checksum-first", "the checksum is no longer verified before anything else is used")
        # byte-level layout: the sections save_binary writes and load_binary reads, in order, with the width of each length field
        sv = src[src.index("void save_binary"):src.index("static program_t *comp_prog;")]

        def sections(text, word):
            parts = re.split(r"\[%s_(\w+)\]" % word, text)
            out = []
            for k in range(1, len(parts), 2):
                body = parts[k + 1]
                m = re.search(r"&(bin_count|bin_size|sum|bin_sum)\b", body)
                width = {"bin_count": 16, "bin_size": 32, "sum": 32, "bin_sum": 32}[m.group(1)] if m else 0
                out.append((parts[k], width))
            return out
        wsec, rsec = sections(sv, "WRITE"), sections(lb, "READ")
        if not wsec or not rsec:
            raise X.TieBroken("binaries.c:layout", "section markers [WRITE_*] / [READ_*] not found")

        def lean_list(xs):
            return "[" + ", ".join('("%s", %d)' % x for x in xs) + "]"
        layout = ["/-- C: the `[WRITE_*]` sections of save_binary in order, with the width in bits of the length field each one writes -/",
                  "def writeLayout : List (String × Nat) := " + lean_list(wsec),
                  "/-- C: the `[READ_*]` sections of load_binary in order, with the width of the length field each one reads -/",
                  "def readLayout : List (String × Nat) := " + lean_list(rsec)]
        # sort_function_table: the sentinel of the compressed index table and the statement order of the swap
        sf = src[src.index("sort_function_table (program_t * prog)"):src.index("#define ALLOC_BUF")]
        skip = need("sort_function_table.skip", r"sort_function_table \(program_t \* prog\).*?if\s*\(j\s*==\s*(\d+)\)\s*continue;").group(1)
        if not re.search(r"for\s*\(i = 0; i < num - 1; i\+\+\)", sf):
            raise X.TieBroken("sort_function_table:loop-bound", "swap loop bound `i < num - 1` not found")
        if not re.search(r"cft = prog->function_table\[i\];\s*prog->function_table\[i\] = prog->function_table\[where\];.*?"
                         r"sorttmp\[invtmp\[i\]\] = where;\s*invtmp\[where\] = invtmp\[i\];\s*prog->function_table\[where\] = cft;", sf, re.S):
            raise X.TieBroken("sort_function_table:swap", "the five statements of the swap are no longer in the modelled order")
        if not re.search(r"int ri = f_ov \+ i;", sf) or not re.search(r"function_offsets\[j\]\.def\.f_index = \(function_number_t\)inverse\[oldix\]", sf) \
                or not re.search(r"function_offsets\[n_real \+ i\]\.def\.f_index = \(function_number_t\)inverse\[oldix\]", sf):
            raise X.TieBroken("sort_function_table:remap", "the f_index remap loops no longer have the modelled shape")
        layout += ["/-- C: `if (j == %s) continue;` in the first remap loop of sort_function_table -/" % skip,
                   "def compressedSkip : Nat := %s" % skip]
        # the patch list: recorded for every string switch, under no other condition
        ic = open(os.path.join(E.REPO, "lib/lpc/program/icode.c")).read()
        m = re.search(r"if\s*\(([^{};]*)\)\s*\{\s*short\s+sw\s*=\s*\(short\)\s*\(addr\s*-\s*2\);\s*add_to_mem_block\s*\(A_PATCH,", ic, re.S)
        if not m or re.sub(r"\s+", " ", m.group(1).strip()) != "expr->kind == NODE_SWITCH_STRINGS":
            raise X.TieBroken("icode.c:A_PATCH", "the patch list is no longer recorded under exactly `expr->kind == NODE_SWITCH_STRINGS` "
                              "(found: %s)" % (m.group(1).strip() if m else "site not found"))
        if len(re.findall(r"add_to_mem_block\s*\(A_PATCH", ic)) != 1:
            raise X.TieBroken("icode.c:A_PATCH", "expected exactly one place that appends to A_PATCH")
        cfgw = need("config_id", r"static\s+uint(\d+)_t\s+config_id\s*=").group(1)
        drvw = need("driver_id.width", r"static\s+uint(\d+)_t\s+driver_id\s*=").group(1)
        layout += ["/-- C: width in bytes of `static uint%s_t driver_id` / `static uint%s_t config_id` as written with sizeof -/" % (drvw, cfgw),
                   "def driverIdBytes : Nat := %d" % (int(drvw) // 8), "def configIdBytes : Nat := %d" % (int(cfgw) // 8)]
        for nm in ("driver_id", "config_id"):
            if not re.search(r"fwrite \(\(char \*\) &%s, sizeof \(%s\), 1, f\)" % (nm, nm), sv) or \
                    not re.search(r"fread \(\(char \*\) &bin_%s, sizeof \(bin_%s\), 1, f\)" % (nm, nm), lb) or \
                    not re.search(r"uint%s_t bin_%s;" % (drvw if nm == "driver_id" else cfgw, nm), lb):
                raise X.TieBroken("binaries.c:preamble", "%s is no longer written and read with its own size" % nm)
        layout += self.gen_block_pointers(lb)
        layout += self.gen_patch_types(src, ic)
        layout += self.gen_functions(src, sv)
        layout += self.gen_relocation(src, lb, ic)
        layout += self.gen_qsort()
        return "\n".join([
            "/-- C: `static uint32_t driver_id` in lib/lpc/program/binaries.c -/",
            "def driverId : Nat := %d" % int(drv, 0),
            "/-- C: `static char *magic_id` -/",
            'def magicId : String := "%s"' % mag,
            "/-- C: check_times() answers 0 (out of date) when `st.st_mtime %s mtime` -/" % op,
            "def checkTimesStrict : Bool := %s" % ("true" if op == ">" else "false"),
        ] + layout)

    def gen_block_pointers(self, lb):
        """pointer-typed members of the structures that live INSIDE the saved program block (the elements of
        function_table, function_offsets, function_compressed, inherit, classes, class_members) and how load_binary
        re-creates each of them; the element type of the pointer tables strings / variable_table"""
        ph = re.sub(r"/\*.*?\*/", "", open(os.path.join(E.REPO, "lib/lpc/program.h")).read(), flags=re.S)
        found = []
        for struct in ("runtime_defined_s", "runtime_inherited_s", "compressed_offset_table_s", "compiler_function_s",
                       "class_def_s", "class_member_entry_s", "inherit_s"):
            m = re.search(r"typedef struct %s\s*\{(.*?)\}\s*(\w+);" % struct, ph, re.S)
            if not m:
                raise X.TieBroken("program.h:" + struct, "structure %s not found" % struct)
            for decl in m.group(1).split(";"):
                decl = " ".join(l for l in decl.splitlines() if not l.strip().startswith("#")).strip()
                mm = re.match(r"^[\w\s]+?\*+\s*(\w+)$", decl)
                if mm:
                    found.append((m.group(2), mm.group(1)))
        mem = re.search(r"typedef struct program_s\s*\{(.*?)\}\s*program_t;", ph, re.S).group(1)
        tables = re.findall(r"char\s*\*\*\s*(\w+)\s*;", mem)
        recreated = []
        for pat, name in ((r"p->function_table\[i\]\.name = make_shared_string \(buf\);", "compiler_function_t.name"),
                          (r"p->inherit\[i\]\.prog = ob->prog;", "inherit_t.prog"),
                          (r"p->strings\[i\] = make_shared_string \(buf\);", "strings[]"),
                          (r"p->variable_table\[i\] = make_shared_string \(buf\);", "variable_table[]")):
            if re.search(pat, lb):
                recreated.append(name)

        def strs(xs):
            return "[" + ", ".join('"%s"' % x for x in xs) + "]"
        return ["/-- C: pointer-typed members of the structures stored inside the program block (lib/lpc/program.h) -/",
                "def blockStructPointers : List String := " + strs("%s.%s" % x for x in found),
                "/-- C: the `char **` tables of program_t (every element is a pointer) -/",
                "def blockPointerTables : List String := " + strs(t + "[]" for t in tables),
                "/-- C: the element pointers load_binary assigns itself after reading the block -/",
                "def blockPointersRecreated : List String := " + strs(recreated)]

    def gen_patch_types(self, src, ic):
        """the C types through which a patch offset travels: recorded by the code generator, read back by patch_out and
        patch_in, and the types of the table bounds read from the switch instruction"""
        out = []
        m = re.search(r"(\w[\w ]*?)\s+sw\s*=\s*\((\w[\w ]*?)\)\s*\(addr - 2\);\s*add_to_mem_block\s*\(A_PATCH,\s*\(char \*\)\s*&sw,\s*sizeof sw\)", ic)
        if not m:
            raise X.TieBroken("icode.c:A_PATCH.type", "the patch entry is no longer `<type> sw = (<type>) (addr - 2)` stored with sizeof sw")
        out += ["/-- C: type of the patch entry the code generator stores (icode.c) -/", 'def patchEntryType : String := "%s"' % m.group(1).strip()]
        for fn, lean in (("patch_out", "patchOut"), ("patch_in", "patchIn")):
            a = src.find("\n%s (program_t * prog, short *patches, size_t len)" % fn)
            if a < 0:
                raise X.TieBroken("binaries.c:%s" % fn, "`%s (program_t * prog, short *patches, size_t len)` not found" % fn)
            body = src[a:src.find("}\t\t\t\t/* %s() */" % fn, a)]
            mi = re.search(r"\bint i;", body)
            mc = re.search(r"\bi\s*=\s*(\([^()]*\))?\s*patches\[--len\];", body)
            mt = re.search(r"\b((?:unsigned\s+)?(?:short|int|long|char))\s+offset,(?:\s*start,)?\s*break_addr;", body)
            if not mi or not mc or not mt:
                raise X.TieBroken("binaries.c:%s.types" % fn, "the patch offset is no longer read as `i = (<cast>) patches[--len]` into an int, "
                                  "or the table bounds are no longer `<type> offset, … break_addr`")
            out += ["/-- C: the cast in `i = (…) patches[--len]` of %s (empty: none) -/" % fn,
                    'def %sOffsetCast : String := "%s"' % (lean, (mc.group(1) or "").strip("()").strip()),
                    "/-- C: type of `offset` / `break_addr` in %s -/" % fn,
                    'def %sBoundsType : String := "%s"' % (lean, re.sub(r"\s+", " ", mt.group(1)))]
        return out

    def tie_inc_open(self):
        """inc_open (lex.c) notes, before it returns the file found in an include directory, the candidate next to the
        including file and the candidates of every earlier include directory; add_program_missing_file (compiler.c)
        stores them as '!' entries of A_INCLUDES"""
        lx = re.sub(r"/\*.*?\*/", "", open(os.path.join(E.REPO, "lib/lpc/lex.c")).read(), flags=re.S)
        a = lx.find("static int inc_open (char *buf, const char *name) {")
        body = re.sub(r"\s+", " ", lx[a:lx.find("#define include_error", a)]) if a >= 0 else ""
        want = ["inc_lexically_normal (current_file, name, buf);",
                "if (legal_path (buf) && (fd = FILE_OPEN (buf, O_RDONLY)) != -1)",
                "first[0] = '\\0'; if (legal_path (buf)) strcpy (first, buf);",
                "for (i = 0; i < inc_list_size; i++)",
                "sprintf (buf, \"%s/%s\", inc_list[i], name); if ((fd = FILE_OPEN (buf, O_RDONLY)) != -1)",
                "add_program_missing_file (first); for (j = 0; j < i; j++)",
                "sprintf (missed, \"%s/%s\", inc_list[j], name); add_program_missing_file (missed);",
                "return fd;"]
        pos, at = [], 0
        for t in want:
            k = body.find(t, at)
            pos.append(k)
            at = k + 1 if k >= 0 else at
        if -1 in pos:
            raise X.TieBroken("lex.c:inc_open", "inc_open no longer tries the candidates / notes the missed ones in the modelled order: "
                              "missing %s" % [t for t, k in zip(want, pos) if k < 0][:2])
        cp = re.sub(r"\s+", "", re.sub(r"/\*.*?\*/", "", open(os.path.join(E.REPO, "lib/lpc/compiler.c")).read(), flags=re.S))
        if "voidadd_program_missing_file(constchar*path){charentry[PATH_MAX+1];if(!mem_block[A_INCLUDES].block||!path[0]||strlen(path)>=PATH_MAX)return;" \
           "entry[0]='!';strcpy(entry+1,path);add_to_mem_block(A_INCLUDES,entry,strlen(entry)+1);}" not in cp:
            raise X.TieBroken("compiler.c:add_program_missing_file", "the '!' entry of the include list is no longer written as modelled")

    def gen_functions(self, src, sv):
        """small functions the model mirrors statement by statement: their text (comments and white space removed) must be
        the text the model was written from; the character of compare_compiler_funcs goes into Gen"""
        def body(start, end):
            a = src.index(start)
            t = src[a:src.index(end, a)]
            t = re.sub(r"/\*.*?\*/", "", t, flags=re.S)
            return re.sub(r"\s+", "", t)
        want = {
            "compare_compiler_funcs": ("compare_compiler_funcs (int *x, int *y)", "static void\nsort_function_table",
                                       "compare_compiler_funcs(int*x,int*y){char*n1=comp_prog->function_table[*x].name;"
                                       "char*n2=comp_prog->function_table[*y].name;if(n1[0]=='#'){if(n2[0]=='#')return0;return1;}"
                                       "if(n2[0]=='#')return-1;if(n1<n2)return-1;if(n1>n2)return1;return0;}"),
            "str_case_cmp": ("str_case_cmp (char *a, char *b)\n{", "static void\npatch_in",
                             "str_case_cmp(char*a,char*b){char*s1,*s2;COPY_PTR(&s1,a);COPY_PTR(&s2,b);"
                             "if((intptr_t)s1<(intptr_t)s2)return-1;if((intptr_t)s1>(intptr_t)s2)return1;return0;}"),
            "check_times": ("check_times (time_t mtime, const char *nm)\n{", "/*\n * Is anything a loaded",
                            "check_times(time_tmtime,constchar*nm){structstatst;if(stat(nm,&st)==-1)return-1;"
                            "if(st.st_mtime>mtime){return0;}return1;}"),
            "inherited_program_newer": ("inherited_program_newer (time_t mtime, program_t * prog)\n{", "/*\n * Is a loaded (inherited) program no longer",
                                        "inherited_program_newer(time_tmtime,program_t*prog){charbin_name[PATH_MAX];char*bn=bin_name;size_tlen;inti;"
                                        "if(prog->file_info){intend=prog->file_info[1];for(i=2;i+1<end;i+=2){intid=prog->file_info[i+1];"
                                        "if(id>0&&id<=(int)prog->num_strings&&check_times(mtime,prog->strings[id-1])==0)return1;}}"
                                        "if(prog->name&&strlen(CONFIG_STR(__SAVE_BINARIES_DIR__))+strlen(prog->name)+2<sizeof(bin_name)){"
                                        "sprintf(bn,\"%s/%s\",CONFIG_STR(__SAVE_BINARIES_DIR__),prog->name);if(bn[0]=='/')bn++;len=strlen(bn);"
                                        "bn[len-1]='b';if(check_times(mtime,bn)==0)return1;}"
                                        "for(i=0;i<(int)prog->num_inherited;i++){if(inherited_program_newer(mtime,prog->inherit[i].prog))return1;}"
                                        "return0;}"),
            "inherited_program_outdated": ("inherited_program_outdated (program_t * prog)\n{", "/*\n * Routines to do some hacking",
                                           "inherited_program_outdated(program_t*prog){object_t*ob;inti;"
                                           "if(!prog->name||!(ob=find_object_by_name(prog->name))||ob->prog!=prog)return1;"
                                           "if(prog->file_info){intend=prog->file_info[1];for(i=2;i+1<end;i+=2){intid=prog->file_info[i+1];"
                                           "if(id>0&&id<=(int)prog->num_strings&&check_times(ob->load_time,prog->strings[id-1])==0)return1;}}"
                                           "for(i=0;i<(int)prog->num_inherited;i++){if(inherited_program_outdated(prog->inherit[i].prog))return1;}"
                                           "return0;}"),
        }
        for name, (start, end, text) in want.items():
            try:
                got = body(start, end)
            except ValueError:
                raise X.TieBroken("binaries.c:" + name, "function `%s` not found" % name)
            if not got.startswith(text):
                raise X.TieBroken("binaries.c:" + name, "the text of `%s` is no longer the one the model mirrors: %s" % (name, got[:400]))
        # save_binary asks inherited_program_outdated() for every inherited program before it opens the file
        a, b = sv.find("inherited_program_outdated (prog->inherit[i].prog)"), sv.find("crdir_fopen (file_name)")
        if a < 0 or b < 0 or a > b or not re.search(r"for \(i = 0; i < \(int\) prog->num_inherited; i\+\+\)\s*\{\s*if \(inherited_program_outdated", sv):
            raise X.TieBroken("save_binary:outdated-parents", "save_binary no longer refuses, before writing, a program whose inherited programs are outdated")
        m = re.search(r"if\s*\(n1\[0\]\s*==\s*'(.)'\)", src)
        return ["/-- C: `if (n1[0] == '%s')` in compare_compiler_funcs: the names that stay last -/" % m.group(1),
                "def lastNameChar : Char := '%s'" % m.group(1)]

    def gen_relocation(self, src, lb, ic):
        """which pointer members of program_t exist, which of them locate_out / locate_in relocate (and which only under
        `if (prog->type_start)`), which load_binary re-creates, and which operands the code generator emits as addresses"""
        ph = open(os.path.join(E.REPO, "lib/lpc/program.h")).read()
        m = re.search(r"typedef struct program_s\s*\{(.*?)\}\s*program_t;", ph, re.S)
        if not m:
            raise X.TieBroken("program.h:program_t", "struct program_s not found")
        body = re.sub(r"/\*.*?\*/", "", m.group(1), flags=re.S)
        ptrs, scalars = [], []
        for decl in body.split(";"):
            decl = " ".join(l for l in decl.splitlines() if not l.strip().startswith("#")).strip()
            if not decl:
                continue
            mm = re.match(r"^[\w\s]+?(\*+)\s*(\w+)$", decl)
            if mm:
                ptrs.append(mm.group(2))
            else:
                mm = re.match(r"^[\w\s]+?\b(\w+)$", decl)
                if not mm:
                    raise X.TieBroken("program.h:program_t", "member declaration not understood: %r" % decl)
                scalars.append(mm.group(1))

        def members(fn, macro):
            a = src.index("\n%s (program_t * prog)" % fn)
            text = src[a:src.index("return 1;", a)]
            text = re.sub(r"#\s*(ifdef|endif)[^\n]*", "", text)
            text = re.sub(r"/\*.*?\*/", "", text, flags=re.S)
            # the guards: `if (prog->m) { … }` or `if (prog->m) <one statement>;`
            conds = [(c.group(1), c.start(2), c.end(2)) for c in
                     re.finditer(r"if\s*\(prog->(\w+)\)\s*(\{.*?\}|[^;{}]*;)", text, re.S)]
            out = []
            for mm in re.finditer(r"prog->(\w+)\s*=\s*(?:\([^()]*\)\s*)?%s\s*\(prog->(\w+),\s*prog\)\s*;" % macro, text):
                if mm.group(1) != mm.group(2):
                    raise X.TieBroken("binaries.c:%s" % fn, "member %s is assigned from member %s" % (mm.group(1), mm.group(2)))
                out.append((mm.group(1), next((g for g, a2, b2 in conds if a2 <= mm.start() < b2), "")))
            if len(out) != len(re.findall(r"\b%s\s*\(" % macro, text)):
                raise X.TieBroken("binaries.c:%s" % fn, "a use of %s was not understood" % macro)
            return out
        lo, li = members("locate_out", "DIFF"), members("locate_in", "ADD")
        if not re.search(r"#define DIFF\(x, y\) \(\(char \*\)\(x\) - \(char \*\)\(y\)\)", src) or \
                not re.search(r"#define ADD\(x, y\) \(&\(\(\(char \*\)\(y\)\)\[\(intptr_t\)x\]\)\)", src):
            raise X.TieBroken("binaries.c:DIFF/ADD", "the relocation macros are no longer `x - y` / `y + x` on char pointers")
        assigned = sorted(set(re.findall(r"\bp->(\w+)\s*=[^=]", lb)))
        ops = [re.sub(r"\s+", " ", x.strip()) for x in re.findall(r"\bins_intptr\s*\(([^;]*)\)\s*;", ic)]

        def pairs(xs):
            return "[" + ", ".join('("%s", "%s")' % (a, b) for a, b in xs) + "]"

        def strs(xs):
            return "[" + ", ".join('"%s"' % x.replace('"', "'") for x in xs) + "]"
        return ["/-- C: the pointer-typed members of `program_t` (lib/lpc/program.h), in declaration order -/",
                "def programPointerMembers : List String := " + strs(ptrs),
                "/-- C: the other members of `program_t` -/",
                "def programScalarMembers : List String := " + strs(scalars),
                "/-- C: `prog->m = DIFF (prog->m, prog)` in locate_out, in order, each with the member whose being non-NULL guards it ('' = none) -/",
                "def locateOutMembers : List (String × String) := " + pairs(lo),
                "/-- C: `prog->m = ADD (prog->m, prog)` in locate_in -/",
                "def locateInMembers : List (String × String) := " + pairs(li),
                "/-- C: the members `p->m = ...` that load_binary assigns itself -/",
                "def loadBinaryAssigns : List String := " + strs(assigned),
                "/-- C: every operand the code generator stores with `ins_intptr` (lib/lpc/program/icode.c) -/",
                "def intptrOperands : List String := " + strs(ops)]

    def gen_qsort(self):
        """the statements of lib/misc/qsort.c that NV/C17/QSort.lean mirrors"""
        q = open(os.path.join(E.REPO, "lib/misc/qsort.c")).read()
        q = re.sub(r"\s+", " ", re.sub(r"/\*.*?\*/", "", q, flags=re.S))
        a = q.index("static void qSort (void *v")
        body = q[a:]
        want = [("guard", "if ((left >= right) || (left < 0) || (right > rightmost) || (right < 0)) { return; }"),
                ("pivot", "doSwap ((char *) v + szleft, (char *) v + (size * ((left + right) / 2)), size);"),
                ("init", "last = left;"),
                ("loop", "for (i = left + 1; i <= right; i++)"),
                ("test", "if ((*compar) ((char *) v + (size * i), (char *) v + szleft) < 0)"),
                ("move", "doSwap ((char *) v + (size * ++last), (char *) v + (size * i), size);"),
                ("place", "doSwap ((char *) v + szleft, (char *) v + (size * last), size);"),
                ("left", "qSort (v, left, last - 1, size, rightmost, compar);"),
                ("right", "qSort (v, last + 1, right, size, rightmost, compar);"),
                ("small", "if (nmemb < 2) { return; }"),
                ("top", "qSort (a, 0, nmemb - 1, size, nmemb - 1, compar);")]
        pos = [body.find(t) for _, t in want]
        if -1 in pos or pos != sorted(pos):
            raise X.TieBroken("qsort.c:qSort", "the statements of qSort/quickSort are no longer the modelled ones, in the modelled order: %s"
                              % [n for (n, _), p in zip(want, pos) if p < 0] )
        if not re.search(r"while \(size--\) \{ t = \*one; \*\(one\+\+\) = \*two; \*\(two\+\+\) = t; \}", q):
            raise X.TieBroken("qsort.c:doSwap", "doSwap no longer exchanges the two elements byte by byte")
        nstm = len(re.findall(r";", body))
        return ["/-- C: number of `;` in qSort + quickSort (lib/misc/qsort.c); the model mirrors exactly these statements -/",
                "def qsortStatements : Nat := %d" % nstm]

    # ---- stage C ------------------------------------------------------------
    def prepare(self, ctx):
        self.exe = E.compile_harness("c17", [os.path.join(E.VERIF, "harness/c17/c17.c")])
        self.conf = E.make_mudlib(ctx.rundir, master="/c17/master.c", extra_conf="SaveBinaryDir /c17bin\n")
        self.impl_cache = {}

    def canon(self, lines):
        out = []
        for l in lines:
            l = l.rstrip()
            if not l:
                continue
            if l.startswith("sanitizer ") and "pointer index expression" in l and "binaries.c" not in l:
                # recoverable UBSan report (engine: -fsanitize-recover=pointer-overflow): locate_out/locate_in do pointer
                # arithmetic on the NULL `inherit` member of a program without inherits; whether the wrapped result is
                # reported depends on the two block addresses.  Nothing crashed; see notes/C17.md.
                continue
            if l.startswith("sanitizer "):
                l = "crash sanitizer"
            elif l.startswith("crash "):
                if out and out[-1] == "crash sanitizer":
                    continue
            out.append(l)
        return out

    def run_impl(self, ctx, cases):
        res = E.run_harness(self.exe, self.conf, cases, ctx.rundir, args=["--timeout", "60"])
        for c in cases:
            self.impl_cache[c.id] = self.canon(res.get(c.id, []))
        return res

    def run_model(self, ctx, cases):
        """the model is a translation validator for whole programs: it predicts the decisions of every reload from the
        mtimes alone, and the dump of a program loaded from its binary from the dump of its last fresh compile; the
        compiler itself is not modelled, so the implementation's dump lines are handed to the model as data"""
        ms = []
        for c in cases:
            ms.append(E.Case(c.id, c.lines + ["--"] + self.impl_cache.get(c.id, [])))
        return E.nvdrive(self.id, "model", E.cases_text(ms))

    def shrink_ok(self, lines):
        """a shrunk system case must stay a well-formed history: it removes its directory first, and everything its
        reloads need (declaration, source, modification time of every program of the family, of their parents and of
        their include files; the simul_efun time; the start-up) is set up before the first reload.  Otherwise the
        replay would show a model / implementation difference of its own on an unchanged tree."""
        first = next((i for i, l in enumerate(lines) if l.startswith(("reload ", "reloadp "))), None)
        if first is None:
            return True
        head = lines[:first]
        if not head or not head[0].startswith("clean ") or not any(l.startswith("restart ") for l in head) \
                or not any(l.startswith("mtime /simul_efun.c ") for l in head):
            return False
        progs = {}
        for l in head:
            t = l.split()
            if t[0] == "prog":
                kv = dict(x.split("=", 1) for x in t[2:] if "=" in x)
                progs[t[1]] = kv
        have_file = set(l.split()[1].lstrip("/") for l in head if l.startswith("file ") and len(l.split()) > 1)
        have_time = set(l.split()[1].lstrip("/") for l in head if l.startswith("mtime ") and len(l.split()) > 1)
        need = set()
        for l in lines:
            t = l.split()
            if t and t[0] in ("reload", "reloadp", "reloadf", "restart", "bindump"):
                need |= set(x + ".c" for x in t[1:] if x != "|")
        seen = set()
        while need:
            p = need.pop()
            if p in seen:
                continue
            seen.add(p)
            if p not in progs or p not in have_file or p not in have_time:
                return False
            for f in progs[p].get("inc", "-").split(","):
                if f != "-" and (f not in have_file or f not in have_time):
                    return False
            for q in progs[p].get("inh", "-").split(","):
                if q != "-":
                    need.add(q)
        return True

    # ---- generators ---------------------------------------------------------
    def boundary(self):
        return G.boundary()

    def generate(self, rng, n, tier):
        return G.generate(rng, n, tier)

    def histogram(self, cases, impl):
        h = G.histogram(cases, impl)
        # which branch of the decision model every load_binary call took
        try:
            ms = [E.Case(c.id, c.lines + ["--"] + impl.get(c.id, [])) for c in cases]
            out = E.nvdrive(self.id, "reasons", E.cases_text(ms))
            br = {}
            for ls in out.values():
                for l in ls:
                    br[l] = br.get(l, 0) + 1
            h["decision_branches"] = br
        except Exception as e:  # noqa
            h["decision_branches"] = "unavailable: %s" % e
        return h


PROP = C17()
