"""C17 - a program loaded from a saved binary equals what its source compiles to."""
import os
import re

from nvlib import engine as E
from nvlib import extract as X
from nvlib.check import Prop

from props import gen_c17 as G


class C17(Prop):
    id = "C17"
    title = "A program loaded from a saved binary equals what its source compiles to"
    lean_modules = ["NV.C17.Props", "NV.C17.Witness"]
    theorems = [
        "NV.C17.never_stale",
        "NV.C17.never_stale_transitive",
        "NV.C17.fresh_binary_used",
        "NV.C17.swap_loop_correct",
        "NV.C17.perm_sort_correct",
        "NV.C17.remap_points_at_same_function",
        "NV.C17.type_start_follows",
        "NV.C17.relocate_roundtrip",
        "NV.C17.relocate_offsets_preserved",
        "NV.C17.switch_tables_sorted_after_patch",
        "NV.C17.patch_roundtrip",
        "NV.C17.all_string_switches_patched",
    ]
    witness_theorems = [
        "NV.C17.old_type_start_loop_wrong",
        "NV.C17.old_str_case_cmp_missorts",
        "NV.C17.old_patch_offset_negative",
        "NV.C17.old_config_id_blind",
        "NV.C17.old_indirect_inherit_not_checked",
        "NV.C17.conditional_patch_list_misses_switch",
    ]
    consts = [("switchCaseSize", "SWITCH_CASE_SIZE"), ("fSwitch", "F_SWITCH"), ("nameInherited", "NAME_INHERITED"),
              ("indexStartNone", "INDEX_START_NONE"), ("sizeofProgram", "sizeof(program_t)"),
              ("sizeofCompilerFunction", "sizeof(compiler_function_t)"),
              ("sizeofRuntimeFunction", "sizeof(runtime_function_u)")]
    const_headers = ["src/interpret.h", "lpc/program.h", "efuns_opcode.h"]
    quick_n = 800
    thorough_n = 6000
    search_n = 200
    design_ref = "5/C17"
    technique = ("Lean 4 proof (decision logic of load_binary; sort_function_table swap loop, f_index remap, type_start; "
                 "locate_out/locate_in; patch_out/patch_in) + source-derived constants and comparison sites + unit-style "
                 "correspondence on the real static functions + translation validation of whole programs (fresh compile vs "
                 "load from binary, model-on-real-tables) + independent staleness oracle over mtime histories")
    level_text = ("Lean 4 theorems about an executable model of lib/lpc/program/binaries.c: the binary is used only when "
                  "no dependency is newer - source, includes, simul_efun file, and for every program reachable through inherit "
                  "lists its source, its includes and its saved binary (never_stale_transitive) - and both ids match; the in-place sort by swaps yields the sorted table for every "
                  "table and every order, remapped f_index entries point at the same functions, type_start follows; "
                  "relocation round-trips; string switch tables are sorted the way f_switch searches.  Equality of whole "
                  "programs is by correspondence: generated programs are compiled, dumped, reloaded from the binary and "
                  "dumped again; the Lean model predicts the reloaded dump from the fresh one and the Lean oracle compares "
                  "functions, variables, inherits, line info, code and call results")
    level_note = ("trusted: Lean kernel; nvlib/extract.py + the regular expressions of props/c17.py that read driver_id, "
                  "magic_id and the comparison sites; the harness (differential; only generated programs and histories); "
                  "quickSort is modelled by its contract (sorted permutation); byte-level file format and corrupted .b files "
                  "are not covered; the program generator is a grammar of shapes, not all LPC")
    rule = ("cases = corpus + known-finding inputs + boundary list + seeded random cases of five kinds: usort (random "
            "function tables, permutations, compressed-table headers, type_start), ureloc, upatch (random string switch "
            "tables, far-apart fake addresses, offsets above 32767), utimes, and system histories (generated program "
            "families with string switches, inheritance chains, includes, classes, function literals, save_types; steps "
            "compile / edit source / edit include / touch inherited / touch simul_efun + restart / nothing, distinct mtimes, "
            "reload after every step with permuted string addresses); non-trivial = trace with >= 2 lines; distinct = "
            "distinct canonical implementation trace")
    not_covered = ["byte-level layout of the .b file; damaged .b files are only explored (random truncations / bit flips under ASan, counts in the evidence): flipped bits inside the saved program_t can crash the driver (open exploration finding C17-damaged-binary-crash)",
                   "quickSort itself (modelled by its contract; the comparators are modelled exactly)",
                   "an inherited program that was edited but not reloaded before its heir was compiled (mtime schemes cannot see it)",
                   "a new include file that shadows a recorded one earlier in the search path",
                   "LPC_TO_C, Windows paths"]

    # ---- stage A: generated Lean from the source text ---------------------
    def gen_extra(self, ctx, bdir):
        src = open(os.path.join(E.REPO, "lib/lpc/program/binaries.c")).read()

        def need(name, pat, flags=re.S):
            m = re.search(pat, src, flags)
            if not m:
                raise X.TieBroken("binaries.c:" + name, "site `%s` not found in lib/lpc/program/binaries.c (pattern %s)" % (name, pat))
            return m
        drv = need("driver_id", r"static\s+uint32_t\s+driver_id\s*=\s*(0x[0-9a-fA-F]+|\d+)\s*;").group(1)
        mag = need("magic_id", r'static\s+char\s*\*\s*magic_id\s*=\s*"([^"]*)"\s*;').group(1)
        op = need("check_times.compare", r"check_times\s*\(time_t mtime, const char \*nm\)\s*\{.*?if\s*\(st\.st_mtime\s*(>=|>)\s*mtime\)").group(1)
        lb = src[src.index("program_t *load_binary"):src.index("void init_binaries")]

        def need_lb(name, pat):
            if not re.search(pat, lb, re.S):
                raise X.TieBroken("load_binary:" + name, "comparison site `%s` not found in load_binary (pattern %s)" % (name, pat))
        need_lb("source", r"check_times\s*\(mtime,\s*name\)\s*<=\s*0")
        need_lb("include", r"check_times\s*\(mtime,\s*iname\)\s*<=\s*0")
        need_lb("inherit", r"check_times\s*\(mtime,\s*buf\)\s*<=\s*0\s*\|\|\s*check_times\s*\(mtime,\s*file_name_two\)\s*==\s*0")
        need_lb("binary-path", r"if\s*\(file_name\[0\]\s*==\s*'/'\)\s*file_name\+\+;")
        need_lb("inherited-binary-path", r"if\s*\(file_name_two\[0\]\s*==\s*'/'\)\s*file_name_two\+\+;")
        need_lb("behind-inherited", r"inherited_program_newer\s*\(mtime,\s*ob->prog\)")
        need_lb("simul-newer", r"simul_efun_path\[0\]\s*&&\s*check_times\s*\(mtime,\s*simul_efun_path\)\s*==\s*0")
        need_lb("driver_id", r"driver_id\s*!=\s*bin_driver_id")
        need_lb("config_id", r"config_id\s*!=\s*bin_config_id")
        need_lb("magic", r"strncmp\s*\(buf,\s*magic_id,\s*strlen\s*\(magic_id\)\)\s*!=\s*0")
        need_lb("name", r"strcmp\s*\(name,\s*buf\)\s*!=\s*0")
        need_lb("sort", r"sort_function_table\s*\(p\)\s*;")
        need_lb("patch_in", r"patch_in\s*\(p,")
        # the patch list: recorded for every string switch, under no other condition
        ic = open(os.path.join(E.REPO, "lib/lpc/program/icode.c")).read()
        m = re.search(r"if\s*\(([^{};]*)\)\s*\{\s*short\s+sw\s*=\s*\(short\)\s*\(addr\s*-\s*2\);\s*add_to_mem_block\s*\(A_PATCH,", ic, re.S)
        if not m or re.sub(r"\s+", " ", m.group(1).strip()) != "expr->kind == NODE_SWITCH_STRINGS":
            raise X.TieBroken("icode.c:A_PATCH", "the patch list is no longer recorded under exactly `expr->kind == NODE_SWITCH_STRINGS` "
                              "(found: %s)" % (m.group(1).strip() if m else "site not found"))
        if len(re.findall(r"add_to_mem_block\s*\(A_PATCH", ic)) != 1:
            raise X.TieBroken("icode.c:A_PATCH", "expected exactly one place that appends to A_PATCH")
        return "\n".join([
            "/-- C: `static uint32_t driver_id` in lib/lpc/program/binaries.c -/",
            "def driverId : Nat := %d" % int(drv, 0),
            "/-- C: `static char *magic_id` -/",
            'def magicId : String := "%s"' % mag,
            "/-- C: check_times() answers 0 (out of date) when `st.st_mtime %s mtime` -/" % op,
            "def checkTimesStrict : Bool := %s" % ("true" if op == ">" else "false"),
        ])

    # ---- stage C ------------------------------------------------------------
    def prepare(self, ctx):
        self.exe = E.compile_harness("c17", [os.path.join(E.VERIF, "harness/c17/c17.c")])
        self.conf = E.make_mudlib(ctx.rundir, master="/c17/master.c", extra_conf="SaveBinaryDir /c17bin\n")
        self.impl_cache = {}

    def canon(self, lines):
        out = []
        for l in lines:
            l = l.rstrip()
            if not l:
                continue
            if l.startswith("sanitizer ") and "pointer index expression" in l:
                # recoverable UBSan report (engine: -fsanitize-recover=pointer-overflow): locate_out/locate_in do pointer
                # arithmetic on the NULL `inherit` member of a program without inherits; whether the wrapped result is
                # reported depends on the two block addresses.  Nothing crashed; see notes/C17.md.
                continue
            if l.startswith("sanitizer "):
                l = "crash sanitizer"
            elif l.startswith("crash "):
                if out and out[-1] == "crash sanitizer":
                    continue
            out.append(l)
        return out

    def run_impl(self, ctx, cases):
        res = E.run_harness(self.exe, self.conf, cases, ctx.rundir, args=["--timeout", "60"])
        for c in cases:
            self.impl_cache[c.id] = self.canon(res.get(c.id, []))
        return res

    def run_model(self, ctx, cases):
        """the model is a translation validator for whole programs: it predicts the decisions of every reload from the
        mtimes alone, and the dump of a program loaded from its binary from the dump of its last fresh compile; the
        compiler itself is not modelled, so the implementation's dump lines are handed to the model as data"""
        ms = []
        for c in cases:
            ms.append(E.Case(c.id, c.lines + ["--"] + self.impl_cache.get(c.id, [])))
        return E.nvdrive(self.id, "model", E.cases_text(ms))

    # ---- exploration: damaged .b files (robustness; observed under ASan, not modelled) ------------
    def extra_checks(self, ctx, tier, rng):
        n = 60 if tier == "quick" else 600
        cases = []
        for i in range(n):
            c = G.sys_case(E.Rng(9000 + i % 7), "x%d" % i, nprog=2, script=[], mode="reloadp")
            lines = [l for l in c.lines if not l.startswith("mtime /simul_efun.c 500")]
            reload_line = [l for l in lines if l.startswith(("reload ", "reloadp "))][-1]
            progs = [l.split()[1] for l in lines if l.startswith("prog ") and "save=1" in l]
            if not progs:
                continue
            victim = rng.choice(progs)
            if rng.chance(1, 2):
                lines.append("corrupt %s trunc %d" % (victim, rng.below(1000)))
            else:
                lines.append("corrupt %s flip %d %d" % (victim, rng.below(1000) if rng.chance(2, 3) else rng.below(60),
                                                         rng.choice([1, 2, 4, 8, 16, 32, 64, 128, 255])))
            lines += ["now 5000", reload_line]
            cases.append(E.Case("x%d" % i, lines))
        res = E.run_harness(self.exe, self.conf, cases, ctx.rundir, args=["--timeout", "60"])
        summ = {"cases": len(cases), "fell_back_to_compile": 0, "binary_still_used": 0, "lpc_error": 0, "crash": 0,
                "crash_samples": []}
        for c in cases:
            out = self.canon(res.get(c.id, []))
            blk = out[out.index("begin 2"):] if "begin 2" in out else out
            victim = [l for l in c.lines if l.startswith("corrupt ")][0].split()[1]
            if any(l.startswith("crash") for l in out):
                summ["crash"] += 1
                if len(summ["crash_samples"]) < 5:
                    raw = [l for l in res.get(c.id, []) if l.startswith(("sanitizer", "crash"))]
                    summ["crash_samples"].append({"corrupt": [l for l in c.lines if l.startswith("corrupt ")][0],
                                                  "report": raw[:2]})
            elif any(l.startswith(("err ", "loadfail")) for l in blk):
                summ["lpc_error"] += 1
            elif ("lb %s use" % victim) in blk:
                summ["binary_still_used"] += 1
            else:
                summ["fell_back_to_compile"] += 1
        self.exploration = summ
        E.log("exploration of damaged binaries: %s" % {k: v for k, v in summ.items() if k != "crash_samples"})
        return []

    # ---- generators ---------------------------------------------------------
    def boundary(self):
        return G.boundary()

    def generate(self, rng, n, tier):
        return G.generate(rng, n, tier)

    def histogram(self, cases, impl):
        h = G.histogram(cases, impl)
        h["exploration_damaged_binaries"] = getattr(self, "exploration", None)
        return h


PROP = C17()
