"""C13 - input framing ignores packet boundaries and survives any byte stream."""
import os
import re

from nvlib import engine as E
from nvlib import extract as X
from nvlib.check import Prop

IAC, DONT, DO, WONT, WILL, SB, AYT, AO, IP, BRK, SE = 255, 254, 253, 252, 251, 250, 246, 245, 244, 243, 240
TT, NAWS, LM, SGA, TM, ECHO = 24, 31, 34, 3, 6, 1


def hx(b):
    return bytes(b).hex() if len(b) else "-"


class C13(Prop):
    id = "C13"
    title = "Input framing ignores packet boundaries and survives any byte stream"
    lean_modules = ["NV.C13.Props", "NV.C13.Witness", "NV.C13.Negative", "NV.C13.TableTie", "NV.C13.XTable", "NV.C13.Lemmas18", "NV.C13.Lemmas19", "NV.C13.Lemmas20", "NV.C13.Lemmas21", "NV.C13.Lemmas22"]
    theorems = ["NV.C13.ts_layout", "NV.C13.sb_array_has_room", "NV.C13.sb_in_bounds", "NV.C13.copy_chars_expansion",
                "NV.C13.buffer_writes_in_bounds", "NV.C13.space_rule_sufficient", "NV.C13.space_rule_numbers",
                "NV.C13.input_never_overflows", "NV.C13.segmentation_independent",
                "NV.C13.stored_text_is_stream_text", "NV.C13.negotiation_never_in_text", "NV.C13.editing_applied",
                "NV.C13.ccByte_ok", "NV.C13.copyChars_append", "NV.C13.getUserCommand_ok",
                "NV.C13.framing_never_crashes", "NV.C13.fRun_never_crashes", "NV.C13.telnet_lines_delivered",
                "NV.C13.telnet_schedule_independent", "NV.C13.telnet_read_exact", "NV.C13.extract_exact",
                "NV.C13.lines_eq_cmdsOf", "NV.C13.ascii_lines_delivered", "NV.C13.ascii_read_exact",
                "NV.C13.copyCharsO_ok", "NV.C13.asciiLoop_exact", "NV.C13.getUserData_ok",
                "NV.C13.single_char_extraction_safe", "NV.C13.run_never_crashes", "NV.C13.getUserData_N",
                "NV.C13.addConsoleLine_N", "NV.C13.console_lines_delivered", "NV.C13.console_line_exact",
                "NV.C13.consoleLines_eq_cmdsOf", "NV.C13.statement_order_tie",
                "NV.C13.cc_table_tie", "NV.C13.cc_table_states", "NV.C13.cc_table_total", "NV.C13.cc_table_no_crash", "NV.C13.edit_bytes_tie", "NV.C13.x_table_tie", "NV.C13.x_table_complete",
                "NV.C13.reframeLoop_len", "NV.C13.reframe_N", "NV.C13.setCall_N", "NV.C13.endInput_N",
                "NV.C13.reframe_is_line_framing", "NV.C13.getUserData_evok", "NV.C13.run_events_safe",
                "NV.C13.reframe_exact", "NV.C13.typeahead_lines_after_mode_end", "NV.C13.workerChunks_len", "NV.C13.doWpipe_rinv",
                "NV.C13.getUserDataH_cases", "NV.C13.getUserDataH_keeps", "NV.C13.holdRead_true", "NV.C13.discard_only_unfinished",
                "NV.C13.typeahead_never_discarded", "NV.C13.readTail_rinv",
                "NV.C13.binary_read_exact", "NV.C13.binary_bytes_delivered"]
    witness_theorems = ["NV.C13.sb_terminator_overflows_exact_array", "NV.C13.ayt_returns_to_data",
                        "NV.C13.full_sb_payload_is_not_text", "NV.C13.ascii_spec_example",
                        "NV.C13.burst_check"]
    consts = [
        ("maxText", "MAX_TEXT"), ("sbSize", "SB_SIZE"),
        ("sbBufSize", "sizeof(((interactive_t*)0)->sb_buf)"),
        ("textArraySize", "sizeof(((interactive_t*)0)->text)"),
        ("consoleMaxLine", "CONSOLE_MAX_LINE"),
        ("iSingleChar", "SINGLE_CHAR"), ("iCmdInBuf", "CMD_IN_BUF"), ("iUsingTelnet", "USING_TELNET"),
        ("iUsingLinemode", "USING_LINEMODE"), ("iNetDead", "NET_DEAD"), ("iClosing", "CLOSING"),
        ("iHasCmdTurn", "HAS_CMD_TURN"), ("iNoEcho", "NOECHO"),
        ("portTelnet", "PORT_TELNET"), ("portAscii", "PORT_ASCII"), ("portBinary", "PORT_BINARY"),
        ("consoleUser", "CONSOLE_USER"),
        ("cIAC", "IAC"), ("cDONT", "DONT"), ("cDO", "DO"), ("cWONT", "WONT"), ("cWILL", "WILL"), ("cSB", "SB"),
        ("cSE", "SE"), ("cBREAK", "BREAK"), ("cIP", "IP"), ("cAYT", "AYT"), ("cAO", "AO"), ("cDM", "DM"),
        ("cGA", "GA"),
        ("optECHO", "TELOPT_ECHO"), ("optSGA", "TELOPT_SGA"), ("optTM", "TELOPT_TM"), ("optTTYPE", "TELOPT_TTYPE"),
        ("optNAWS", "TELOPT_NAWS"), ("optLINEMODE", "TELOPT_LINEMODE"),
        ("telqualIS", "TELQUAL_IS"), ("telqualSEND", "TELQUAL_SEND"),
        ("lmMODE", "LM_MODE"), ("lmSLC", "LM_SLC"),
        ("modeEDIT", "MODE_EDIT"), ("modeTRAPSIG", "MODE_TRAPSIG"), ("modeACK", "MODE_ACK"),
        ("slcNOSUPPORT", "SLC_NOSUPPORT"), ("slcCANTCHANGE", "SLC_CANTCHANGE"), ("slcVARIABLE", "SLC_VARIABLE"),
        ("slcDEFAULT", "SLC_DEFAULT"), ("slcLEVELBITS", "SLC_LEVELBITS"), ("slcACK", "SLC_ACK"), ("nSLC", "NSLC"),
        ("slcFUNC", "SLC_FUNC"), ("slcFLAGS", "SLC_FLAGS"), ("slcVALUE", "SLC_VALUE"),
    ]
    const_headers = ["src/comm.h", "lib/rc/rc.h", "lib/async/console_worker.h"]
    quick_n = 260
    thorough_n = 2600
    search_n = 120
    design_ref = "5/C13"
    technique = ("Lean 4 proof (buffer invariant, decoder/grammar simulation, induction over read/extract schedules) + "
                 "constants, the get_user_data space rule, statement orders and the COMPLETE transition table of copy_chars "
                 "(state x byte -> state, actions; obtained by running the real function on every byte in every decoder "
                 "configuration) regenerated from the source, with Lean bridging lemmas + model/implementation "
                 "correspondence on the real get_user_data/copy_chars/get_user_command/set_call/call_function_interactive/"
                 "console_worker_proc_posix/process_io")
    level_text = ("Lean 4 theorems about an executable model of src/comm.c input framing (copy_chars telnet decoder, "
                  "get_user_data space rule/compaction/discard, PORT_ASCII and PORT_BINARY paths, first/next_cmd_in_buf, "
                  "telnet_neg editing, add_console_line, the console worker's read/terminate/enqueue step, get_char()/input_to() mode switches with set_telnet_single_char, "
                  "reframe_single_char_input and NOECHO, the hold test that replaces the discard of typed-ahead commands, the "
                  "input-side snoop callback) for all byte streams and all read/extract/mode-switch schedules; "
                  "tied to the source by regenerated constants, guard numbers, statement orders, the exhaustive copy_chars "
                  "transition table (29 184 transitions compared in Lean), the small-scope exhaustive table of cmd_in_buf/"
                  "first_cmd_in_buf/next_cmd_in_buf (2046 configurations) and the editing/terminator byte sets, and by "
                  "running the real functions and the model on the same streams under exhaustive 2-splits and random "
                  "k-splits; the Lean oracle judges every real trace (incl. a stall clause for held reads and a clause for "
                  "lines typed ahead of a get_char() prompt: judgeMode); its "
                  "crash/index/ask/line-length clauses are a theorem on model traces (run_events_safe); telnet framing "
                  "(telnet_lines_delivered) needs only the side condition `no unfinished line longer than the discard "
                  "threshold`; PORT_BINARY framing (binary_bytes_delivered) is unconditional")
    level_note = ("trusted: Lean kernel; extract.py + the regexes in props/c13.py that read TS_* and the guards from "
                  "comm.c; the correspondence harness (recv/send interposed, apply renamed inside the included comm.c) and "
                  "its ccprobe/edprobe commands that produce the transition table; the table covers single steps from "
                  "canonical sub-negotiation buffers (that copy_chars is the fold of these steps is checked by the sampled "
                  "correspondence only); framing clauses of the oracle are proved over schedule runs (fRun/cRun), not over "
                  "the event list of the case-language run; single-character mode: memory safety, reframing = line framing "
                  "for well-formed line ends, no delivery-granularity clause; the `!` escape, snooping, ed and the LPC side "
                  "of process_input are not modelled")
    rule = ("quantifier coverage: streams = text, CR/LF/NUL combinations, IAC negotiations, complete / incomplete / "
            "oversized (97..300 byte) sub-negotiations, 8-bit data, lines of 600..4200 bytes (> 2 KiB buffer); "
            "segmentations = unsplit, ALL 2-splits of streams <= 28 bytes, random k-splits, 1-byte reads, reads on an "
            "empty socket; ports = telnet, ascii, binary, console; interleavings = extraction at the end / after each "
            "read / at random; callbacks = ok / LPC error / destruct at random ordinals; single-char mode switched on at "
            "a random read; get_char()/input_to() (with and without NOECHO) and serve steps at random points, 300..700 raw "
            "CR LF pairs typed ahead of a get_char (reframe room test at 680..684 pairs); key + NUL + 1..40 complete lines "
            "typed ahead in ONE read of a pending get_char().  "
            "cases = corpus + known-finding inputs + boundary list + seeded streams (text, CR/LF/NUL mixes, IAC "
            "negotiations, complete/incomplete/oversized sub-negotiations, 8-bit data, lines > 2 KiB) x segmentations "
            "(all 2-splits of short streams, random k-splits, 1-byte reads) x extraction interleavings on telnet, ascii, "
            "binary ports and the console; non-trivial = trace has >= 2 lines; distinct = distinct canonical trace")
    not_covered = ["single-character mode: delivery granularity is outside the statement (memory safety, mode switches, "
                   "reframing and - by the oracle clause judgeMode - the lines typed ahead of a get_char are covered; the "
                   "clause is not proved for model traces)",
                   "the `!` shell escape of process_user_command (WAS_SINGLE_CHAR), ed, termios / console get_char",
                   "snooper callbacks made from INSIDE copy_chars through add_message() (echo, telnet replies): they always "
                   "succeed in the harness; a snooper error / destruct there is an unrepaired defect recorded in notes/C13.md",
                   "what the LPC user object does with the line after process_input",
                   "Windows IOCP completion path of get_user_data (evt != NULL); recv() errno paths other than EWOULDBLOCK",
                   "console worker: thread scheduling, select() timeouts, queue overflow policy (the worker procedure, the line "
                   "queue and the process_io console branch are run for real, single-threaded, one read per blob)"]

    # ---- tie: numbers that are not header constants ---------------------
    def gen_extra(self, ctx, bdir):
        src = open(os.path.join(E.REPO, "src/comm.c"), errors="replace").read()
        out = []

        def need(name, pat, conv=int, count=None):
            ms = re.findall(pat, src)
            if not ms or (count is not None and len(ms) != count) or len(set(ms)) != 1:
                raise X.TieBroken("guard:" + name, "cannot locate %s in src/comm.c (pattern %r matched %r)" % (name, pat, ms))
            return conv(ms[0])

        for n in ("DATA", "IAC", "WILL", "WONT", "DO", "DONT", "SB", "SB_IAC"):
            v = need("TS_" + n, r"#define\s+TS_%s\s+(\d+)" % n)
            out.append("/-- C: `TS_%s` (src/comm.c) -/\ndef ts%s : Nat := %d" % (n, n.replace("_", ""), v))
        v = need("TS_STATE_MASK", r"#define\s+TS_STATE_MASK\s+(0x[0-9a-fA-F]+)", lambda s: int(s, 16))
        out.append("/-- C: `TS_STATE_MASK` -/\ndef tsStateMask : Nat := %d" % v)
        v = need("TS_CR_SEEN", r"#define\s+TS_CR_SEEN\s+(0x[0-9a-fA-F]+)", lambda s: int(s, 16))
        out.append("/-- C: `TS_CR_SEEN` -/\ndef tsCrSeen : Nat := %d" % v)
        # get_user_data: the space rule exactly as coded
        v = need("space rule divisor", r"text_space = \(MAX_TEXT - \(int\)ip->text_end - 1\) / (\d+);", count=1)
        out.append("/-- C: get_user_data `text_space = (MAX_TEXT - (int)ip->text_end - 1) / N` -/\ndef spaceDiv : Nat := %d" % v)
        v = need("space rule divisor after compaction", r"text_space = \(MAX_TEXT - ip->text_end - 1\) / (\d+);", count=1)
        out.append("/-- C: get_user_data, after compaction `text_space = (MAX_TEXT - ip->text_end - 1) / N` -/\ndef spaceDiv2 : Nat := %d" % v)
        v = need("compaction threshold", r"if \(text_space < MAX_TEXT / (\d+)\)", count=2)
        out.append("/-- C: get_user_data `if (text_space < MAX_TEXT / N)` (both tests) -/\ndef compactDiv : Nat := %d" % v)
        v = need("space after discard", r"text_space = MAX_TEXT / (\d+);", count=1)
        out.append("/-- C: get_user_data, after discard `text_space = MAX_TEXT / N` -/\ndef discardSpaceDiv : Nat := %d" % v)
        ms = re.findall(r"if \(\(MAX_TEXT - len - 1\) / (\d+) < MAX_TEXT / (\d+) && !\(evt && evt->buffer\) && cmd_in_buf \(ip\)\)", src)
        if len(ms) != 1:
            raise X.TieBroken("guard:hold test", "cannot locate the hold test of get_user_data `if ((MAX_TEXT - len - 1) / N < MAX_TEXT / M && !(evt && evt->buffer) && cmd_in_buf (ip))` (matched %r)" % (ms,))
        out.append("/-- C: get_user_data hold test `(MAX_TEXT - len - 1) / N < MAX_TEXT / M && .. && cmd_in_buf (ip)` -/\ndef holdDiv : Nat := %s\ndef holdCmpDiv : Nat := %s" % ms[0])
        v = need("cut threshold", r"if \(ip->text_end > MAX_TEXT - (\d+)\)", count=1)
        out.append("/-- C: first_cmd_in_buf `if (ip->text_end > MAX_TEXT - N)` -/\ndef cutMargin : Nat := %d" % v)
        v = need("ascii space", r"text_space = MAX_TEXT - ip->text_end - (\d+);", count=1)
        out.append("/-- C: get_user_data PORT_ASCII/BINARY `text_space = MAX_TEXT - ip->text_end - N` -/\ndef asciiReserve : Nat := %d" % v)
        ms = re.findall(r"if \(to \+ (\d+) >= MAX_TEXT - (\d+)\)\s*\n\s*return;", src)
        if len(ms) != 1:
            raise X.TieBroken("guard:reframe room test", "cannot locate `if (to + N >= MAX_TEXT - M) return;` of reframe_single_char_input (matched %r)" % (ms,))
        out.append("/-- C: reframe_single_char_input `if (to + N >= MAX_TEXT - M) return;` -/\ndef reframeNeed : Nat := %s\ndef reframeReserve : Nat := %s" % ms[0])
        # the harness builds its interactive_t by hand, field by field like new_interactive(): a field that
        # new_interactive() starts to initialise (somebody else's fix) must be added to harness/c13/c13.c: make_user
        a = src.find('DXALLOC (sizeof (interactive_t), TAG_INTERACTIVE, "new_user_handler")')
        b = src.find("num_user++;", a)
        if a < 0 or b < 0:
            raise X.TieBroken("harness:new_interactive", "cannot locate new_interactive() in src/comm.c")
        fields = set(re.findall(r"master_ob->interactive->(\w+)", src[a:b])) | set(re.findall(r"all_users\[i\]->(\w+)", src[a:b]))
        known_fields = {"default_err_message", "ob", "input_to", "iflags", "text", "text_end", "text_start", "snoop_on", "snoop_by",
                        "last_time", "trace_level", "trace_prefix", "ed_buffer", "message_producer", "message_consumer",
                        "message_length", "state", "out_of_band", "fd"}
        if fields - known_fields:
            raise X.TieBroken("harness:new_interactive", "new_interactive() initialises field(s) %s that harness/c13/c13.c make_user() "
                              "does not know (0xA5-filled there): add them to make_user()" % sorted(fields - known_fields))
        # the harness tells add_message()'s own snoop forwarding (output side) from get_user_data()'s by the NEOLITH_VERIF
        # hook call (phase 1) in front of it: every receive_snoop() call site but the input-side one must have it
        sites = [(m.start(), m.group(1)) for m in re.finditer(r"receive_snoop \((\w+), ip->snoop_by->ob\);", src)]
        if [a for _, a in sites].count("buf") != 1:
            raise X.TieBroken("hook:output snoop", "expected exactly one input-side `receive_snoop (buf, ip->snoop_by->ob)` in src/comm.c, found call sites %r" % ([a for _, a in sites],))
        for pos, arg in sites:
            if arg != "buf" and not re.search(r"verif_add_message_hook \(who, %s, [01], 1\);" % re.escape(arg), src[max(0, pos - 500):pos]):
                raise X.TieBroken("hook:output snoop", "the receive_snoop (%s, ..) call of src/comm.c is not announced by verif_add_message_hook (.., 1): "
                                  "harness/c13/c13.c would take it for the input-side snoop callback" % arg)
        # receive_snoop(): under safe_apply (4a7340a: a snooper error is reported, the caller goes on) or plain apply
        # (the error unwinds through the caller); the model follows whichever the source has
        ms = re.findall(r"static void receive_snoop \(char \*buf, object_t \* snooper\) \{.*?\n  (safe_apply|apply) \(APPLY_RECEIVE_SNOOP, snooper, 1, ORIGIN_DRIVER\);", src, re.S)
        if len(ms) != 1:
            raise X.TieBroken("guard:receive_snoop apply", "cannot tell whether receive_snoop() of src/comm.c calls the snooper through apply or safe_apply (matched %r)" % (ms,))
        out.append("/-- C: receive_snoop() calls the snooper's receive_snoop() through safe_apply (errors are caught there) -/\ndef snoopSafeApply : Bool := %s" % ("true" if ms[0] == "safe_apply" else "false"))
        wsrc = open(os.path.join(E.REPO, "lib/async/console_worker.c"), errors="replace").read()
        ms = re.findall(r"read\(STDIN_FILENO, line_buffer, CONSOLE_MAX_LINE - (\d+)\)", wsrc)
        if len(ms) != 1 or wsrc.count("char line_buffer[CONSOLE_MAX_LINE];") < 1 or wsrc.count("line_buffer[bytes_read] = '\\0';") != 1 \
                or wsrc.count("async_queue_enqueue(cctx->line_queue, line_buffer, bytes_read + 1)") != 1 \
                or src.count("async_queue_dequeue(g_console_queue, line_buffer, sizeof(line_buffer), &line_length)") != 1:
            raise X.TieBroken("guard:console worker read", "cannot locate the read / terminator / enqueue / dequeue statements of the console path (read sizes matched: %r)" % (ms,))
        out.append("/-- C: lib/async/console_worker.c `read (STDIN_FILENO, line_buffer, CONSOLE_MAX_LINE - N)` -/\ndef consoleReadReserve : Nat := %s" % ms[0])
        need("console guard", r"if \(ip->text_end \+ len >= (MAX_TEXT)(?: && !cmd_in_buf \(ip\))?\)", str, count=2)
        # statement order (T4): the PORT_ASCII line loop and add_console_line's checks, as the order of named
        # statements in the source text; the model states the order it implements and a bridging lemma compares
        def order(name, region_start, region_end, stmts):
            a = src.find(region_start)
            b = src.find(region_end, a + 1) if a >= 0 else -1
            if a < 0 or b < 0:
                raise X.TieBroken("order:" + name, "cannot locate the %s region in src/comm.c" % name)
            region = src[a:b]
            pos = []
            for label, text in stmts:
                i = region.find(text)
                if i < 0 or region.find(text, i + 1) >= 0:
                    raise X.TieBroken("order:" + name, "statement %r of %s missing or ambiguous" % (text, name))
                pos.append((i, label))
            return [l for _, l in sorted(pos)]

        o1 = order("ascii loop", "while ((nl = memchr (p, '\\n', ip->text_end - ip->text_start)))", "case PORT_BINARY:",
                   [("commitStart", "ip->text_start = (nl + 1) - ip->text;"), ("storeNul", "*nl = 0;"),
                    ("callback", "apply (APPLY_PROCESS_INPUT, ip->ob, 1, ORIGIN_DRIVER);"),
                    ("revalidate", "if (user_ob->interactive != ip)"), ("resetTest", "if (ip->text_start == ip->text_end)"),
                    ("advance", "p = nl + 1;"), ("moveRest", "memmove (ip->text, ip->text + ip->text_start, ip->text_end - ip->text_start);")])
        out.append("/-- C: order of the statements of the PORT_ASCII line loop of get_user_data -/\ndef asciiLoopOrder : List String := [%s]"
                   % ", ".join('"%s"' % x for x in o1))
        o2 = order("add_console_line", "static void add_console_line (", "/* Convert newlines to null terminators",
                   [("emptyTest", "if (len <= 0)"), ("makeRoomTest", "if (ip->text_end + len >= MAX_TEXT && !cmd_in_buf (ip))"),
                    ("discard", "ip->text_end = 0;"), ("fitTest", "if (ip->text_end + len >= MAX_TEXT)\n")])
        out.append("/-- C: order of the space checks of add_console_line -/\ndef consoleCheckOrder : List String := [%s]"
                   % ", ".join('"%s"' % x for x in o2))
        o3 = order("get_user_data telnet store", "case PORT_TELNET:\n          /*\n           * Process TELNET protocol", "case PORT_ASCII:\n          {",
                   [("copyChars", "size_t copied = copy_chars ("), ("deadTest", "if (copied == (size_t) -1)"),
                    ("advanceEnd", "ip->text_end += copied;"), ("terminator", "ip->text[ip->text_end] = '\\0';"),
                    ("cmdFlag", "if (cmd_in_buf (ip))"), ("snoop", "receive_snoop (buf, ip->snoop_by->ob);")])
        out.append("/-- C: order of the statements of get_user_data's PORT_TELNET branch -/\ndef telnetStoreOrder : List String := [%s]"
                   % ", ".join('"%s"' % x for x in o3))
        cfg = open(os.path.join(bdir, "config.h"), errors="replace").read()
        pk = re.search(r'#define PACKAGE "([^"]*)"', cfg)
        ve = re.search(r'#define VERSION "([^"]*)"', cfg)
        if not pk or not ve:
            raise X.TieBroken("const:PACKAGE/VERSION", "config.h lacks PACKAGE/VERSION")
        banner = "\n[%s-%s] \n" % (pk.group(1), ve.group(1))
        out.append("/-- C: AYT answer `add_vmessage (\"\\n[%%s-%%s] \\n\", PACKAGE, VERSION)` as bytes -/\ndef aytBanner : List Nat := [%s]"
                   % ", ".join(str(b) for b in banner.encode()))
        out.append(self.cc_table(ctx))
        return "\n".join(out)

    # ---- tie: the transition table of copy_chars, read off the real function ------------------------------
    def cc_configs(self):
        """(ts, cr, single, sb_pos, fill, sb_buf prefix) - every value of `state & TS_STATE_MASK` (0..15: the eight
        TS_* codes and the eight values no `case` handles) x TS_CR_SEEN x SINGLE_CHAR; sub-negotiation states also with
        sb_pos = SB_SIZE-1 / SB_SIZE, TS_SB_IAC also with every kind of payload the IAC SE handler distinguishes"""
        tt_is = bytes([TT, 0]) + b"xt"
        slc = bytes([LM, 3, 1, 2, 3, 2, 0x82, 5, 200, 1, 65, 3, 3, 5, 5, 0, 1, 6, 2, 65, 7, 1, 127, 120, 2, 3, 0, 9, 0, 8, 2, 4, 9, 9])
        se = [("%d" % len(x), 0, x) for x in (
            tt_is, bytes([TT, 1]), bytes([TT]), bytes([NAWS, 0, 80, 0, 24]), bytes([NAWS, 1]), bytes([LM, 1, 3]), bytes([LM, 1, 4]),
            slc, slc[:5], slc[:4], bytes([LM, 9, 1]), bytes([70, 65, 66]), bytes([70, 65, 0, 66]))]
        se += [("S", 65, tt_is[:2]), ("S", 66, b"")]
        C = []
        for ts in range(16):
            for cr in (0, 1):
                for single in (0, 1):
                    vs = [("0", 0, b"")]
                    if ts == 1:
                        vs.append(("3", 0, bytes([1, 2, 3])))
                    if ts in (6, 7):
                        vs += [("S-1", 65, b""), ("S", 65, b"")]
                    if ts == 7 and cr == 0:
                        vs += se
                    for sbpos, fill, pre in vs:
                        C.append((ts, cr, single, sbpos, fill, pre))
        return C

    def cc_table(self, ctx):
        try:
            self.exe = E.compile_harness("c13", [os.path.join(E.VERIF, "harness/c13/c13.c"), os.path.join(E.VERIF, "harness/c13/c13w.c")], exclude_objs=("comm.c.o",))
        except E.BuildError as e:
            raise X.TieBroken("cc-table", "the harness does not build against the source: %s" % str(e)[-400:])
        rd = os.path.join(ctx.rundir, "cctable")
        conf = E.make_mudlib(rd)
        cases = [E.Case("cc%d" % i, ["port telnet", "ccprobe %d %d %d %s %d %s" % (ts, cr, single, sbpos, fill, hx(pre))])
                 for i, (ts, cr, single, sbpos, fill, pre) in enumerate(self.cc_configs())]
        cases.append(E.Case("ed", ["port telnet", "edprobe"]))
        cases.append(E.Case("xp", ["port telnet", "xprobe"]))
        res = E.run_harness(self.exe, conf, cases, rd)
        edit_txt = self.edit_bytes(res.get("ed", [])) + "\n" + self.x_table(res.get("xp", []))
        cases.pop()
        cases.pop()

        def sym(vals, b):
            return [256 if v == b else v for v in vals]

        def lst(xs):
            return "[" + ", ".join(str(x) for x in xs) + "]"
        cfgs = []
        for c in cases:
            lines = res.get(c.id, [])
            cfg = [l.split() for l in lines if l.startswith("cfg ")]
            rs = [l.split() for l in lines if l.startswith("r ")]
            if len(cfg) != 1 or len(rs) != 256 or any(len(r) != 10 for r in rs) or any(l.startswith(("crash", "sanitizer")) for l in lines):
                raise X.TieBroken("cc-table", "copy_chars transition probe failed for `%s`: %s" % (c.lines[1], " / ".join(lines[-3:])[:400]))
            rows = []
            for r in rs:
                b = int(r[1])
                unh = lambda h: [] if h == "-" else list(bytes.fromhex(h))
                sbd = [] if r[8] == "-" else [tuple(int(x) for x in d.split(":")) for d in r[8].split(",")]
                cbs = []
                if r[9] != "-":
                    for cb in r[9].split(","):
                        f = cb.split(":")
                        cbs.append((2, [int(f[1]), int(f[2])]) if f[0] == "n" else ({"t": 0, "s": 1}[f[0]], unh(f[1])))
                key = (int(r[2]), int(r[3]), int(r[4]), int(r[5]), tuple(sym(unh(r[6]), b)), tuple(sym(unh(r[7]), b)),
                       tuple((i, 256 if v == b else v) for i, v in sbd), tuple((k, tuple(a)) for k, a in cbs))
                if rows and rows[-1][2] == key and rows[-1][1] == b - 1:
                    rows[-1][1] = b
                else:
                    rows.append([b, b, key])
            t = cfg[0]
            pre = [] if t[6] == "-" else list(bytes.fromhex(t[6]))
            rtxt = ",\n    ".join(
                "{ lo := %d, hi := %d, st := %d, sbPos := %d, fl := %d, lm := %d, out := %s, tx := %s, sbd := %s, cbs := %s }"
                % (lo, hi, k[0], k[1], k[2], k[3], lst(k[4]), lst(k[5]), lst("(%d, %d)" % d for d in k[6]),
                   lst("(%d, %s)" % (kk, lst(a)) for kk, a in k[7])) for lo, hi, k in rows)
            cfgs.append("  { ts := %s, cr := %s, single := %s, sbPos := %s, sbFill := %s, sbPre := %s, rows := [\n    %s] }"
                        % (t[1], t[2], t[3], t[4], t[5], lst(pre), rtxt))
        return ("""/-- one row of the transition table of copy_chars: input bytes lo..hi, in the configuration of the enclosing `CcCfg`,
    leave `ip->state = st`, `sb_pos = sbPos`, iflags (masked) `fl`, `telnet_sb_lm_mode[4] = lm`, store `out`, send `tx`,
    change the listed `sb_buf` cells and make the callbacks `cbs` (0 terminal_type, 1 telnet_suboption, 2 window_size);
    the value 256 stands for the input byte itself -/
structure CcRow where
  lo : Nat
  hi : Nat
  st : Nat
  sbPos : Nat
  fl : Nat
  lm : Nat
  out : List Nat
  tx : List Nat
  sbd : List (Nat × Nat)
  cbs : List (Nat × List Nat)
/-- a decoder configuration: `state & TS_STATE_MASK`, TS_CR_SEEN, SINGLE_CHAR, sb_pos, sb_buf = sbPre padded with sbFill up to
    sb_pos (zero behind), `telnet_sb_lm_mode[4] = MODE_ACK` -/
structure CcCfg where
  ts : Nat
  cr : Nat
  single : Nat
  sbPos : Nat
  sbFill : Nat
  sbPre : List Nat
  rows : List CcRow
/-- C: the transition table of `copy_chars`, obtained by running the real function on every byte value in every
    configuration (harness/c13/c13.c `ccprobe`) -/
def ccTable : List CcCfg := [
""" + ",\n".join(cfgs) + "]\n" + edit_txt)

    def x_table(self, lines):
        """small-scope exhaustive behaviour of the real cmd_in_buf / first_cmd_in_buf / next_cmd_in_buf (harness `xprobe`)"""
        rs = [l.split()[1:] for l in lines if l.startswith("x ")]
        if len(rs) < 2000 or any(len(r) != 14 or not all(x.isdigit() for x in r) for r in rs) or \
                any(l.startswith(("crash", "sanitizer")) for l in lines):
            raise X.TieBroken("x-table", "xprobe failed: %d rows; %s" % (len(rs), " / ".join(lines[-3:])[:300]))
        widths = [1, 3, 5, 3, 3, 1, 3, 3, 3, 16, 3, 3, 3, 16]
        codes = []
        for r in rs:
            c, sh = 0, 0
            for v, w in zip(r, widths):
                v = int(v)
                if v >= (1 << w):
                    raise X.TieBroken("x-table", "xprobe value %d does not fit its %d-bit field: %s" % (v, w, " ".join(r)))
                c |= v << sh
                sh += w
            codes.append(c)
        chunks = [codes[i:i + 128] for i in range(0, len(codes), 128)]
        out = ["/-- C: chunk %d of xTable -/\ndef xTable%d : List Nat := [%s]" % (i, i, ", ".join(map(str, ch))) for i, ch in enumerate(chunks)]
        out.append("/-- C: what the real `cmd_in_buf`, `first_cmd_in_buf` and (when a command was found) `next_cmd_in_buf` do on every buffer\n"
                   "    over {NUL, 'a'} of length L <= 5 (then one NUL, then 0xA5 garbage), every text_start <= text_end <= L, line mode and\n"
                   "    SINGLE_CHAR.  One number per configuration, bit fields from the low end: single:1 L:3 bits:5 start:3 end:3 cmd_in_buf:1\n"
                   "    ret+1:3 start':3 end':3 text':16 strlen(ret):3 start'':3 end'':3 text'':16 (text codes: first 8 bytes as base-4 digits,\n"
                   "    0 = NUL, 1 = 'a', 2 = 0xA5, 3 = other) -/\n"
                   "def xTable : List Nat := " + " ++ ".join("xTable%d" % i for i in range(len(chunks))))
        return "\n".join(out)

    def edit_bytes(self, lines):
        """which bytes telnet_neg treats as erase-previous-character, which bytes add_console_line turns into the
        command terminator - read off the real functions for every byte value (harness `edprobe`)"""
        rs = [l.split() for l in lines if l.startswith("e ")]
        if len(rs) != 255 or any(len(r) != 5 for r in rs):
            raise X.TieBroken("edit-bytes", "edprobe failed: %s" % " / ".join(lines[-3:])[:300])
        edit, nul = [], []
        for r in rs:
            b = int(r[1])
            bb = "%02x" % b
            if (r[2], r[3]) == ("61" + "62" + bb + "63", bb + "63"):
                pass
            elif (r[2], r[3]) == ("6163", "63"):
                edit.append(b)
            else:
                raise X.TieBroken("edit-bytes", "telnet_neg treats byte %d in a way the model does not know: %s %s" % (b, r[2], r[3]))
            if r[4] == "61" + bb + "63":
                pass
            elif r[4] == "610063":
                nul.append(b)
            else:
                raise X.TieBroken("edit-bytes", "add_console_line stores byte %d as %s" % (b, r[4]))
        return ("/-- C: the bytes for which the real `telnet_neg` removes the previous character (every other non-NUL byte was observed\n"
                "    to be copied verbatim) -/\ndef tnEditBytes : List Nat := [%s]\n"
                "/-- C: the bytes the real `add_console_line` converts into the command terminator NUL (every other byte verbatim) -/\n"
                "def consoleNulBytes : List Nat := [%s]" % (", ".join(map(str, edit)), ", ".join(map(str, nul))))

    def prepare(self, ctx):
        if not getattr(self, "exe", None):      # normally built by gen_extra (cc_table)
            self.exe = E.compile_harness("c13", [os.path.join(E.VERIF, "harness/c13/c13.c"), os.path.join(E.VERIF, "harness/c13/c13w.c")], exclude_objs=("comm.c.o",))
        self.conf = E.make_mudlib(ctx.rundir)

    def run_impl(self, ctx, cases):
        return E.run_harness(self.exe, self.conf, cases, ctx.rundir)

    # ---- generators ---------------------------------------------------------
    WORDS = [b"look", b"say hi", b"n", b"get all", b"x", b"", b"emote grins", b"'hello there", b"who", b"i"]

    def g_text(self, rng, lo=1, hi=12):
        n = rng.range(lo, hi)
        return bytes(rng.choice(b"abcdefghijklmnopqrstuvwxyz ,.!?0123456789") for _ in range(n))

    def g_eol(self, rng):
        return rng.weighted([(b"\r\n", 12), (b"\r\0", 3), (b"\r", 1), (b"\n", 1), (b"\0", 2), (b"\r\r\n", 1), (b"\n\r", 1)])

    def g_sb(self, rng):
        k = rng.weighted([("ttype", 4), ("naws", 4), ("lmmode", 2), ("slc", 4), ("other", 3), ("empty", 2), ("ttype-short", 2),
                          ("over", 3), ("incomplete", 2), ("iacx", 2), ("over-iaciac", 2)])
        if k == "ttype":
            return bytes([IAC, SB, TT, 0]) + rng.choice([b"xterm", b"vt100", b"ansi", b"x" * 40]) + bytes([IAC, SE])
        if k == "ttype-short":
            return bytes([IAC, SB, TT]) + bytes([0] * rng.below(2)) + bytes([IAC, SE])
        if k == "naws":
            body = bytes(rng.choice([0, 1, 24, 80, 132, 255, 10]) for _ in range(rng.choice([4, 4, 4, 2, 0, 5])))
            return bytes([IAC, SB, NAWS]) + body.replace(b"\xff", b"\xff\xff") + bytes([IAC, SE])
        if k == "lmmode":
            return bytes([IAC, SB, LM, 1, rng.choice([0, 1, 3, 4, 7])]) + bytes([IAC, SE])
        if k == "slc":
            body = b""
            for _ in range(rng.range(0, 8)):
                body += bytes([rng.choice([0, 1, 3, 8, 10, 18, 19, 30, 200]), rng.choice([0, 1, 2, 3, 0x81, 0x82, 0x43, 0x62]),
                               rng.choice([0, 3, 8, 10, 13, 28, 31, 32, 65, 127, 128, 254])])
            body += bytes(rng.below(3))
            return bytes([IAC, SB, LM, 3]) + body.replace(b"\xff", b"\xff\xff") + bytes([IAC, SE])
        if k == "other":
            body = bytes(rng.choice([0, 1, 65, 66, 10, 13, 240, 250]) for _ in range(rng.range(0, 12)))
            return bytes([IAC, SB, rng.choice([5, 32, 39, 70, 200])]) + body + bytes([IAC, SE])
        if k == "empty":
            return bytes([IAC, SB, IAC, SE])
        if k == "over":
            n = rng.choice([97, 98, 99, 100, 101, 102, 150, 300])
            return bytes([IAC, SB]) + bytes(rng.choice([65, 66, 24, 31, 34, 1, 3]) for _ in range(n)) + bytes([IAC, SE])
        if k == "over-iaciac":
            n = rng.choice([98, 99, 100, 101, 120])
            return bytes([IAC, SB]) + b"A" * n + bytes([IAC, IAC, SE]) + self.g_text(rng) + bytes([IAC, SE])
        if k == "incomplete":
            return bytes([IAC, SB, rng.choice([TT, NAWS, LM, 70])]) + self.g_text(rng, 0, 6)
        return bytes([IAC, SB, 70, 65, IAC, rng.choice([1, 65, 250, 251]), 66, SE]) + self.g_text(rng, 0, 3) + bytes([IAC, SE])

    def g_telnet_stream(self, rng, pieces, flavour):
        out = b""
        for _ in range(pieces):
            if flavour == "text":
                k = rng.weighted([("word", 10), ("edit", 4), ("eol", 10), ("neg", 2), ("iaciac", 1), ("hi", 1)])
            elif flavour == "telnet":
                k = rng.weighted([("word", 5), ("edit", 2), ("eol", 6), ("neg", 6), ("cmd", 4), ("sb", 6), ("iaciac", 2), ("hi", 2),
                                  ("iac", 1)])
            else:  # malformed
                k = rng.weighted([("word", 2), ("eol", 3), ("neg", 2), ("cmd", 2), ("sb", 3), ("iaciac", 1), ("hi", 2), ("iac", 2),
                                  ("rand", 6), ("crs", 2)])
            if k == "word":
                out += rng.choice(self.WORDS) if rng.chance(1, 2) else self.g_text(rng)
            elif k == "edit":
                out += self.g_text(rng, 0, 4) + bytes(rng.choice([8, 127]) for _ in range(rng.range(1, 6))) + self.g_text(rng, 0, 3)
            elif k == "eol":
                out += self.g_eol(rng)
            elif k == "neg":
                out += bytes([IAC, rng.choice([WILL, WONT, DO, DONT]), rng.choice([TT, NAWS, LM, SGA, TM, ECHO, 0, 255, 13, 10, 99])])
            elif k == "cmd":
                out += bytes([IAC, rng.choice([BRK, IP, AYT, AO, 241, 249, 242, 0, 13, 10, 65, SE])])
            elif k == "sb":
                out += self.g_sb(rng)
            elif k == "iaciac":
                out += bytes([IAC, IAC])
            elif k == "hi":
                out += bytes(rng.range(128, 254) for _ in range(rng.range(1, 6)))
            elif k == "iac":
                out += bytes([IAC])
            elif k == "crs":
                out += bytes(rng.choice([13, 10, 0, 13, 255]) for _ in range(rng.range(1, 6)))
            else:
                out += bytes(rng.below(256) for _ in range(rng.range(1, 8)))
        return out

    def g_plain_stream(self, rng, pieces):
        out = b""
        for _ in range(pieces):
            k = rng.weighted([("word", 8), ("lf", 8), ("crlf", 3), ("nul", 1), ("hi", 2), ("bs", 1), ("rand", 2)])
            out += {"word": lambda: self.g_text(rng), "lf": lambda: b"\n", "crlf": lambda: b"\r\n", "nul": lambda: b"\0",
                    "hi": lambda: bytes(rng.range(128, 255) for _ in range(rng.range(1, 4))), "bs": lambda: b"\x08\x7f",
                    "rand": lambda: bytes(rng.below(256) for _ in range(rng.range(1, 6)))}[k]()
        return out

    def segment(self, rng, stream, how):
        """list of chunks whose concatenation is `stream`"""
        n = len(stream)
        if how == "one" or n <= 1:
            return [stream] if n else []
        if how == "bytes":
            return [stream[i:i + 1] for i in range(n)]
        k = min(n - 1, rng.range(1, 6) if how == "few" else rng.range(n // 8 + 1, n // 2 + 1))
        cuts = sorted(set(rng.range(1, n - 1) for _ in range(k)))
        parts, a = [], 0
        for c in cuts + [n]:
            parts.append(stream[a:c])
            a = c
        return [p for p in parts if p]

    def mk_case(self, cid, port, chunks, rng=None, inter="end", origin="generated", single_at=None, console=False, cbs=()):
        """inter: 'end' (finish at the end), 'each' (drain after each chunk), 'rand' (random extract/drain/nothing)
        cbs: (ordinal, 'err'|'dest') outcomes of the callbacks into the user object"""
        lines = ["cb %d %s" % (k, w) for k, w in cbs] + ["port " + port]
        for i, c in enumerate(chunks):
            if single_at is not None and i == single_at:
                lines.append("iflag single")
            if single_at is not None and rng is not None and i > single_at and rng.chance(1, 3):
                lines.append(rng.choice(["iflag line", "iflag single"]))
            lines.append(("line " if console else "chunk ") + hx(c))
            if rng is not None and not console and rng.chance(1, 12):
                lines.append("read")          # a read event with (probably) nothing in the socket
            if port in ("telnet", "console"):
                if inter == "each":
                    lines.append("drain")
                elif inter == "rand" and rng is not None:
                    k = rng.weighted([("none", 3), ("extract", 3), ("drain", 2)])
                    if k != "none":
                        lines.append(k)
        lines.append("drain" if console else "finish")
        if port in ("telnet", "console"):
            lines.append("drain")
        return E.Case(cid, lines, {"origin": origin, "port": port})

    def boundary(self):
        B = []

        def add(name, port, chunks, **kw):
            B.append(self.mk_case("b-" + name, port, chunks, origin="boundary", **kw))
        crlf = b"\r\n"
        # witnesses of the repaired defects (reverting a fix must show up here)
        add("ascii-partial-kept", "ascii", [b"hel", b"lo\n"])
        add("ascii-partial-kept2", "ascii", [b"a\nbc", b"d\n", b"\n"])
        add("ascii-line-2047", "ascii", [b"x" * 2047, b"y\nz\n"])
        add("ascii-line-2046", "ascii", [b"x" * 2046, b"\nz\n"])
        add("ascii-line-5000-bytes", "ascii", [b"q" * 1000] * 5 + [b"\nok\n"])
        add("ascii-many-lines", "ascii", [b"a\n" * 900 + b"tail", b"-end\n"])
        add("sb-terminator-at-100", "telnet", [bytes([IAC, SB]) + b"A" * 100 + bytes([IAC, SE]) + b"ok" + crlf])
        add("sb-terminator-at-99", "telnet", [bytes([IAC, SB]) + b"A" * 99 + bytes([IAC, SE]) + b"ok" + crlf])
        add("sb-300", "telnet", [bytes([IAC, SB]) + b"B" * 300 + bytes([IAC, SE]) + b"ok" + crlf])
        add("sb-empty-ttype-fresh", "telnet", [bytes([IAC, SB, TT, IAC, SE])])
        add("sb-stale-after-long", "telnet", [bytes([IAC, SB]) + b"C" * 100 + bytes([IAC, SE, IAC, SB, TT, IAC, SE, IAC, SB, NAWS, 0, IAC, SE])])
        add("ayt-then-negotiation", "telnet", [bytes([IAC, AYT, IAC, WILL, TT]) + b"ab" + crlf])
        add("two-byte-commands", "telnet", [bytes([IAC, BRK]) + b"a" + bytes([IAC, IP]) + b"b" + bytes([IAC, AO]) + b"c" + bytes([IAC, AYT]) + b"d" + crlf])
        add("sb-full-quoted-iac-then-se", "telnet", [bytes([IAC, SB]) + b"A" * 100 + bytes([IAC, IAC, SE]) + b"secret" + bytes([IAC, SE]) + crlf])
        # callbacks that fail: what is committed before the callback runs
        tt = bytes([IAC, SB, TT, 0]) + b"xterm" + bytes([IAC, SE])
        naws = bytes([IAC, SB, NAWS, 0, 80, 0, 24, IAC, SE])
        add("cb-ascii-err-first-of-two", "ascii", [b"one\ntwo\nthr", b"ee\nfour\n"], cbs=[(0, "err")])
        add("cb-ascii-err-each", "ascii", [b"a\nb\nc\nd\n", b"e\n", b"f\ng"], cbs=[(0, "err"), (1, "err"), (2, "err"), (4, "err")])
        add("cb-ascii-err-last-line", "ascii", [b"one\ntwo\n", b"three\n"], cbs=[(1, "err")])
        add("cb-ascii-err-full-buffer", "ascii", [b"a\n" + b"b\n" * 1022 + b"c", b"d\nlast\n"], cbs=[(0, "err")])
        add("cb-ascii-err-then-long", "ascii", [b"a\nb\n" + b"k" * 2043, b"kk\nz\n"], cbs=[(0, "err")])
        add("cb-ascii-dest", "ascii", [b"one\ntwo\n", b"three\n"], cbs=[(0, "dest")])
        add("cb-binary-err-dest", "binary", [b"abc", b"def", b"ghi"], cbs=[(0, "err"), (2, "dest")])
        add("cb-telnet-ttype-err", "telnet", [b"look" + crlf + tt + b"north" + crlf, b"south" + crlf], cbs=[(0, "err")])
        add("cb-telnet-naws-err-split", "telnet", [b"lo", b"ok" + crlf + naws[:5], naws[5:] + b"n" + crlf + tt + b"s" + crlf], cbs=[(0, "err"), (1, "err")])
        add("cb-telnet-dest", "telnet", [b"look" + crlf + tt + b"north" + crlf, b"south" + crlf], cbs=[(0, "dest")])
        add("cb-telnet-subopt-dest-second", "telnet", [tt + bytes([IAC, SB, 70, 65, IAC, SE]) + b"x" + crlf], cbs=[(1, "dest")])
        # read events with nothing in the socket (EWOULDBLOCK), also right after an aborted ascii read and in the
        # compaction / discard range of the telnet port
        B.append(E.Case("b-wouldblock-telnet", ["port telnet", "read", "chunk " + hx(b"a\r"), "read", "chunk " + hx(b"\nb\r\n"), "read", "drain", "read"],
                        {"origin": "boundary"}))
        B.append(E.Case("b-wouldblock-ascii-after-abort", ["cb 0 err", "port ascii", "chunk " + hx(b"a\nb\nc"), "read", "read", "chunk " + hx(b"\n"), "read"],
                        {"origin": "boundary"}))
        B.append(E.Case("b-wouldblock-telnet-full", ["port telnet", "chunk " + hx(b"z" * 682), "chunk " + hx(b"z" * 682), "chunk " + hx(b"z" * 682), "read", "read", "chunk " + hx(b"\r\nq\r\n"), "drain"],
                        {"origin": "boundary"}))
        B.append(E.Case("b-wouldblock-binary-console", ["port binary", "read", "chunk 00", "read"], {"origin": "boundary"}))
        # CR / LF / NUL combinations across reads
        add("cr-lf-split", "telnet", [b"hello\r", b"\nworld\r", b"\0x\r", b"\r\ny\r", b"z\r\n"])
        add("bare-lf-nul", "telnet", [b"a\nb\0c\0\0d" + crlf + crlf + b"\0" + crlf])
        add("cr-iac-lf", "telnet", [b"a\r" + bytes([IAC, 241]) + b"\nb" + crlf])
        add("iac-split-everywhere", "telnet", [b"a", bytes([IAC]), bytes([WILL]), bytes([TT]), b"b", bytes([IAC]), bytes([IAC]), b"c\r", b"\n"])
        # editing
        add("backspace-at-start", "telnet", [b"\x08\x08\x7fab\x08\x08\x08\x08c" + crlf + b"\x08" + crlf + b"abc\x7f\x7f\x7f\x7f" + crlf])
        add("console-backspace", "console", [b"\x08\x08ab\x08c\n", b"\x7f\n", b"x\r\n"], console=True)
        # space rule at its tightest: every byte pair CR LF (3 output bytes per 2 input), CR pending across reads
        add("max-expansion", "telnet", [crlf * 341, crlf * 341, b"\r", b"\n" + crlf * 300])
        add("max-expansion-lf-first", "telnet", [b"\r"] + [b"\n\r"] * 700, inter="end")
        # pending text around the discard threshold (1663 kept, 1664 discarded), with and without a command inside
        add("pending-1663", "telnet", [b"a" * 682, b"a" * 682, b"a" * 299, b"b" + crlf], inter="end")
        add("pending-1664", "telnet", [b"a" * 682, b"a" * 682, b"a" * 300, b"b" + crlf], inter="end")
        add("line-3000", "telnet", [b"L" * 3000 + crlf + b"after" + crlf], inter="end")
        add("line-3000-bytewise", "telnet", [b"M"] * 2100 + [crlf, b"after" + crlf], inter="each")
        add("burst-of-commands-discarded", "telnet", [b"n\r\n" * 227, b"n\r\n" * 227, b"n\r\n" * 120, b"last\r\n"], inter="end")
        add("compaction", "telnet", [b"n\r\n" * 200, b"w\r\n" * 100], inter="rand")
        # console: blob fits exactly / one byte too long / stuck buffer
        add("console-fit-2047", "console", [b"c" * 2046 + b"\n", b"next\n"], console=True)
        add("console-too-long", "console", [b"c" * 2048, b"ok\n", b"c" * 2047 + b"\n", b"ok2\n"], console=True)
        add("console-partial-lines", "console", [b"lo", b"ok\nsa", b"y\r\n\n\0x\n"], console=True, inter="each")
        add("console-full-partial", "console", [b"a\n" + b"p" * 2045, b"\n", b"x\n"], console=True, inter="each")
        add("console-stall-2047", "console", [b"p" * 2047, b"\n", b"look\n", b"q" * 2047, b"r" * 2048, b"say hi\n"], console=True, inter="each")
        add("console-nofit-with-command-pending", "console", [b"a\n" + b"p" * 2040, b"zzzzzzzz\n", b"x\n"], console=True, inter="end")
        # console input through the real worker procedure and process_io (read size CONSOLE_MAX_LINE-1, terminator, queue)
        def wp(name, blobs, tail=("drain",)):
            B.append(E.Case("b-wpipe-" + name, ["port console"] + ["wpipe " + hx(x) for x in blobs] + list(tail), {"origin": "boundary", "port": "console"}))
        wp("lines", [b"look\nsay hi\r\n", b"par", b"tial\n", b""])
        for n in (2046, 2047, 2048, 4093, 4094, 4095, 4096, 4097, 8190, 9000):
            wp("long-%d" % n, [b"w" * n + b"\nok\n", b"next\n"])
        wp("exact-4095-then-line", [b"a\n" + b"z" * 4093, b"\nlast\n"])
        # binary
        add("binary-verbatim", "binary", [bytes(range(256)), b"\xff\xfa\x18\xff\xf0\r\n\0", b"z" * 3000])
        # single character mode (memory safety only)
        add("single-char", "telnet", [b"a", b"b\r", b"\ncd\r\n", b"\r\r\r" + bytes([IAC, WILL, LM])], single_at=0, inter="each")
        B.append(E.Case("b-single-then-line-partial-move", ["port telnet", "iflag single", "chunk " + hx(b"ab"), "iflag line", "extract",
                        "chunk " + hx(b"c\r\n"), "drain", "iflag single", "chunk " + hx(b"\0\0xy"), "iflag line", "extract", "extract",
                        "chunk " + hx(b"z\r\n"), "drain"], {"origin": "boundary"}))
        # a snooper on the input path: receive_snoop() is one more callback of a telnet read (fix eca4aec)
        B.append(E.Case("b-snoop-ok", ["port telnet", "snoop on", "chunk " + hx(b"look\r\nno"), "drain", "chunk " + hx(b"rth\r\n"), "drain"], {"origin": "boundary", "port": "telnet"}))
        B.append(E.Case("b-snoop-err", ["cb 0 err", "port telnet", "snoop on", "chunk " + hx(b"look\r\n"), "extract", "chunk " + hx(b"n\r\n"), "drain"], {"origin": "boundary", "port": "telnet"}))
        B.append(E.Case("b-snoop-dest", ["cb 0 dest", "port telnet", "snoop on", "chunk " + hx(b"look\r\n"), "drain"], {"origin": "boundary", "port": "telnet"}))
        B.append(E.Case("b-snoop-noecho-ttype", ["cb 1 err", "port telnet", "snoop on", "chunk " + hx(tt + b"a\r\n"), "inputto noecho", "chunk " + hx(b"pw\r\n"), "serve", "chunk " + hx(b"x\0y\r\n"), "drain"], {"origin": "boundary", "port": "telnet"}))
        # the hold test (fix 57d7cb1): reads are held back while the buffer is full of commands typed ahead
        B.append(E.Case("b-hold-reads", ["port telnet", "send " + hx(b"n\r\n" * 700), "read", "read", "read", "read", "read", "extract", "read", "drain", "read", "finish", "drain"], {"origin": "boundary", "port": "telnet"}))
        B.append(E.Case("b-hold-single-char", ["port telnet", "getchar", "send " + hx(b"k" * 2500), "read", "read", "read", "read", "read", "serve", "read", "finish", "drain"], {"origin": "boundary", "port": "telnet"}))
        B.append(E.Case("b-no-hold-overlong-line", ["port telnet", "send " + hx(b"L" * 2500 + b"\r\nok\r\n"), "read", "read", "read", "read", "read", "finish", "drain"], {"origin": "boundary", "port": "telnet"}))
        # get_char() / input_to() / serve: real set_call, call_function_interactive, reframe_single_char_input
        def raw(name, lines):
            B.append(E.Case("b-" + name, ["port telnet"] + lines, {"origin": "boundary", "port": "telnet"}))
        ch = lambda b: "chunk " + hx(b)
        raw("getchar-typeahead-line", [ch(b"ab"), "getchar", "serve", ch(b"look\r\nx"), "getchar", "serve", "serve", "serve", ch(b"\r\n"), "drain"])
        raw("getchar-noecho-linemode", [ch(bytes([IAC, WILL, LM])), "getchar noecho", ch(b"yes\r\nn\r"), "serve", ch(b"\n"), "drain",
                                        "inputto noecho", "inputto", ch(b"pw\r\n"), "serve", "getchar", "getchar noecho", "serve"])
        raw("getchar-sga-reframe-mixed", [ch(bytes([IAC, WILL, TT])), "getchar", ch(b"a\rb\r\0c\r\r\nd"), "serve", "drain", ch(b"\r\n"), "drain"])
        raw("getchar-cr-then-lf-after-mode-end", [ch(b"q\0"), "getchar", ch(b"go north\r"), "serve", ch(b"\nsouth\r\n"), "serve", "drain"])
        for pairs in (680, 681, 682, 683, 684, 800):
            # raw CR LF pairs buffered in single-char mode expand 2 -> 3 bytes when reframed: room test of reframe
            raw("reframe-room-%d" % pairs, ["getchar", "send " + hx(b"x\0" + b"\r\n" * pairs + b"t"), "read", "read", "read", "read", "serve",
                                           "drain", ch(b"\r\nafter\r\n"), "drain"])
        raw("reframe-room-lone-crs", ["getchar", "send " + hx(b"x\0" + b"a\r" * 700 + b"\r\n"), "read", "read", "read", "read", "serve", "drain"])
        # the get_char mode ends with MANY lines typed ahead in the same read as the key (reframe_single_char_input rewrites
        # more text than the command just served has freed in front of it)
        for nl in (1, 3, 4, 8, 40):
            body = b"".join(b"L%d\r\n" % i for i in range(1, nl + 1))
            raw("getchar-many-lines-%d" % nl, ["getchar", ch(b"y\0" + body), "serve", "drain", ch(b"after\r\n"), "drain"])
        raw("getchar-many-lines-nuls-lone-cr", ["getchar", ch(b"k\0\0a\r\n\r\nb\r\r\nc\0d\r\ne\r"), "serve", "drain", ch(b"\nf\r\n"), "drain"])
        raw("getchar-many-lines-key-only", ["getchar", ch(b"y"), "serve", ch(b"L1\r\nL2\r\nL3\r\nL4\r\nL5\r\n"), "drain"])
        raw("inputto-then-extract", ["inputto noecho", ch(b"secret\r\nnext\r\n"), "extract", "serve", "inputto", "drain"])
        add("single-char-full", "telnet", [b"s" * 682, b"s" * 682, b"s" * 682, b"s" * 682], single_at=0, inter="end")
        return B

    def two_splits(self, rng, cid, port, stream, inter):
        out = []
        for i in range(1, len(stream)):
            out.append(self.mk_case("%s-s%d" % (cid, i), port, [stream[:i], stream[i:]], rng, inter))
        return out

    def g_cbs(self, rng, p_num=1, p_den=3):
        """scripted callback failures for a generated case (mostly errors, rarely a destruct)"""
        if not rng.chance(p_num, p_den):
            return ()
        out = [(rng.below(8), "err") for _ in range(rng.range(1, 3))]
        if rng.chance(1, 6):
            out.append((rng.below(6), "dest"))
        return tuple(out)

    def generate(self, rng, n, tier):
        C = []
        i = 0
        while len(C) < n * 4:
            i += 1
            cid = "g%d" % i
            kind = rng.weighted([("tshort", 6), ("tmix", 8), ("tmal", 5), ("tlong", 2), ("ascii", 4), ("asciilong", 1), ("binary", 1),
                                 ("console", 3), ("single", 1), ("getchar", 2)])
            if kind == "tshort":
                # short stream: the unsplit run plus ALL 2-splits
                s = self.g_telnet_stream(rng, rng.range(2, 5), rng.choice(["text", "telnet", "telnet", "malformed"]))[:28]
                if not s.endswith(b"\r\n") and rng.chance(2, 3):
                    s += b"\r\n"
                C.append(self.mk_case(cid + "-one", "telnet", [s], rng, "end"))
                C += self.two_splits(rng, cid, "telnet", s, rng.choice(["end", "each"]))
            elif kind in ("tmix", "tmal"):
                s = self.g_telnet_stream(rng, rng.range(3, 40), "malformed" if kind == "tmal" else rng.choice(["text", "telnet"]))
                if rng.chance(2, 3):
                    s += b"\r\n"
                cbs = self.g_cbs(rng, 1, 4)
                snoop = rng.chance(1, 4)
                for how in ("one", "few", "many", "bytes"):
                    c = self.mk_case("%s-%s" % (cid, how), "telnet", self.segment(rng, s, how), rng,
                                     rng.choice(["end", "each", "rand"]), cbs=cbs)
                    if snoop:       # a snooper: receive_snoop() is one more callback of every read that got data
                        k = c.lines.index("port telnet")
                        c.lines.insert(k + 1, "snoop on")
                    C.append(c)
            elif kind == "tlong":
                body = b""
                for _ in range(rng.range(1, 4)):
                    body += self.g_text(rng, 1, 1) * rng.choice([600, 1500, 1662, 1663, 1664, 2047, 2048, 2100, 4200]) + b"\r\n"
                    body += self.g_telnet_stream(rng, rng.range(1, 6), "telnet")
                body += b"\r\n"
                for how in ("one", "few"):
                    C.append(self.mk_case("%s-%s" % (cid, how), "telnet", self.segment(rng, body, how), rng,
                                          rng.choice(["end", "each", "rand"])))
            elif kind in ("ascii", "asciilong"):
                s = self.g_plain_stream(rng, rng.range(2, 30))
                if kind == "asciilong":
                    s += b"k" * rng.choice([2040, 2046, 2047, 2048, 3000]) + b"\n" + self.g_plain_stream(rng, 4) + b"\n"
                if len(s) <= 24:
                    C += self.two_splits(rng, cid, "ascii", s, "end")
                cbs = self.g_cbs(rng, 1, 2)
                for how in ("one", "few", "many") + (("bytes",) if len(s) < 400 else ()):
                    C.append(self.mk_case("%s-%s" % (cid, how), "ascii", self.segment(rng, s, how), cbs=cbs))
            elif kind == "binary":
                s = bytes(rng.below(256) for _ in range(rng.choice([1, 5, 100, 2047, 2048, 5000])))
                C.append(self.mk_case(cid, "binary", self.segment(rng, s, rng.choice(["one", "few"])), cbs=self.g_cbs(rng, 1, 2)))
            elif kind == "console":
                s = self.g_plain_stream(rng, rng.range(2, 25)).replace(b"\xff", b"\xfe")
                if rng.chance(1, 5):
                    s += b"w" * rng.choice([2040, 2046, 2047, 2048]) + b"\n"
                s += b"\n"
                if rng.chance(1, 6):
                    s = b"v" * rng.choice([4090, 4095, 4096, 6000]) + b"\n" + s
                for how in ("one", "few", "many"):
                    c = self.mk_case("%s-%s" % (cid, how), "console", self.segment(rng, s, how), rng,
                                     rng.choice(["end", "each", "rand"]), console=True)
                    if rng.chance(1, 2):        # the same blobs arrive on the stdin pipe (real worker + process_io)
                        c.lines = [("wpipe " + l[5:]) if l.startswith("line ") else l for l in c.lines]
                    C.append(c)
            elif kind == "getchar":
                # the user object switches modes with get_char() / input_to(); lines typed ahead in single-char mode
                # are reframed when the mode ends
                s = self.g_telnet_stream(rng, rng.range(3, 30), rng.choice(["text", "text", "telnet", "malformed"])) + b"\r\n"
                if rng.chance(1, 4):
                    s = b"\r\n" * rng.range(300, 700) + s
                if rng.chance(1, 2):
                    # the key, NUL(s) and many complete lines typed ahead arrive in ONE read while the get_char() is pending
                    body = b""
                    for _ in range(rng.range(1, 30)):
                        body += rng.choice([rng.choice(self.WORDS), self.g_text(rng, 0, 6), b""]) + rng.weighted([(b"\r\n", 10), (b"\r\r\n", 1), (b"\0", 1)])
                    if rng.chance(1, 4):
                        body += rng.choice([b"tail", b"t\r"])
                    one = self.g_text(rng, 1, 3) + b"\0" * rng.range(1, 2) + body
                    lines = ["port telnet", "getchar" + (" noecho" if rng.chance(1, 4) else ""), "chunk " + hx(one), "serve", "drain",
                             "chunk " + hx(rng.choice([b"\n", b"\r\n", b"x\r\n"])), "drain"]
                    C.append(E.Case("%s-oneread" % cid, lines, {"origin": "generated", "port": "telnet"}))
                for how in ("few", "many"):
                    lines = ["port telnet"]
                    if rng.chance(1, 3):
                        lines.append("snoop on")    # NOECHO input is not forwarded to the snooper
                    if rng.chance(1, 2):
                        lines.append("chunk " + hx(bytes([IAC, rng.choice([WILL, WONT]), rng.choice([LM, TT, SGA])])))
                    for c in self.segment(rng, s, how):
                        k = rng.weighted([("none", 4), ("getchar", 3), ("inputto", 1), ("serve", 4), ("extract", 1), ("drain", 1)])
                        if k in ("getchar", "inputto"):
                            lines.append(k + (" noecho" if rng.chance(1, 3) else ""))
                        elif k != "none":
                            lines.append(k)
                        lines.append("chunk " + hx(c))
                    lines += ["serve", "serve", "finish", "drain"]
                    C.append(E.Case("%s-%s" % (cid, how), lines, {"origin": "generated", "port": "telnet"}))
            else:
                s = self.g_telnet_stream(rng, rng.range(3, 30), rng.choice(["text", "telnet", "malformed"])) + b"\r\n"
                ch = self.segment(rng, s, rng.choice(["few", "many"]))
                C.append(self.mk_case(cid, "telnet", ch, rng, "rand", single_at=rng.below(max(1, len(ch)))))
        return C

    def shrink_ok(self, lines):
        """a shrunk case is still a case: scripted callback outcomes, then `port`, then steps"""
        body = [l for l in lines if not l.startswith("cb ")]
        return bool(body) and body[0].startswith("port ") and len(body) > 1

    def mutate_around(self, case, rng, n):
        """re-segment the stream of the differing case"""
        port = case.meta.get("port")
        if not port:        # corpus / known-finding cases: comment and `cb` lines may precede the `port` line
            pl = [l.split() for l in case.lines if l.startswith("port ")]
            port = pl[0][1] if pl and len(pl[0]) == 2 and pl[0][1] in ("telnet", "ascii", "binary", "console") else "telnet"
        data = b""
        for l in case.lines:
            t = l.split()
            if len(t) == 2 and t[0] in ("chunk", "send", "line", "wpipe") and t[1] != "-":
                data += bytes.fromhex(t[1])
        out = []
        for i in range(n):
            how = rng.choice(["one", "few", "many", "bytes"])
            out.append(self.mk_case("m%d" % i, port, self.segment(rng, data, how), rng, rng.choice(["end", "each", "rand"]),
                                    console=(port == "console")))
        return out

    def histogram(self, cases, impl):
        h = {"cases_by_port": {}, "reads": 0, "cmd": 0, "input": 0, "cb": 0, "tx": 0, "nocmd": 0, "wouldblock": 0,
             "discard_or_compaction_reads": 0, "max_text_end": 0, "max_sb_pos": 0, "closed": 0, "states_seen": {}}
        for c in cases:
            body = [l for l in c.lines if l.startswith("port ")]
            port = body[0].split()[-1] if body else "?"
            for l in c.lines:
                if l.startswith("cb "):
                    h["scripted_" + l.split()[-1]] = h.get("scripted_" + l.split()[-1], 0) + 1
                elif l == "snoop on":
                    h["snooped_cases"] = h.get("snooped_cases", 0) + 1
                elif l.startswith(("getchar", "inputto", "serve")):
                    h["op_" + l.split()[0]] = h.get("op_" + l.split()[0], 0) + 1
                elif l == "iflag single":
                    h["single_char_cases"] = h.get("single_char_cases", 0) + 1
            h["cases_by_port"][port] = h["cases_by_port"].get(port, 0) + 1
            prev_end = 0
            for l in impl.get(c.id, []):
                t = l.split()
                if not t:
                    continue
                if t[0] == "err" and len(t) == 1:
                    h["reads_left_through_error"] = h.get("reads_left_through_error", 0) + 1
                elif t[0] == "err":
                    h["callback_errors"] = h.get("callback_errors", 0) + 1
                elif t[0] == "cl":
                    h["console_blobs"] = h.get("console_blobs", 0) + 1
                if t[0] == "ask":
                    h["reads"] += 1
                    if t[1] == "2047" and prev_end == 2047:
                        h["ascii_full_buffer_discards"] = h.get("ascii_full_buffer_discards", 0) + 1
                elif t[0] in ("cmd", "input", "tx", "nocmd", "wouldblock", "closed"):
                    h[t[0]] += 1
                elif t[0] == "cb":
                    h["cb"] += 1
                elif t[0] == "st" and len(t) == 6:
                    e = int(t[2])
                    if e < prev_end and t[1] == "0":
                        h["discard_or_compaction_reads"] += 1
                    prev_end = e
                    h["max_text_end"] = max(h["max_text_end"], e)
                    h["max_sb_pos"] = max(h["max_sb_pos"], int(t[4]))
                    h["states_seen"][t[3]] = h["states_seen"].get(t[3], 0) + 1
        return h


PROP = C13()
