"""C13 - input framing ignores packet boundaries and survives any byte stream."""
import os
import re

from nvlib import engine as E
from nvlib import extract as X
from nvlib.check import Prop

IAC, DONT, DO, WONT, WILL, SB, AYT, AO, IP, BRK, SE = 255, 254, 253, 252, 251, 250, 246, 245, 244, 243, 240
TT, NAWS, LM, SGA, TM, ECHO = 24, 31, 34, 3, 6, 1


def hx(b):
    return bytes(b).hex() if len(b) else "-"


class C13(Prop):
    id = "C13"
    title = "Input framing ignores packet boundaries and survives any byte stream"
    lean_modules = ["NV.C13.Props", "NV.C13.Witness"]
    theorems = []          # filled below
    witness_theorems = []
    consts = [
        ("maxText", "MAX_TEXT"), ("sbSize", "SB_SIZE"),
        ("sbBufSize", "sizeof(((interactive_t*)0)->sb_buf)"),
        ("textArraySize", "sizeof(((interactive_t*)0)->text)"),
        ("consoleMaxLine", "CONSOLE_MAX_LINE"),
        ("iSingleChar", "SINGLE_CHAR"), ("iCmdInBuf", "CMD_IN_BUF"), ("iUsingTelnet", "USING_TELNET"),
        ("iUsingLinemode", "USING_LINEMODE"), ("iNetDead", "NET_DEAD"), ("iClosing", "CLOSING"),
        ("iHasCmdTurn", "HAS_CMD_TURN"), ("iNoEcho", "NOECHO"),
        ("portTelnet", "PORT_TELNET"), ("portAscii", "PORT_ASCII"), ("portBinary", "PORT_BINARY"),
        ("consoleUser", "CONSOLE_USER"),
        ("cIAC", "IAC"), ("cDONT", "DONT"), ("cDO", "DO"), ("cWONT", "WONT"), ("cWILL", "WILL"), ("cSB", "SB"),
        ("cSE", "SE"), ("cBREAK", "BREAK"), ("cIP", "IP"), ("cAYT", "AYT"), ("cAO", "AO"), ("cDM", "DM"),
        ("cGA", "GA"),
        ("optECHO", "TELOPT_ECHO"), ("optSGA", "TELOPT_SGA"), ("optTM", "TELOPT_TM"), ("optTTYPE", "TELOPT_TTYPE"),
        ("optNAWS", "TELOPT_NAWS"), ("optLINEMODE", "TELOPT_LINEMODE"),
        ("telqualIS", "TELQUAL_IS"), ("telqualSEND", "TELQUAL_SEND"),
        ("lmMODE", "LM_MODE"), ("lmSLC", "LM_SLC"),
        ("modeEDIT", "MODE_EDIT"), ("modeTRAPSIG", "MODE_TRAPSIG"), ("modeACK", "MODE_ACK"),
        ("slcNOSUPPORT", "SLC_NOSUPPORT"), ("slcCANTCHANGE", "SLC_CANTCHANGE"), ("slcVARIABLE", "SLC_VARIABLE"),
        ("slcDEFAULT", "SLC_DEFAULT"), ("slcLEVELBITS", "SLC_LEVELBITS"), ("slcACK", "SLC_ACK"), ("nSLC", "NSLC"),
        ("slcFUNC", "SLC_FUNC"), ("slcFLAGS", "SLC_FLAGS"), ("slcVALUE", "SLC_VALUE"),
    ]
    const_headers = ["src/comm.h", "lib/rc/rc.h", "lib/async/console_worker.h"]
    quick_n = 260
    thorough_n = 2600
    search_n = 600
    design_ref = "5/C13"
    technique = ("Lean 4 proof (buffer invariant, decoder/grammar simulation, induction over read/extract schedules) + "
                 "constants and the get_user_data space rule regenerated from the source + model/implementation "
                 "correspondence on the real get_user_data/copy_chars/get_user_command")
    level_text = ("Lean 4 theorems about an executable model of src/comm.c input framing (copy_chars telnet decoder, "
                  "get_user_data space rule/compaction/discard, PORT_ASCII and PORT_BINARY paths, first/next_cmd_in_buf, "
                  "telnet_neg editing, add_console_line) for all byte streams and all read/extract schedules; tied to the "
                  "source by regenerated constants and guard numbers and by running the real functions and the model on "
                  "the same streams under exhaustive 2-splits and random k-splits; the Lean oracle judges every real trace")
    level_note = ("trusted: Lean kernel; extract.py + the regexes in props/c13.py that read TS_* and the space rule from "
                  "comm.c; the correspondence harness (recv/send interposed, apply renamed inside the included comm.c); "
                  "single-character mode is modelled for memory safety only; NOECHO, snooping, ed and the LPC side of "
                  "process_input are not modelled")
    rule = ("cases = corpus + known-finding inputs + boundary list + seeded streams (text, CR/LF/NUL mixes, IAC "
            "negotiations, complete/incomplete/oversized sub-negotiations, 8-bit data, lines > 2 KiB) x segmentations "
            "(all 2-splits of short streams, random k-splits, 1-byte reads) x extraction interleavings on telnet, ascii, "
            "binary ports and the console; non-trivial = trace has >= 2 lines; distinct = distinct canonical trace")
    not_covered = ["single-character mode: delivery granularity is outside the statement (memory safety is covered)",
                   "NOECHO handling in get_user_command, snooping, ed, termios",
                   "what the LPC user object does with the line after process_input",
                   "Windows IOCP completion path of get_user_data (evt != NULL)"]

    # ---- tie: numbers that are not header constants ---------------------
    def gen_extra(self, ctx, bdir):
        src = open(os.path.join(E.REPO, "src/comm.c"), errors="replace").read()
        out = []

        def need(name, pat, conv=int, count=None):
            ms = re.findall(pat, src)
            if not ms or (count is not None and len(ms) != count) or len(set(ms)) != 1:
                raise X.TieBroken("guard:" + name, "cannot locate %s in src/comm.c (pattern %r matched %r)" % (name, pat, ms))
            return conv(ms[0])

        for n in ("DATA", "IAC", "WILL", "WONT", "DO", "DONT", "SB", "SB_IAC"):
            v = need("TS_" + n, r"#define\s+TS_%s\s+(\d+)" % n)
            out.append("/-- C: `TS_%s` (src/comm.c) -/\ndef ts%s : Nat := %d" % (n, n.replace("_", ""), v))
        v = need("TS_STATE_MASK", r"#define\s+TS_STATE_MASK\s+(0x[0-9a-fA-F]+)", lambda s: int(s, 16))
        out.append("/-- C: `TS_STATE_MASK` -/\ndef tsStateMask : Nat := %d" % v)
        v = need("TS_CR_SEEN", r"#define\s+TS_CR_SEEN\s+(0x[0-9a-fA-F]+)", lambda s: int(s, 16))
        out.append("/-- C: `TS_CR_SEEN` -/\ndef tsCrSeen : Nat := %d" % v)
        # get_user_data: the space rule exactly as coded
        v = need("space rule divisor", r"text_space = \(MAX_TEXT - \(int\)ip->text_end - 1\) / (\d+);", count=1)
        out.append("/-- C: get_user_data `text_space = (MAX_TEXT - (int)ip->text_end - 1) / N` -/\ndef spaceDiv : Nat := %d" % v)
        v = need("space rule divisor after compaction", r"text_space = \(MAX_TEXT - ip->text_end - 1\) / (\d+);", count=1)
        out.append("/-- C: get_user_data, after compaction `text_space = (MAX_TEXT - ip->text_end - 1) / N` -/\ndef spaceDiv2 : Nat := %d" % v)
        v = need("compaction threshold", r"if \(text_space < MAX_TEXT / (\d+)\)", count=2)
        out.append("/-- C: get_user_data `if (text_space < MAX_TEXT / N)` (both tests) -/\ndef compactDiv : Nat := %d" % v)
        v = need("space after discard", r"text_space = MAX_TEXT / (\d+);", count=1)
        out.append("/-- C: get_user_data, after discard `text_space = MAX_TEXT / N` -/\ndef discardSpaceDiv : Nat := %d" % v)
        v = need("cut threshold", r"if \(ip->text_end > MAX_TEXT - (\d+)\)", count=1)
        out.append("/-- C: first_cmd_in_buf `if (ip->text_end > MAX_TEXT - N)` -/\ndef cutMargin : Nat := %d" % v)
        v = need("ascii space", r"text_space = MAX_TEXT - ip->text_end - (\d+);", count=1)
        out.append("/-- C: get_user_data PORT_ASCII/BINARY `text_space = MAX_TEXT - ip->text_end - N` -/\ndef asciiReserve : Nat := %d" % v)
        need("console guard", r"if \(len <= 0 \|\| ip->text_end \+ len >= (MAX_TEXT)\)", str, count=1)
        cfg = open(os.path.join(bdir, "config.h"), errors="replace").read()
        pk = re.search(r'#define PACKAGE "([^"]*)"', cfg)
        ve = re.search(r'#define VERSION "([^"]*)"', cfg)
        if not pk or not ve:
            raise X.TieBroken("const:PACKAGE/VERSION", "config.h lacks PACKAGE/VERSION")
        banner = "\n[%s-%s] \n" % (pk.group(1), ve.group(1))
        out.append("/-- C: AYT answer `add_vmessage (\"\\n[%%s-%%s] \\n\", PACKAGE, VERSION)` as bytes -/\ndef aytBanner : List Nat := [%s]"
                   % ", ".join(str(b) for b in banner.encode()))
        return "\n".join(out)

    def prepare(self, ctx):
        self.exe = E.compile_harness("c13", [os.path.join(E.VERIF, "harness/c13/c13.c")], exclude_objs=("comm.c.o",))
        self.conf = E.make_mudlib(ctx.rundir)

    def run_impl(self, ctx, cases):
        return E.run_harness(self.exe, self.conf, cases, ctx.rundir)


PROP = C13()
