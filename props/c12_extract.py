"""C12 translator, AST part: the statement order of one iteration of backend()'s `while (1)` loop, of get_user_command()
and of its scan loop, regenerated from the clang AST of the working tree on every run.

Every top-level statement is rendered as `<StmtKind>:<scheduler names it mentions>` (called functions, variables and
struct members out of a fixed vocabulary, sorted); the three lists go to `NV/Gen/C12.lean` as `backendOrder`,
`gucOrder`, `gucScanOrder`, and the bridging lemmas `backendOrder_spec` / `gucOrder_spec` / `gucScanOrder_spec`
(NV/C12/Lemmas.lean, proved by `rfl`) state the order that `cycleStep` / `getUserCommand` / `scanStep` of the model mirror.
A statement that is moved, removed, added, or that starts to touch another scheduler variable breaks the obligation.
Also: where an uncaught error re-enters backend() (`setjmp` in front of the loop, not inside it: the whole iteration
is restarted - `cycleRun` of the model).
"""
import json
import os
import subprocess

from nvlib import engine as E
from nvlib.extract import TieBroken

CLANG = "clang-14"

VOCAB = {
    # functions
    "do_comm_polling", "process_io", "process_user_command", "call_heart_beat", "remove_destructed_objects",
    "do_slow_shutdown", "flush_message", "first_cmd_in_buf", "telnet_neg", "next_cmd_in_buf", "cmd_in_buf",
    "add_message", "verif_backend_cycle_hook", "fatal", "restore_context", "_setjmp", "setjmp", "get_user_command",
    "call_function_interactive", "process_command", "apply", "print_prompt",
    # variables
    "s_next_user", "all_users", "max_users", "connected_users", "has_pending_commands", "command_giver",
    "current_interactive", "eval_cost", "g_proceeding_shutdown", "slow_shutdown_to_do", "nb", "timeout", "user_command",
    "ip", "heart_beat_flag",
    # members
    "iflags", "last_time", "ob", "message_length", "tv_sec", "text_start", "text_end", "text",
}


def ast_function(bdir, relsrc, fn):
    src = os.path.join(E.REPO, relsrc)
    cmd = [CLANG, "-Xclang", "-ast-dump=json", "-Xclang", "-ast-dump-filter=" + fn, "-fsyntax-only",
           "-DHAVE_CONFIG_H", "-D_GNU_SOURCE", "-D" + E.GUARD, "-w"] + E.include_flags(bdir) + [src]
    p = subprocess.run(cmd, capture_output=True, text=True)
    if p.returncode != 0:
        raise TieBroken("ast:" + fn, "clang cannot parse %s: %s" % (relsrc, p.stderr[-800:]))
    s, dec, i, found = p.stdout, json.JSONDecoder(), 0, None
    while i < len(s):
        while i < len(s) and s[i].isspace():
            i += 1
        if i >= len(s):
            break
        o, i = dec.raw_decode(s, i)
        if o.get("kind") == "FunctionDecl" and o.get("name") == fn and any(
                c.get("kind") == "CompoundStmt" for c in o.get("inner", [])):
            found = o
    if found is None:
        raise TieBroken("fn:" + fn, "function %s with a body not found in %s" % (fn, relsrc))
    return found


def kids(n):
    return [c for c in n.get("inner", []) if isinstance(c, dict) and c]


def body_of(n):
    for c in kids(n):
        if c.get("kind") == "CompoundStmt":
            return c
    return None


def names_in(n, acc=None):
    acc = set() if acc is None else acc
    k = n.get("kind")
    if k == "DeclRefExpr":
        nm = (n.get("referencedDecl") or {}).get("name")
        if nm in VOCAB:
            acc.add(nm)
    elif k == "MemberExpr":
        nm = n.get("name")
        if nm in VOCAB:
            acc.add(nm)
    elif k == "VarDecl":
        nm = n.get("name")
        if nm in VOCAB:
            acc.add(nm)
    for c in kids(n):
        names_in(c, acc)
    return acc


def render(stmt):
    return "%s:%s" % (stmt.get("kind", "?"), ",".join(sorted(names_in(stmt))))


def find_all(n, kind, acc=None):
    acc = [] if acc is None else acc
    if n.get("kind") == kind:
        acc.append(n)
    for c in kids(n):
        find_all(c, kind, acc)
    return acc


def order(stmts):
    """statements that mention at least one scheduler name, rendered; statements about other things (and plain
    declarations / returns) are left out, so that unrelated additions do not change the list"""
    return [render(s) for s in stmts if names_in(s)]


def lean_list(name, doc, items):
    return "/-- %s -/\ndef %s : List String :=\n  [%s]" % (doc, name, ",\n   ".join('"%s"' % i for i in items))


def generate(bdir):
    out = []
    # ---- backend(): the loop body, and where errors re-enter
    fb = ast_function(bdir, "src/backend.c", "backend")
    top = kids(body_of(fb))
    loops = [s for s in top if s.get("kind") == "WhileStmt" and "process_user_command" in names_in(s)]
    if len(loops) != 1:
        raise TieBroken("ast:backend loop", "expected one top-level while loop calling process_user_command() in backend()")
    loop = loops[0]
    lbody = body_of(loop)
    if lbody is None:
        raise TieBroken("ast:backend loop", "the backend loop has no compound body")
    out.append(lean_list("backendOrder", "C (backend): the statements of one iteration of the `while (1)` loop, in order",
                         order(kids(lbody))))
    # error recovery: setjmp in front of the loop (top level), none inside it
    sj_top = [i for i, s in enumerate(top) if {"_setjmp", "setjmp"} & names_in(s)]
    li = top.index(loop)
    inside = {"_setjmp", "setjmp"} & names_in(loop)
    if inside:
        where = "inside-loop"
    elif sj_top and max(sj_top) < li:
        where = "before-loop"
    else:
        where = "none"
    out.append('/-- C (backend): where `setjmp (econ.context)` sits relative to the `while (1)` loop - an uncaught error\n'
               '    re-enters there, so "before-loop" means: the running iteration is abandoned and a new one starts -/\n'
               'def errorReentry : String := "%s"' % where)
    # ---- get_user_command(): top-level order and the order inside the scan loop
    fg = ast_function(bdir, "src/comm.c", "get_user_command")
    gtop = kids(body_of(fg))
    out.append(lean_list("gucOrder", "C (get_user_command): top-level statements, in order", order(gtop)))
    scans = [s for s in gtop if s.get("kind") == "ForStmt" and "first_cmd_in_buf" in names_in(s)]
    if len(scans) != 1 or body_of(scans[0]) is None:
        raise TieBroken("ast:scan loop", "expected one top-level for loop calling first_cmd_in_buf() in get_user_command()")
    out.append(lean_list("gucScanOrder", "C (get_user_command): statements of the scan loop body, in order",
                         order(kids(body_of(scans[0])))))
    # ---- process_user_command(): top-level order (get_user_command first, the single `return 0` last)
    fp = ast_function(bdir, "src/comm.c", "process_user_command")
    out.append(lean_list("pucOrder", "C (process_user_command): top-level statements, in order",
                         order(kids(body_of(fp)))))
    # ---- the three buffer scanners the scheduler relies on (C13 owns the bytes; here: which statements touch
    #      text_start / text_end / iflags, in which order)
    for fn in ("first_cmd_in_buf", "cmd_in_buf", "next_cmd_in_buf"):
        f = ast_function(bdir, "src/comm.c", fn)
        out.append(lean_list(fn.replace("_", " ").title().replace(" ", "")[0].lower() + fn.replace("_", " ").title().replace(" ", "")[1:] + "Order",
                             "C (%s): top-level statements that touch the text buffer, in order" % fn, order(kids(body_of(f)))))
    return "\n".join(out)
