"""C20 translator (T4): recovers the decisive guards and statements of the uid machinery from the clang-14 AST of
the working tree and emits them as Lean definitions (NV/Gen/C20.lean via C20.gen_extra).  NV/C20/Tie.lean proves,
for each, that it equals what NV/C20/Model.lean does (bridging lemmas, registered as obligations), so a changed C
line breaks an obligation or the tie, not only the correspondence.

Sites (function: what -> Lean definition)
  load_object        path condition of error("*Can't load objects when no effective user.")      -> loadRefuses
  clone_object       path condition of the 1st / 2nd error("*Attempt to create object without …")  -> cloneEntryRefuses / cloneRetestRefuses
  clone_object       statement order: entry test < find_or_load_object < repeated test < `if (ob->flags & O_CLONE)`
                                                                                                    -> cloneOrderOk
  f_export_uid       condition of error("Illegal to export uid 0"); condition of the refusing branch; what the other
                     branch assigns; number of uid/euid writes                                      -> exportErrors, exportRefusesTarget,
                                                                                                       exportAssign, exportUidWrites
  f_seteuid          number branch (condition, bad_arg condition, what it assigns); master call (callee, apply name);
                     refusal condition (MASTER_APPROVED expanded) ; final assignment; number of euid writes
                                                                                                    -> seteuid*
  give_uid_to_object every if-condition and every assignment to ob->uid / ob->euid, in source order (canonical text)
                                                                                                    -> giveUidShape
Grammar of translated conditions: && || ! ( ) implicit/explicit casts, comparison with 0/NULL of a member / variable,
== / != of two variables, anything else must be a listed atom (canonical text) - otherwise the tie is broken.
"""
import json
import os
import subprocess

from nvlib import engine as E
from nvlib.extract import TieBroken

CLANG = "clang-14"


def ast_function(bdir, relsrc, fn):
    src = os.path.join(E.REPO, relsrc)
    cmd = [CLANG, "-Xclang", "-ast-dump=json", "-Xclang", "-ast-dump-filter=" + fn, "-fsyntax-only",
           "-DHAVE_CONFIG_H", "-D_GNU_SOURCE", "-D" + E.GUARD, "-w"] + E.include_flags(bdir) + [src]
    p = subprocess.run(cmd, capture_output=True, text=True)
    if p.returncode != 0:
        raise TieBroken("ast:" + fn, "clang cannot parse %s: %s" % (relsrc, p.stderr[-800:]))
    s, dec, i, found = p.stdout, json.JSONDecoder(), 0, None
    while i < len(s):
        while i < len(s) and s[i].isspace():
            i += 1
        if i >= len(s):
            break
        o, i = dec.raw_decode(s, i)
        if o.get("kind") == "FunctionDecl" and o.get("name") == fn and any(
                c.get("kind") == "CompoundStmt" for c in o.get("inner", [])):
            found = o
    if found is None:
        raise TieBroken("fn:" + fn, "function %s with a body not found in %s" % (fn, relsrc))
    return found


def kids(n):
    return [c for c in n.get("inner", []) if isinstance(c, dict) and c]


def strip(n):
    while n.get("kind") in ("ImplicitCastExpr", "ParenExpr", "CStyleCastExpr", "ConstantExpr") and kids(n):
        n = kids(n)[0]
    return n


def cx(n):
    """canonical text of an expression (casts and parentheses dropped)"""
    n = strip(n)
    k = n.get("kind")
    if k == "DeclRefExpr":
        return n["referencedDecl"]["name"]
    if k == "MemberExpr":
        return cx(kids(n)[0]) + ("->" if n.get("isArrow") else ".") + n["name"]
    if k == "IntegerLiteral":
        return str(n["value"])
    if k == "StringLiteral":
        return n["value"]
    if k == "UnaryOperator":
        return n["opcode"] + cx(kids(n)[0])
    if k == "BinaryOperator":
        a, b = kids(n)
        return "(" + cx(a) + " " + n["opcode"] + " " + cx(b) + ")"
    if k == "CallExpr":
        ks = kids(n)
        return cx(ks[0]) + "(" + ", ".join(cx(a) for a in ks[1:]) + ")"
    if k == "GNUNullExpr":
        return "0"
    if k == "CharacterLiteral":
        return "'%s'" % chr(n.get("value", 63))
    if k == "ConditionalOperator":
        a, b, c = kids(n)
        return "(" + cx(a) + " ? " + cx(b) + " : " + cx(c) + ")"
    if k == "ArraySubscriptExpr":
        a, b = kids(n)
        return cx(a) + "[" + cx(b) + "]"
    if k == "UnaryExprOrTypeTraitExpr":
        return "sizeof"
    return "<%s>" % k      # not in the grammar: as an atom of a translated condition this breaks the tie


def tr(n, atoms, site):
    """condition -> Lean Bool expression over the atoms of the site"""
    n = strip(n)
    k = n.get("kind")

    def atom(key):
        if key not in atoms:
            raise TieBroken("guard:" + site, "condition of %s uses `%s`, which the model has no notion of" % (site, key))
        return atoms[key]
    if k == "UnaryOperator" and n["opcode"] == "!":
        return "(!" + tr(kids(n)[0], atoms, site) + ")"
    if k == "BinaryOperator" and n["opcode"] in ("&&", "||"):
        a, b = kids(n)
        return "(" + tr(a, atoms, site) + (" && " if n["opcode"] == "&&" else " || ") + tr(b, atoms, site) + ")"
    if k == "BinaryOperator" and n["opcode"] in ("==", "!="):
        a, b = cx(kids(n)[0]), cx(kids(n)[1])
        if a == "0":
            a, b = b, a
        if b == "0":
            e = atom(a)                       # atom = "is not 0 / NULL"
            return "(!" + e + ")" if n["opcode"] == "==" else e
        key = a + "==" + b
        if key not in atoms and (b + "==" + a) in atoms:
            key = b + "==" + a
        e = atom(key)
        return e if n["opcode"] == "==" else "(!" + e + ")"
    return atom(cx(n))


def walk(n, path=()):
    yield n, path
    for c in kids(n):
        yield from walk(c, path + (n,))


def off(n):
    b = n.get("range", {}).get("begin", {})
    if "offset" in b:
        return b["offset"]
    return b.get("expansionLoc", {}).get("offset", -1)


def error_sites(fn, text):
    """[(call node, path condition as list of (cond node, positive?))] for error("...text...") calls, source order"""
    out = []
    for n, path in walk(fn):
        if n.get("kind") != "CallExpr":
            continue
        ks = kids(n)
        try:
            if cx(ks[0]) != "error" or text not in cx(ks[1]):
                continue
        except (TieBroken, IndexError, KeyError):
            continue
        conds = []
        chain = list(path) + [n]
        for i, p in enumerate(chain[:-1]):
            if p.get("kind") == "IfStmt":
                pk = kids(p)
                child = chain[i + 1]
                if len(pk) >= 2 and child is pk[1]:
                    conds.append((pk[0], True))
                elif len(pk) >= 3 and child is pk[2]:
                    conds.append((pk[0], False))
        out.append((n, conds))
    out.sort(key=lambda x: off(x[0]))
    return out


def conj(conds, atoms, site):
    parts = []
    for c, pos in conds:
        e = tr(c, atoms, site)
        parts.append(e if pos else "(!" + e + ")")
    return " && ".join(parts) if parts else "true"


def lean_str(s):
    return '"' + s.replace("\\", "\\\\").replace('"', '\\"') + '"'


def assignments(fn, fields):
    out = []
    for n, _ in walk(fn):
        if n.get("kind") == "BinaryOperator" and n.get("opcode") == "=":
            lhs = strip(kids(n)[0])
            if lhs.get("kind") == "MemberExpr" and lhs.get("name") in fields:
                out.append((off(n), cx(n)))
    return [t for _, t in sorted(out)]


def generate(bdir, t_number):
    L = []
    cur_atoms = {"current_object": "cur", "current_object==master_ob": "curIsMaster", "current_object->euid": "curEuid"}

    # ---- load_object --------------------------------------------------------------------------------------------
    f = ast_function(bdir, "src/simulate.c", "load_object")
    sites = error_sites(f, "Can't load objects when no effective user")
    if len(sites) != 1:
        raise TieBroken("guard:load_object", "expected exactly one `no effective user` error in load_object, found %d" % len(sites))
    a = dict(cur_atoms)
    for c, _ in sites[0][1]:
        t = cx(c)
        if t.startswith("(get_machine_state() >="):
            a[t] = "limbo"
    L.append("/-- load_object: when error(\"*Can't load objects when no effective user.\") is reached\n"
             "    (limbo: the master exists; cur: current_object != 0; curIsMaster: current_object == master_ob;\n"
             "    curEuid: current_object->euid != NULL) -/\n"
             "def loadRefuses (limbo cur curIsMaster curEuid : Bool) : Bool := " + conj(sites[0][1], a, "load_object"))
    # nothing but name handling may run before the test: no call that creates or asks the master
    body_calls = [(off(n), cx(kids(n)[0])) for n, _ in walk(f) if n.get("kind") == "CallExpr" and kids(n)
                  and strip(kids(n)[0]).get("kind") == "DeclRefExpr"]
    before = sorted(c for o, c in body_calls if 0 <= o < off(sites[0][0]))
    risky = [c for c in before if c in ("apply_master_ob", "safe_apply_master_ob", "get_empty_object", "load_virtual_object",
                                        "compile_file", "load_binary", "enter_object_hash", "call_create")]
    L.append("/-- load_object: no master apply / object creation happens before the euid test -/\n"
             "def loadTestFirst : Nat := %d" % (0 if risky else 1))

    # ---- clone_object -------------------------------------------------------------------------------------------
    f = ast_function(bdir, "src/simulate.c", "clone_object")
    sites = error_sites(f, "Attempt to create object without effective UID")
    if len(sites) != 2:
        raise TieBroken("guard:clone_object", "expected the entry test and the repeated test in clone_object, found %d error sites" % len(sites))
    L.append("/-- clone_object: the euid test on entry -/\n"
             "def cloneEntryRefuses (cur curIsMaster curEuid : Bool) : Bool := " + conj(sites[0][1], cur_atoms, "clone_object:entry"))
    L.append("/-- clone_object: the euid test repeated once the blueprint is available -/\n"
             "def cloneRetestRefuses (cur curIsMaster curEuid : Bool) : Bool := " + conj(sites[1][1], cur_atoms, "clone_object:retest"))
    find = [off(n) for n, _ in walk(f) if n.get("kind") == "CallExpr" and cx(kids(n)[0]) == "find_or_load_object"]
    virt = [off(n) for n, _ in walk(f) if n.get("kind") == "IfStmt" and cx(kids(n)[0]).startswith("(ob->flags &")]
    made = [off(n) for n, _ in walk(f) if n.get("kind") == "CallExpr" and cx(kids(n)[0]) in ("get_empty_object", "load_virtual_object")]
    ok = (len(find) == 1 and virt and made and off(sites[0][0]) < find[0] < off(sites[1][0]) < min(virt) and
          off(sites[1][0]) < min(made))
    L.append("/-- clone_object: entry test < find_or_load_object < repeated test < virtual-object branch and every creation -/\n"
             "def cloneOrderOk : Nat := %d" % (1 if ok else 0))

    # ---- f_export_uid -------------------------------------------------------------------------------------------
    f = ast_function(bdir, "lib/efuns/uids.c", "f_export_uid")
    sites = error_sites(f, "Illegal to export uid 0")
    if len(sites) != 1:
        raise TieBroken("guard:f_export_uid", "error(\"Illegal to export uid 0\") not found exactly once")
    L.append("/-- f_export_uid: when the error is raised -/\n"
             "def exportErrors (curEuid : Bool) : Bool := " + conj(sites[0][1], {"current_object->euid": "curEuid"}, "f_export_uid:error"))
    branch = None
    for n, _ in walk(f):
        if n.get("kind") == "IfStmt" and off(n) > off(sites[0][0]) and len(kids(n)) == 3:
            branch = n
            break
    if branch is None:
        raise TieBroken("guard:f_export_uid", "the if/else on the target's euid was not found")
    c, th, el = kids(branch)
    L.append("/-- f_export_uid: when the target is refused (result 0) -/\n"
             "def exportRefusesTarget (tgtEuid : Bool) : Bool := " + tr(c, {"ob->euid": "tgtEuid"}, "f_export_uid:target"))
    th_t = [cx(n) for n, _ in walk(th) if n.get("kind") == "BinaryOperator" and n.get("opcode") == "="]
    el_t = [cx(n) for n, _ in walk(el) if n.get("kind") == "BinaryOperator" and n.get("opcode") == "="]
    L.append("/-- f_export_uid: assignments of the refusing branch / of the other branch -/\n"
             "def exportRefuseAssign : List String := [" + ", ".join(lean_str(t) for t in th_t) + "]\n"
             "def exportAssign : List String := [" + ", ".join(lean_str(t) for t in el_t) + "]")
    L.append("/-- f_export_uid: every write to a uid / euid field in the function -/\n"
             "def exportUidWrites : List String := [" + ", ".join(lean_str(t) for t in assignments(f, ("uid", "euid"))) + "]")

    # ---- f_seteuid ----------------------------------------------------------------------------------------------
    f = ast_function(bdir, "lib/efuns/uids.c", "f_seteuid")
    ifs = sorted(((off(n), n) for n, p in walk(f) if n.get("kind") == "IfStmt"), key=lambda x: x[0])
    shape = []
    for _, n in ifs:
        shape.append("if " + cx(kids(n)[0]))
    calls = sorted((off(n), cx(kids(n)[0]) if cx(kids(n)[0]) == "bad_arg" else cx(n)) for n, _ in walk(f)
                   if n.get("kind") == "CallExpr" and
                   cx(kids(n)[0]) in ("apply_master_ob", "safe_apply_master_ob", "apply", "safe_apply", "bad_arg", "add_uid"))
    L.append("/-- f_seteuid: its if-conditions (MASTER_APPROVED expanded; T_NUMBER = %d), the calls that matter, and every\n"
             "    write to an euid field, each list in source order -/\n" % t_number +
             "def seteuidIfs : List String := [" + ", ".join(lean_str(t) for t in shape) + "]\n"
             "def seteuidCalls : List String := [" + ", ".join(lean_str(t) for _, t in calls) + "]\n"
             "def seteuidEuidWrites : List String := [" + ", ".join(lean_str(t) for t in assignments(f, ("uid", "euid"))) + "]")
    # the refusal condition, semantically
    refusal = None
    for _, n in ifs:
        if "ret" in cx(kids(n)[0]):
            refusal = n
    if refusal is None:
        raise TieBroken("guard:f_seteuid", "the test of the master's verdict was not found")
    a = {"ret==-1": "noMaster", "ret": "ret", "ret->type==%d" % t_number: "isNumber", "ret->u.number": "number"}
    L.append("/-- f_seteuid: when the master's verdict refuses (noMaster: ret == (svalue_t *)-1; ret: ret != 0;\n"
             "    isNumber: ret->type == T_NUMBER; number: ret->u.number != 0) -/\n"
             "def seteuidRefuses (noMaster ret isNumber number : Bool) : Bool := " + tr(kids(refusal)[0], a, "f_seteuid:verdict"))

    # ---- give_uid_to_object ---------------------------------------------------------------------------------------
    f = ast_function(bdir, "src/simulate.c", "give_uid_to_object")
    items = []
    for n, _ in walk(f):
        if n.get("kind") == "IfStmt":
            t = cx(kids(n)[0])
            if "debug_level" not in t:          # opt_info() logging
                items.append((off(n), "if " + t))
        elif n.get("kind") == "BinaryOperator" and n.get("opcode") == "=":
            lhs = strip(kids(n)[0])
            if lhs.get("kind") == "MemberExpr" and lhs.get("name") in ("uid", "euid"):
                items.append((off(n), cx(n)))
            elif lhs.get("kind") == "DeclRefExpr" and lhs["referencedDecl"]["name"] == "creator_name":
                items.append((off(n), cx(n)))
        elif n.get("kind") == "ReturnStmt":
            items.append((off(n), "return"))
    items.sort()
    L.append("/-- give_uid_to_object: conditions, uid/euid/creator_name assignments and returns in source order -/\n"
             "def giveUidShape : List String := [\n  " + ",\n  ".join(lean_str(t) for _, t in items) + "]")
    return "\n\n".join(L) + "\n"
