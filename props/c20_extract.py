"""C20 translator (T4): recovers the decisive guards and statements of the uid machinery from the clang-14 AST of
the working tree and emits them as Lean definitions (NV/Gen/C20.lean via C20.gen_extra).  NV/C20/Tie.lean proves,
for each, that it equals what NV/C20/Model.lean does (bridging lemmas, registered as obligations), so a changed C
line breaks an obligation or the tie, not only the correspondence.

Sites (function: what -> Lean definition)
  load_object        path condition of error("*Can't load objects when no effective user.")      -> loadRefuses
  clone_object       path condition of the 1st / 2nd error("*Attempt to create object without …")  -> cloneEntryRefuses / cloneRetestRefuses
  clone_object       statement order: entry test < find_or_load_object < repeated test < `if (ob->flags & O_CLONE)`
                                                                                                    -> cloneOrderOk
  f_export_uid       condition of error("Illegal to export uid 0"); condition of the refusing branch; what the other
                     branch assigns; number of uid/euid writes                                      -> exportErrors, exportRefusesTarget,
                                                                                                       exportAssign, exportUidWrites
  f_seteuid          number branch (condition, bad_arg condition, what it assigns); master call (callee, apply name);
                     refusal condition (MASTER_APPROVED expanded) ; final assignment; number of euid writes
                                                                                                    -> seteuid*
  give_uid_to_object every if-condition and every assignment to ob->uid / ob->euid, in source order (canonical text)
                                                                                                    -> giveUidShape
Grammar of translated conditions: && || ! ( ) implicit/explicit casts, comparison with 0/NULL of a member / variable,
== / != of two variables, anything else must be a listed atom (canonical text) - otherwise the tie is broken.
"""
import json
import os
import subprocess

from nvlib import engine as E
from nvlib.extract import TieBroken

CLANG = "clang-14"


_AST = {}


def ast_function(bdir, relsrc, fn):
    key = (bdir, relsrc, fn)
    if key not in _AST:
        _AST[key] = _ast_function(bdir, relsrc, fn)
    return _AST[key]


def _ast_function(bdir, relsrc, fn):
    src = os.path.join(E.REPO, relsrc)
    cmd = [CLANG, "-Xclang", "-ast-dump=json", "-Xclang", "-ast-dump-filter=" + fn, "-fsyntax-only",
           "-DHAVE_CONFIG_H", "-D_GNU_SOURCE", "-D" + E.GUARD, "-w"] + E.include_flags(bdir) + [src]
    p = subprocess.run(cmd, capture_output=True, text=True)
    if p.returncode != 0:
        raise TieBroken("ast:" + fn, "clang cannot parse %s: %s" % (relsrc, p.stderr[-800:]))
    s, dec, i, found = p.stdout, json.JSONDecoder(), 0, None
    while i < len(s):
        while i < len(s) and s[i].isspace():
            i += 1
        if i >= len(s):
            break
        o, i = dec.raw_decode(s, i)
        if o.get("kind") == "FunctionDecl" and o.get("name") == fn and any(
                c.get("kind") == "CompoundStmt" for c in o.get("inner", [])):
            found = o
    if found is None:
        raise TieBroken("fn:" + fn, "function %s with a body not found in %s" % (fn, relsrc))
    return found


def kids(n):
    return [c for c in n.get("inner", []) if isinstance(c, dict) and c]


def strip(n):
    while n.get("kind") in ("ImplicitCastExpr", "ParenExpr", "CStyleCastExpr", "ConstantExpr") and kids(n):
        n = kids(n)[0]
    return n


def cx(n):
    """canonical text of an expression (casts and parentheses dropped)"""
    n = strip(n)
    k = n.get("kind")
    if k == "DeclRefExpr":
        return n["referencedDecl"]["name"]
    if k == "MemberExpr":
        return cx(kids(n)[0]) + ("->" if n.get("isArrow") else ".") + n["name"]
    if k == "IntegerLiteral":
        return str(n["value"])
    if k == "StringLiteral":
        return n["value"]
    if k == "UnaryOperator":
        return n["opcode"] + cx(kids(n)[0])
    if k == "BinaryOperator":
        a, b = kids(n)
        return "(" + cx(a) + " " + n["opcode"] + " " + cx(b) + ")"
    if k == "CallExpr":
        ks = kids(n)
        return cx(ks[0]) + "(" + ", ".join(cx(a) for a in ks[1:]) + ")"
    if k == "GNUNullExpr":
        return "0"
    if k == "CharacterLiteral":
        return "'%s'" % chr(n.get("value", 63))
    if k == "ConditionalOperator":
        a, b, c = kids(n)
        return "(" + cx(a) + " ? " + cx(b) + " : " + cx(c) + ")"
    if k == "ArraySubscriptExpr":
        a, b = kids(n)
        return cx(a) + "[" + cx(b) + "]"
    if k == "UnaryExprOrTypeTraitExpr":
        return "sizeof"
    return "<%s>" % k      # not in the grammar: as an atom of a translated condition this breaks the tie


def tr(n, atoms, site):
    """condition -> Lean Bool expression over the atoms of the site"""
    n = strip(n)
    k = n.get("kind")

    def atom(key):
        if key not in atoms:
            raise TieBroken("guard:" + site, "condition of %s uses `%s`, which the model has no notion of" % (site, key))
        return atoms[key]
    if k == "UnaryOperator" and n["opcode"] == "!":
        return "(!" + tr(kids(n)[0], atoms, site) + ")"
    if k == "BinaryOperator" and n["opcode"] in ("&&", "||"):
        a, b = kids(n)
        return "(" + tr(a, atoms, site) + (" && " if n["opcode"] == "&&" else " || ") + tr(b, atoms, site) + ")"
    if k == "BinaryOperator" and n["opcode"] in ("==", "!="):
        a, b = cx(kids(n)[0]), cx(kids(n)[1])
        if a == "0":
            a, b = b, a
        if b == "0":
            e = atom(a)                       # atom = "is not 0 / NULL"
            return "(!" + e + ")" if n["opcode"] == "==" else e
        key = a + "==" + b
        if key not in atoms and (b + "==" + a) in atoms:
            key = b + "==" + a
        e = atom(key)
        return e if n["opcode"] == "==" else "(!" + e + ")"
    return atom(cx(n))


def walk(n, path=()):
    yield n, path
    for c in kids(n):
        yield from walk(c, path + (n,))


def off(n):
    b = n.get("range", {}).get("begin", {})
    if "offset" in b:
        return b["offset"]
    return b.get("expansionLoc", {}).get("offset", -1)


def error_sites(fn, text):
    """[(call node, path condition as list of (cond node, positive?))] for error("...text...") calls, source order"""
    out = []
    for n, path in walk(fn):
        if n.get("kind") != "CallExpr":
            continue
        ks = kids(n)
        try:
            if cx(ks[0]) != "error" or text not in cx(ks[1]):
                continue
        except (TieBroken, IndexError, KeyError):
            continue
        conds = []
        chain = list(path) + [n]
        for i, p in enumerate(chain[:-1]):
            if p.get("kind") == "IfStmt":
                pk = kids(p)
                child = chain[i + 1]
                if len(pk) >= 2 and child is pk[1]:
                    conds.append((pk[0], True))
                elif len(pk) >= 3 and child is pk[2]:
                    conds.append((pk[0], False))
        out.append((n, conds))
    out.sort(key=lambda x: off(x[0]))
    return out


def conj(conds, atoms, site):
    parts = []
    for c, pos in conds:
        e = tr(c, atoms, site)
        parts.append(e if pos else "(!" + e + ")")
    return " && ".join(parts) if parts else "true"


def lean_str(s):
    return '"' + s.replace("\\", "\\\\").replace('"', '\\"') + '"'


def assignments(fn, fields):
    out = []
    for n, _ in walk(fn):
        if n.get("kind") == "BinaryOperator" and n.get("opcode") == "=":
            lhs = strip(kids(n)[0])
            if lhs.get("kind") == "MemberExpr" and lhs.get("name") in fields:
                out.append((off(n), cx(n)))
    return [t for _, t in sorted(out)]



# ---- round 5: inventory of every write to object_t.uid / object_t.euid in the driver -------------------------------

import re

SCAN_ROOTS = ("src", "lib")
SCAN_EXT = (".c", ".h", ".cpp", ".cc", ".hpp", ".y", ".l")
MEMBER = re.compile(r"(->|\.)\s*(e?uid)\b")


def blank_comments_strings(t):
    """same-length text with comments, string and character literals replaced by blanks (newlines kept)"""
    out = list(t)
    i, n = 0, len(t)
    while i < n:
        c = t[i]
        if c == "/" and i + 1 < n and t[i + 1] == "*":
            j = t.find("*/", i + 2)
            j = n if j < 0 else j + 2
            for k in range(i, j):
                if out[k] != "\n":
                    out[k] = " "
            i = j
        elif c == "/" and i + 1 < n and t[i + 1] == "/":
            j = t.find("\n", i)
            j = n if j < 0 else j
            for k in range(i, j):
                out[k] = " "
            i = j
        elif c in "\"'":
            j = i + 1
            while j < n and t[j] != c and t[j] != "\n":
                j += 2 if t[j] == "\\" else 1
            j = min(j + 1, n)
            for k in range(i + 1, j - 1):
                if out[k] != "\n":
                    out[k] = " "
            i = j
        else:
            i += 1
    return "".join(out)


def function_spans(t):
    """[(name | None, start, end)] of the top-level brace blocks of comment-free text; preprocessor lines are ignored
    for the brace count; name = identifier before the parameter list that precedes the block"""
    # blank preprocessor lines (with continuations) for the purpose of brace matching
    lines = t.split("\n")
    cont = False
    for i, l in enumerate(lines):
        if cont or l.lstrip().startswith("#"):
            cont = l.rstrip().endswith("\\")
            lines[i] = " " * len(l)
        else:
            cont = False
    u = "\n".join(lines)
    spans, depth, start, name = [], 0, 0, None
    for i, c in enumerate(u):
        if c == "{":
            if depth == 0:
                start = i
                j = i - 1
                while j >= 0 and u[j].isspace():
                    j -= 1
                name = None
                if j >= 0 and u[j] == ")":
                    d = 0
                    while j >= 0:
                        if u[j] == ")":
                            d += 1
                        elif u[j] == "(":
                            d -= 1
                            if d == 0:
                                break
                        j -= 1
                    j -= 1
                    while j >= 0 and u[j].isspace():
                        j -= 1
                    k = j
                    while k >= 0 and (u[k].isalnum() or u[k] == "_"):
                        k -= 1
                    if k < j:
                        name = u[k + 1:j + 1]
            depth += 1
        elif c == "}":
            depth = max(0, depth - 1)
            if depth == 0:
                spans.append((name, start, i))
    return spans


def uid_access_functions():
    """{(relative file, function name)} of every place in the driver sources whose text accesses a member called
    uid / euid; a place that is not inside a function body (a macro, an initialiser) is reported as `<outside>`"""
    found = {}
    for root in SCAN_ROOTS:
        for dp, dns, fns in os.walk(os.path.join(E.REPO, root)):
            dns[:] = [d for d in dns if not d.startswith((".", "_build"))]
            for f in sorted(fns):
                if not f.endswith(SCAN_EXT):
                    continue
                p = os.path.join(dp, f)
                try:
                    raw = open(p, errors="replace").read()
                except OSError:
                    continue
                if "uid" not in raw:
                    continue
                t = blank_comments_strings(raw)
                hits = [m.start() for m in MEMBER.finditer(t)]
                if not hits:
                    continue
                spans = function_spans(t)
                rel = os.path.relpath(p, E.REPO)
                for h in hits:
                    fn = "<outside>"
                    for name, a, b in spans:
                        if a <= h <= b:
                            fn = name or "<unnamed block>"
                            break
                    found.setdefault((rel, fn), 0)
                    found[(rel, fn)] += 1
    return found


LEAVING = ("error", "bad_arg", "fatal")


def leaves(n):
    """does this statement (an if-branch) always end the function: its last statement is a return or a call that
    does not come back"""
    n = strip(n)
    k = n.get("kind")
    if k == "CompoundStmt":
        ks = kids(n)
        return bool(ks) and leaves(ks[-1])
    if k == "ReturnStmt":
        return True
    if k == "CallExpr" and kids(n) and cx(kids(n)[0]) in LEAVING:
        return True
    if k == "IfStmt":
        pk = kids(n)
        return len(pk) >= 3 and leaves(pk[1]) and leaves(pk[2])
    return False


NOISE = ("debug_level", "trace_flags")
RELEVANT = re.compile(r"uid|\bm?ret\b|master_ob|current_object|first_load|get_machine_state|creator_name|\bsp\b|\bob\b")


def master_apply_name(n):
    ks = kids(n)
    if len(ks) >= 2 and cx(ks[0]) in ("apply_master_ob", "safe_apply_master_ob"):
        return cx(ks[1]).strip('"')
    return None


def uid_writes_of(bdir, rel, fname):
    """every write (assignment, compound assignment, ++/--, address taken) to a `userid_t *` member called uid/euid in
    one function: [(offset, statement, master applies called before it, path: enclosing conditions and earlier guards)]"""
    f = ast_function(bdir, rel, fname)
    nodes = list(walk(f))
    applies = sorted((off(n), master_apply_name(n)) for n, _ in nodes if n.get("kind") == "CallExpr" and master_apply_name(n))
    ifs = [(off(n), n, path) for n, path in nodes if n.get("kind") == "IfStmt"]
    out = []
    for n, path in nodes:
        if n.get("kind") != "MemberExpr" or n.get("name") not in ("uid", "euid"):
            continue
        if "userid" not in n.get("type", {}).get("qualType", ""):
            continue
        # climb over parentheses
        i = len(path) - 1
        while i >= 0 and path[i].get("kind") == "ParenExpr":
            i -= 1
        par = path[i] if i >= 0 else None
        if par is not None and par.get("kind") == "ImplicitCastExpr" and par.get("castKind") == "LValueToRValue":
            continue                                   # a read
        if par is not None and par.get("kind") == "MemberExpr":
            continue                                   # ob->uid->name: the pointer itself is read (arrow) ...
        if par is not None and par.get("kind") in ("BinaryOperator", "CompoundAssignOperator"):
            if par.get("kind") == "BinaryOperator" and par.get("opcode") != "=":
                continue
            if strip(kids(par)[0]) is not n:
                continue                               # right-hand side
        o = off(par if par is not None else n)
        conds = []
        chain = list(path)
        for j, p in enumerate(chain):
            if p.get("kind") == "IfStmt":
                pk = kids(p)
                nxt = chain[j + 1] if j + 1 < len(chain) else n
                if len(pk) >= 2 and nxt is pk[1]:
                    conds.append("if " + cx(pk[0]))
                elif len(pk) >= 3 and nxt is pk[2]:
                    conds.append("else " + cx(pk[0]))
        guards = []
        for io, inode, ipath in ifs:
            if io >= o or inode in chain:
                continue
            pk = kids(inode)
            t = cx(pk[0])
            if any(x in t for x in NOISE) or not RELEVANT.search(t):
                continue
            # only guards that dominate the write: their parent chain must be a prefix of ours
            if any(a not in chain for a in ipath if a.get("kind") in ("IfStmt", "WhileStmt", "ForStmt", "DoStmt", "SwitchStmt")):
                continue
            if len(pk) >= 2 and leaves(pk[1]) and not (len(pk) >= 3 and leaves(pk[2])):
                guards.append("unless " + t)
        out.append((o, cx(par if par is not None else n), [a for ao, a in applies if ao < o], guards + conds))
    out.sort(key=lambda x: x[0])
    return out


def lean_list(xs):
    return "[" + ", ".join(lean_str(x) for x in xs) + "]"


def shape(fn, calls, variables=(), start=0, end=None, fields=("uid", "euid")):
    """canonical statement list of a function in source order: if-conditions, writes to uid/euid members and to the
    listed variables (also declarations with initialiser), the listed calls (full text), returns"""
    items = []
    for n, path in walk(fn):
        o = off(n)
        if o < start or (end is not None and o > end):
            continue
        k = n.get("kind")
        if k == "IfStmt":
            t = cx(kids(n)[0])
            if any(x in t for x in NOISE) or any(m.get("kind") == "CallExpr" and kids(m) and cx(kids(m)[0]) == "__assert_fail"
                                         for m, _ in walk(n)):
                continue
            items.append((o, "if " + t))
        elif k == "BinaryOperator" and n.get("opcode") == "=":
            lhs = strip(kids(n)[0])
            if lhs.get("kind") == "MemberExpr" and lhs.get("name") in fields:
                items.append((o, cx(n)))
            elif lhs.get("kind") == "DeclRefExpr" and lhs["referencedDecl"]["name"] in variables:
                if not any(p.get("kind") == "IfStmt" and kids(p) and any(q is n for q, _ in walk(kids(p)[0])) for p in path):
                    items.append((o, cx(n)))
        elif k == "VarDecl" and n.get("name") in variables and kids(n):
            items.append((o, "decl " + n["name"] + " = " + cx(kids(n)[-1])))
        elif k == "CallExpr" and kids(n) and cx(kids(n)[0]) in calls:
            if not any(p.get("kind") == "IfStmt" and kids(p) and any(q is n for q, _ in walk(kids(p)[0])) for p in path):
                # calls inside an if-condition are already part of the condition text
                items.append((o, cx(n) if calls[cx(kids(n)[0])] else cx(kids(n)[0])))
        elif k == "ReturnStmt":
            items.append((o, "return"))
    items.sort(key=lambda x: x[0])
    return [t for _, t in items]


def relevant(items, keep):
    """only the statements of a shape that matter: a harmless change elsewhere in the function leaves the obligation alone"""
    return [t for t in items if any(k in t for k in keep)]


def lean_shape(name, doc, items):
    return "/-- %s -/\ndef %s : List String := [\n  " % (doc, name) + ",\n  ".join(lean_str(t) for t in items) + "]"


def first_call(fn, callee):
    offs = sorted(off(n) for n, _ in walk(fn) if n.get("kind") == "CallExpr" and kids(n) and cx(kids(n)[0]) == callee)
    if not offs:
        raise TieBroken("shape:" + callee, "call of %s not found" % callee)
    return offs[0]



# ---- round 6: decision trees.  A function of the uid machinery is executed symbolically over its clang AST: every path
# through its if-statements ends in a leaf that lists, in order, the writes to the tracked lvalues (with the canonical
# right-hand side), the value handed back to LPC, the master applies asked on the way and how the path ends.  The result is
# a Lean function of the Boolean atoms of the conditions; NV/C20/Tie.lean proves it equal to what the model does.  Statements
# without tracked effects (logging, reference counting, assertions) do not appear, so harmless refactorings leave the tree
# (and the obligations) unchanged, while a changed condition, operand or statement order changes it.

class Sym:
    def __init__(self, name, atoms, tracked, params, results=(), leaving=("error", "bad_arg"), effects=(), variables=(), static=None):
        self.name, self.atoms, self.tracked, self.params = name, atoms, tracked, params
        self.results, self.leaving, self.effects, self.variables = results, leaving, effects, variables
        self.static = static or (lambda cond_text, state: None)

    def has_effect(self, n):
        for m, _ in walk(n):
            k = m.get("kind")
            if k == "ReturnStmt":
                return True
            if k == "CallExpr" and kids(m):
                c = cx(kids(m)[0])
                if c in self.leaving or c in self.effects or c in ("apply_master_ob", "safe_apply_master_ob", "apply", "safe_apply"):
                    return True
            if k in ("BinaryOperator", "CompoundAssignOperator") and m.get("opcode", "").endswith("=") and \
                    m.get("opcode") not in ("==", "!=", "<=", ">="):
                l = cx(kids(m)[0])
                if l in self.tracked or l in self.results or l in self.variables or l in getattr(self, "flags", ()):
                    return True
        return False

    def cond(self, n, state):
        atoms = dict(self.atoms)
        last = state["asked"][-1] if state["asked"] else ""
        for k, v in list(self.atoms.items()):
            if "@" in k:
                base, ap = k.split("@", 1)
                if ap == last:
                    atoms[base] = v
        for var, val in state["vars"].items():
            atoms.setdefault(var, None)
        return tr(n, {k: v for k, v in atoms.items() if v is not None}, self.name)

    def leaf(self, state, how):
        return "{ writes := [%s], res := %s, asked := %s, exit := %s }" % (
            ", ".join("(%s, %s)" % (lean_str(a), lean_str(b)) for a, b in state["writes"]),
            lean_str(state["res"]), lean_list(state["asked"]), lean_str(how))

    def intval(self, n, state):
        """value of an expression that is an integer literal or a local flag whose value is known on this path"""
        n = strip(n)
        if n.get("kind") == "IntegerLiteral":
            return int(n["value"])
        if n.get("kind") == "DeclRefExpr":
            v = state["ints"].get(n["referencedDecl"]["name"])
            return v
        if n.get("kind") == "UnaryOperator" and n.get("opcode") == "!" :
            v = self.intval(kids(n)[0], state)
            return None if v is None else int(not v)
        return None

    def rhs(self, n, state):
        m = strip(n)
        # `flag ? a : b` with a flag whose value is known on this path (single-exit style)
        if m.get("kind") == "ConditionalOperator":
            c, a, b = kids(m)
            v = self.intval(c, state)
            if v is not None:
                return self.rhs(a if v else b, state)
        t = cx(n)
        for var, val in state["vars"].items():
            if val is not None:
                t = re.sub(r"(?<![>.\w])%s\b" % re.escape(var), "<%s>" % val, t)
        return t

    def effects_of(self, n, state):
        """apply the tracked effects of one expression statement, in source order; returns a leaf text when the
        statement leaves the function"""
        evs = []
        for m, path in walk(n):
            k = m.get("kind")
            if k == "CallExpr" and kids(m):
                c = cx(kids(m)[0])
                if c in ("apply_master_ob", "safe_apply_master_ob", "apply", "safe_apply"):
                    evs.append((off(m), "ask", (c, cx(kids(m)[1]).strip('"') if len(kids(m)) > 1 else "?")))
                elif c in self.leaving:
                    evs.append((off(m) + 10 ** 9, "leave", c))       # after the effects of its own arguments
                elif c in self.effects:
                    evs.append((off(m), "effect", m))
            elif k in ("BinaryOperator", "CompoundAssignOperator") and m.get("opcode", "").endswith("=") and \
                    m.get("opcode") not in ("==", "!=", "<=", ">="):
                l = cx(kids(m)[0])
                if l in self.tracked or l in self.results or l in self.variables:
                    evs.append((off(m) + 10 ** 8, "assign", m))        # after the calls inside its right-hand side
        for m, path in walk(n):
            if m.get("kind") in ("BinaryOperator", "CompoundAssignOperator") and m.get("opcode", "").endswith("=") and \
                    m.get("opcode") not in ("==", "!=", "<=", ">="):
                lhs = strip(kids(m)[0])
                if lhs.get("kind") == "DeclRefExpr" and lhs["referencedDecl"]["name"] in state["ints"]:
                    v = self.intval(kids(m)[1], state) if m.get("kind") == "BinaryOperator" else None
                    state["ints"][lhs["referencedDecl"]["name"]] = v
            if m.get("kind") == "UnaryOperator" and m.get("opcode") in ("++", "--") and kids(m):
                u = strip(kids(m)[0])
                if u.get("kind") == "DeclRefExpr" and u["referencedDecl"]["name"] in state["ints"]:
                    state["ints"][u["referencedDecl"]["name"]] = None
        evs.sort(key=lambda e: e[0])
        for _, kind, x in evs:
            if kind == "ask":
                state["asked"].append(x[1] if x[0] == "apply_master_ob" else x[0] + ":" + x[1])
            elif kind == "effect":
                state["writes"].append((cx(kids(x)[0]), self.rhs(x, state)))
            elif kind == "assign":
                self.seen.add(off(x))
                l = cx(kids(x)[0])
                if x.get("kind") == "CompoundAssignOperator":
                    r = "%s %s" % (x.get("opcode"), self.rhs(kids(x)[1], state))
                else:
                    r = self.rhs(kids(x)[1], state)
                if l in self.variables:
                    rn = strip(kids(x)[1])
                    state["vars"][l] = self.variables[l](rn, r)
                elif l in self.results:
                    state["res"] = r
                else:
                    state["writes"].append((l, r))
            elif kind == "leave":
                return self.leaf(state, "error:" + x)
        return None

    def run(self, stmts, state):
        import copy
        while stmts:
            s, stmts = stmts[0], stmts[1:]
            k = s.get("kind")
            if k == "CompoundStmt":
                stmts = kids(s) + stmts
                continue
            if k in ("NullStmt",):
                continue
            if k == "DeclStmt":
                for d in kids(s):
                    if d.get("kind") == "VarDecl" and d.get("type", {}).get("qualType") in ("int", "char", "short", "long", "_Bool") \
                            and kids(d) and strip(kids(d)[-1]).get("kind") == "IntegerLiteral" and d.get("name") not in self.variables:
                        state["ints"][d["name"]] = int(strip(kids(d)[-1])["value"])     # a local flag
                        continue
                    if d.get("kind") == "VarDecl" and d.get("name") in self.variables and kids(d):
                        init = kids(d)[-1]
                        state["vars"][d["name"]] = self.variables[d["name"]](strip(init), cx(init))
                    elif d.get("kind") == "VarDecl" and kids(d) and self.has_effect(kids(d)[-1]):
                        out = self.effects_of(kids(d)[-1], state)
                        if out:
                            return out
                continue
            if k == "ReturnStmt":
                if kids(s):
                    out = self.effects_of(kids(s)[0], state)
                    if out:
                        return out
                    if "<return>" in self.results:
                        state["res"] = cx(kids(s)[0])
                return self.leaf(state, "return")
            if k == "IfStmt":
                pk = kids(s)
                c, th, el = pk[0], pk[1], (pk[2] if len(pk) > 2 else None)
                ct = cx(c)
                if any(x in ct for x in NOISE) or not (self.has_effect(th) or (el is not None and self.has_effect(el)) or self.has_effect(c)):
                    continue                                        # logging, assertions, reference counting
                st = self.static(ct, state)
                if st is None:
                    iv = self.intval(c, state)
                    if iv is not None:
                        st = bool(iv)
                if st is True:
                    stmts = [th] + stmts
                    continue
                if st is False:
                    stmts = ([el] if el is not None else []) + stmts
                    continue
                if self.has_effect(c):
                    out = self.effects_of(c, state)
                    if out:
                        return out
                ce = self.cond(c, state)
                a = self.run([th] + stmts, copy.deepcopy(state))
                b = self.run(([el] if el is not None else []) + stmts, copy.deepcopy(state))
                return "(if %s then %s else %s)" % (ce, a, b) if a != b else a
            if k in ("WhileStmt", "ForStmt", "DoStmt", "SwitchStmt", "GotoStmt", "LabelStmt"):
                if self.has_effect(s):
                    raise TieBroken("tree:" + self.name, "a %s with uid effects in %s: outside the translator's grammar" % (k, self.name))
                continue
            out = self.effects_of(s, state)
            if out:
                return out
        return self.leaf(state, "end")

    def lean(self, fn, doc):
        body = [c for c in kids(fn) if c.get("kind") == "CompoundStmt"][0]
        self.seen = set()
        self.flags = set(d.get("name") for d, _ in walk(fn) if d.get("kind") == "VarDecl" and
                         d.get("type", {}).get("qualType") in ("int", "char", "short", "long", "_Bool") and kids(d) and
                         strip(kids(d)[-1]).get("kind") == "IntegerLiteral") - set(self.variables)
        t = self.run([body], {"writes": [], "res": "", "asked": [], "vars": {}, "ints": {}})
        # every write to a tracked lvalue must lie on a path of the tree (none hidden in a loop, a switch, a condition)
        for m, _ in walk(fn):
            if m.get("kind") in ("BinaryOperator", "CompoundAssignOperator") and m.get("opcode", "").endswith("=") and \
                    m.get("opcode") not in ("==", "!=", "<=", ">=") and cx(kids(m)[0]) in self.tracked and off(m) not in self.seen:
                raise TieBroken("tree:" + self.name, "the write `%s` is on no path of the decision tree of %s" % (cx(m), self.name))
            if m.get("kind") == "UnaryOperator" and m.get("opcode") in ("++", "--", "&") and kids(m) and cx(kids(m)[0]) in self.tracked:
                raise TieBroken("tree:" + self.name, "`%s` (increment / address of a uid field) in %s" % (cx(m), self.name))
        return "/-- %s -/\ndef %s (%s : Bool) : Leaf :=\n  %s" % (doc, self.name, " ".join(self.params), t)


def generate_round6(bdir, t_number, t_string, ms_limbo, o_destructed, XXV):
    L = []
    L.append("/-- end of one path through a function: the writes to the tracked lvalues in order (lvalue, canonical right-hand\n"
             "    side; `<answer>` = the string creator_file returned), the value handed back, the master applies asked on the way,\n"
             "    how the path ends (`return`, `end`, `error:<callee>`) -/\n"
             "structure Leaf where\n  writes : List (String × String)\n  res : String\n  asked : List String\n  exit : String\n"
             "  deriving DecidableEq, Repr")

    # give_uid_to_object
    def gu_static(ct, state):
        if ct == "!creator_name":
            v = state["vars"].get("creator_name")
            return v is None
        return None

    def cn_value(rn, text):
        if rn.get("kind") == "StringLiteral":
            return "lit:" + rn["value"].strip('"')
        if text == "ret->u.string":
            return "answer"
        if text in ("0", "NULL"):
            return None
        return "other:" + text
    f = ast_function(bdir, "src/simulate.c", "give_uid_to_object")
    sym = Sym("giveUidTree",
              {"(get_machine_state() < %d)" % ms_limbo: "preMaster", "ret==-1": "noMaster", "ret": "ret",
               "ret->type==%d" % t_string: "retString", "current_object": "cur", "current_object->uid": "curUid",
               "strcmp(current_object->uid->name, creator_name)": "uidDiffers", "backbone_uid": "bbSet",
               "current_object->euid": "curEuid", "strcmp(backbone_uid->name, creator_name)": "bbDiffers"},
              tracked=("ob->uid", "ob->euid"),
              params=("preMaster", "noMaster", "ret", "retString", "cur", "curUid", "uidDiffers", "bbSet", "curEuid", "bbDiffers"),
              leaving=("error",), effects=("destruct_object",), variables={"creator_name": cn_value}, static=gu_static)
    L.append(sym.lean(f, "give_uid_to_object as a decision tree (preMaster: get_machine_state() < MS_MUDLIB_LIMBO; noMaster: the apply\n"
                         "    found no master; ret / retString: creator_file returned something / a string; cur: current_object != 0; curUid,\n"
                         "    curEuid: its uid / euid != NULL; uidDiffers / bbDiffers: strcmp of its uid name / the backbone uid name with the\n"
                         "    creator name != 0; bbSet: backbone_uid != NULL)"))

    # f_seteuid
    f = ast_function(bdir, "lib/efuns/uids.c", "f_seteuid")
    sym = Sym("seteuidTree",
              {"(sp->type & %d)" % t_number: "argIsNumber", "sp->u.number": "argNonZero", "ret==-1": "noMaster", "ret": "ret",
               "ret->type==%d" % t_number: "isNumber", "ret->u.number": "number"},
              tracked=("current_object->euid",), params=("argIsNumber", "argNonZero", "noMaster", "ret", "isNumber", "number"),
              results=("*sp", "sp->u.number"))
    L.append(sym.lean(f, "f_seteuid as a decision tree (argIsNumber / argNonZero: the argument; noMaster, ret, isNumber, number: the svalue\n"
                         "    valid_seteuid returned, as in `seteuidRefuses`)"))

    # f_export_uid
    f = ast_function(bdir, "lib/efuns/uids.c", "f_export_uid")
    sym = Sym("exportTree", {"current_object->euid": "curEuid", "ob->euid": "tgtEuid"}, tracked=("ob->uid", "ob->euid", "current_object->uid", "current_object->euid"),
              params=("curEuid", "tgtEuid"), results=("*sp",), leaving=("error",))
    L.append(sym.lean(f, "f_export_uid as a decision tree (curEuid: caller's euid != NULL; tgtEuid: target's euid != NULL)"))

    # reload_object
    f = ast_function(bdir, "lib/lpc/object.c", "reload_object")
    sym = Sym("reloadTree", {"obj->prog": "hasProg"}, tracked=("obj->uid", "obj->euid"), params=("hasProg",),
              effects=("call_create",), leaving=())
    L.append(sym.lean(f, "reload_object as a decision tree: the euid reset and then create()"))

    # set_master
    def uid_value(rn, text):
        if text in ("0", "NULL"):
            return None
        return "root-answer" if text == "ret->u.string" else "other:" + text

    def sm_static(ct, state):
        if ct == "uid":
            return state["vars"].get("uid") is not None
        return None
    f = ast_function(bdir, "src/simulate.c", "set_master")
    sym = Sym("setMasterTree",
              {"ob": "obSet", "(ob->flags & %d)" % o_destructed: "obDestructed", "(master_ob = ob)": "obSet", "first_load": "firstLoad",
               "ret@get_root_uid": "rootRet", "ret->type==%d@get_root_uid" % t_string: "rootIsString",
               "ret@get_bb_uid": "bbRet", "ret->type==%d@get_bb_uid" % t_string: "bbIsString"},
              tracked=("master_ob->uid", "master_ob->euid"),
              params=("obSet", "obDestructed", "firstLoad", "rootRet", "rootIsString", "bbRet", "bbIsString"),
              effects=("set_backbone_uid",), leaving=("error",), variables={"uid": uid_value}, static=sm_static)
    L.append(sym.lean(f, "set_master as a decision tree (firstLoad: no master before; rootRet / rootIsString, bbRet / bbIsString: what\n"
                         "    get_root_uid() / get_bb_uid() returned)"))
    # f_bind
    f = ast_function(bdir, "lib/lpc/operator.c", "f_bind")
    fpl = XXV["fpLocal"]; fnb = XXV["fpNotBindable"]
    sym = Sym("bindTree",
              {"ob==old_fp->hdr.owner": "sameOwner", "old_fp->hdr.type==(%d | %d)" % (fpl, fnb): "localFn",
               "(old_fp->hdr.type & %d)" % fnb: "notBindable", "res==-1": "noMaster", "res": "res",
               "res->type==%d" % t_number: "isNumber", "res->u.number": "number"},
              tracked=("new_fp->hdr.owner",), params=("sameOwner", "localFn", "notBindable", "noMaster", "res", "isNumber", "number"),
              leaving=("error",))
    L.append(sym.lean(f, "f_bind as a decision tree (sameOwner: the new owner already owns the function; localFn / notBindable: the\n"
                         "    two unbindable kinds; noMaster, res, isNumber, number: the svalue valid_bind returned)"))
    # load_virtual_object
    f = ast_function(bdir, "src/simulate.c", "load_virtual_object")
    sym = Sym("loadVirtualTree", {"(get_machine_state() < %d)" % ms_limbo: "preMaster", "v": "v", "v->type==%d" % XXV["tObject"]: "isObject"},
              tracked=("ob->uid", "ob->euid", "v->u.ob->uid", "v->u.ob->euid"), params=("preMaster", "v", "isObject"),
              results=("<return>",), effects=("give_uid_to_object", "init_object"), leaving=("error",))
    L.append(sym.lean(f, "load_virtual_object as a decision tree: master compile_object, an object or nothing; no uid is given"))
    return L


def generate_round5(bdir):
    L = []
    # ---- inventory --------------------------------------------------------------------------------------------------
    acc = uid_access_functions()
    sites = []
    readers = []
    for (rel, fn) in sorted(acc):
        if fn.startswith("<") or not rel.endswith(".c"):
            # a macro / initialiser / header function touching uid or euid: nothing the model knows of
            sites.append((rel, fn, "<%d access(es) outside a function body of a .c file>" % acc[(rel, fn)], [], []))
            continue
        try:
            ws = uid_writes_of(bdir, rel, fn)
        except TieBroken as e:
            sites.append((rel, fn, "<not analysable: %s>" % e, [], []))
            continue
        if not ws:
            readers.append((rel, fn))
        for _, stmt, apps, conds in ws:
            sites.append((rel, fn, stmt, apps, conds))
    L.append("/-- one write to an object's uid / euid field somewhere in the driver -/\n"
             "structure UidWrite where\n  file : String\n  fn : String\n  stmt : String\n"
             "  /-- master applies called earlier in the same function (source order) -/\n  applies : List String\n"
             "  /-- guards that dominate the statement: `unless c` = an earlier `if (c)` that leaves the function,\n"
             "      `if c` / `else c` = enclosing branches -/\n  path : List String\n  deriving DecidableEq, Repr")
    L.append("/-- EVERY write (assignment, compound assignment, increment, address taken) to a member called uid / euid of type\n"
             "    userid_t* in src/ and lib/ (text scan of all sources for the member access, clang AST of each function found) -/\n"
             "def uidWrites : List UidWrite := [\n  " +
             ",\n  ".join("{ file := %s, fn := %s, stmt := %s,\n    applies := %s,\n    path := %s }" %
                         (lean_str(a), lean_str(b), lean_str(c), lean_list(d), lean_list(e)) for a, b, c, d, e in sites) + "]")
    # set_root_uid / set_backbone_uid RENAME an existing uid record in place (every holder of the record changes its name):
    # who calls them, and under which conditions
    ren = []
    callre = re.compile(r"\b(set_root_uid|set_backbone_uid)\s*\(")
    for root in SCAN_ROOTS:
        for dp, dns, fns in os.walk(os.path.join(E.REPO, root)):
            dns[:] = [d for d in dns if not d.startswith((".", "_build"))]
            for fn in sorted(fns):
                if not fn.endswith(SCAN_EXT):
                    continue
                pth = os.path.join(dp, fn)
                try:
                    raw = open(pth, errors="replace").read()
                except OSError:
                    continue
                if "set_root_uid" not in raw and "set_backbone_uid" not in raw:
                    continue
                t = blank_comments_strings(raw)
                spans = function_spans(t)
                rel = os.path.relpath(pth, E.REPO)
                for m in callre.finditer(t):
                    f = None
                    for name, a, b in spans:
                        if a <= m.start() <= b:
                            f = name or "<unnamed block>"
                            break
                    if f is None:
                        continue            # prototype / definition head
                    if f == m.group(1):
                        continue
                    ren.append((rel, f, m.group(1)))
    ren_items = []
    for rel, f, callee in sorted(set(ren)):
        conds = ["<not analysable>"]
        if rel.endswith(".c") and not f.startswith("<"):
            try:
                fa = ast_function(bdir, rel, f)
                conds = []
                for n, path in walk(fa):
                    if n.get("kind") == "CallExpr" and kids(n) and cx(kids(n)[0]) == callee:
                        chain = list(path) + [n]
                        cs = []
                        for j, pnode in enumerate(chain[:-1]):
                            if pnode.get("kind") == "IfStmt":
                                pk = kids(pnode)
                                if len(pk) >= 2 and chain[j + 1] is pk[1]:
                                    cs.append("if " + cx(pk[0]))
                                elif len(pk) >= 3 and chain[j + 1] is pk[2]:
                                    cs.append("else " + cx(pk[0]))
                        conds.append(" && ".join(cs))
            except TieBroken as e:
                conds = ["<not analysable: %s>" % e]
        for c in conds:
            ren_items.append((rel, f, callee, c))
    L.append("/-- every call of set_root_uid / set_backbone_uid (they rename a uid record IN PLACE) with its enclosing conditions -/\n"
             "def uidRenamers : List (String × String × String × String) := [" +
             ", ".join("(%s, %s, %s, %s)" % tuple(lean_str(x) for x in it) for it in ren_items) + "]")
    L.append("/-- functions that read the fields without writing them -/\n"
             "def uidReaders : List (String × String) := [" + ", ".join("(%s, %s)" % (lean_str(a), lean_str(b)) for a, b in readers) + "]")

    # ---- statement order where the tree translation does not reach (only the statements that matter are kept) -----------
    f = ast_function(bdir, "src/simulate.c", "load_object")
    L.append(lean_shape("loadTailShape", "load_object from get_empty_object to call_create, the statements that matter: default uid BEFORE "
                        "enter_object_hash, valid_object, init_object (= give_uid_to_object), then create()",
                        relevant(shape(f, {"get_empty_object": False, "enter_object_hash": True, "apply_master_ob": True,
                                           "safe_apply_master_ob": True, "destruct_object": True, "error": False, "init_object": True,
                                           "give_uid_to_object": True, "call_create": True},
                                       start=first_call(f, "get_empty_object"), end=first_call(f, "call_create")),
                                 ("get_empty_object", "uid", "enter_object_hash", "apply_master_ob", "mret", "init_object",
                                  "give_uid_to_object", "call_create", "get_machine_state"))))
    f = ast_function(bdir, "src/simulate.c", "clone_object")
    L.append(lean_shape("cloneShape", "clone_object, the statements that matter: euid tests, find_or_load_object, virtual branch "
                        "(load_virtual_object, make_new_name, enter_object_hash), make_new_name, init_object, enter_object_hash, "
                        "create() in source order",
                        relevant(shape(f, {"error": True, "find_or_load_object": True, "load_virtual_object": True,
                                           "get_empty_object": False, "make_new_name": True, "init_object": True,
                                           "give_uid_to_object": True, "enter_object_hash": True, "call_create": True}),
                                 ("euid", "effective UID", "find_or_load_object", "load_virtual_object", "get_empty_object",
                                  "make_new_name", "init_object", "give_uid_to_object", "enter_object_hash", "call_create",
                                  "strrchr", "ob->ref"))))
    # ---- make_new_name: the clone counter (`cloneSeq`) -----------------------------------------------------------------
    f = ast_function(bdir, "src/simulate.c", "make_new_name")
    items = []
    for n, _ in walk(f):
        k = n.get("kind")
        if k == "VarDecl" and n.get("name") == "i":
            items.append((off(n), "decl %s i = %s" % (n.get("storageClass", "auto"), cx(kids(n)[-1]) if kids(n) else "?")))
        elif k == "CallExpr" and kids(n) and cx(kids(n)[0]) == "sprintf":
            items.append((off(n), "sprintf(" + ", ".join(cx(a) for a in kids(n)[2:]) + ")"))
        elif k == "UnaryOperator" and n.get("opcode") in ("++", "--") and cx(kids(n)[0]) == "i":
            items.append((off(n), ("post" if n.get("isPostfix") else "pre") + n["opcode"] + " i"))
        elif k in ("BinaryOperator", "CompoundAssignOperator") and n.get("opcode", "").endswith("=") and n.get("opcode") not in ("==", "!=", "<=", ">=") \
                and cx(kids(n)[0]) == "i":
            items.append((off(n), cx(n)))
    items.sort()
    L.append(lean_shape("makeNewNameShape", "make_new_name: one static counter starting at 1, name = <str>#<counter>, incremented once per call",
                        [t for _, t in items]))
    # ---- destruct_object: the simul_efun refusal and the vital-object branch (master reload) ------------------------------
    f = ast_function(bdir, "src/simulate.c", "destruct_object")
    sh = shape(f, {"set_master": True, "set_simul_efun": True, "error": True}, variables=("new_ob",))
    L.append(lean_shape("destructVitalShape", "destruct_object, only what concerns the master / simul_efun object: the refusal to destruct the "
                        "simul_efun object while a master exists, the reload of a vital object through load_object (on behalf of the "
                        "caller: its euid test) followed by set_master / set_simul_efun",
                        relevant(sh, ("(ob == simul_efun_ob) && master_ob", "Cannot destruct simul_efun", "= load_object(", "set_master(",
                                      "set_simul_efun("))))
    # ---- error texts the model renders (canonical form of the harness: newline dropped, blanks -> `_`) ---------------------
    def err_text(relsrc, fn, needle):
        ff = ast_function(bdir, relsrc, fn)
        for n, _ in walk(ff):
            if n.get("kind") == "CallExpr" and kids(n) and cx(kids(n)[0]) == "error" and len(kids(n)) > 1:
                t = cx(kids(n)[1])
                if needle in t:
                    t = t.strip('"')
                    if t.endswith("\\n"):
                        t = t[:-2]
                    return t.replace(" ", "_")
        raise TieBroken("errtext:" + fn, "error text containing `%s` not found in %s" % (needle, fn))
    L.append("/-- the driver's error texts behind the model's `Err` outcomes, in the harness's canonical form -/\n"
             "def errTexts : List String := [" + ", ".join(lean_str(x) for x in [
                 err_text("src/simulate.c", "load_object", "no effective user"),
                 err_text("src/simulate.c", "clone_object", "without effective UID"),
                 err_text("lib/efuns/uids.c", "f_export_uid", "export uid 0"),
                 err_text("src/simulate.c", "destruct_object", "simul_efun_object"),
                 err_text("lib/lpc/operator.c", "f_bind", "Permission of binding")]) + "]")
    f = ast_function(bdir, "src/simulate.c", "init_object")
    L.append(lean_shape("initObjectShape", "init_object: nothing but give_uid_to_object",
                        shape(f, {"give_uid_to_object": True})))
    return L


def generate(bdir, t_number):
    L = []
    cur_atoms = {"current_object": "cur", "current_object==master_ob": "curIsMaster", "current_object->euid": "curEuid"}

    # ---- load_object --------------------------------------------------------------------------------------------
    f = ast_function(bdir, "src/simulate.c", "load_object")
    sites = error_sites(f, "Can't load objects when no effective user")
    if len(sites) != 1:
        raise TieBroken("guard:load_object", "expected exactly one `no effective user` error in load_object, found %d" % len(sites))
    a = dict(cur_atoms)
    for c, _ in sites[0][1]:
        t = cx(c)
        if t.startswith("(get_machine_state() >="):
            a[t] = "limbo"
    L.append("/-- load_object: when error(\"*Can't load objects when no effective user.\") is reached\n"
             "    (limbo: the master exists; cur: current_object != 0; curIsMaster: current_object == master_ob;\n"
             "    curEuid: current_object->euid != NULL) -/\n"
             "def loadRefuses (limbo cur curIsMaster curEuid : Bool) : Bool := " + conj(sites[0][1], a, "load_object"))
    # nothing but name handling may run before the test: no call that creates or asks the master
    body_calls = [(off(n), cx(kids(n)[0])) for n, _ in walk(f) if n.get("kind") == "CallExpr" and kids(n)
                  and strip(kids(n)[0]).get("kind") == "DeclRefExpr"]
    before = sorted(c for o, c in body_calls if 0 <= o < off(sites[0][0]))
    risky = [c for c in before if c in ("apply_master_ob", "safe_apply_master_ob", "get_empty_object", "load_virtual_object",
                                        "compile_file", "load_binary", "enter_object_hash", "call_create")]
    L.append("/-- load_object: no master apply / object creation happens before the euid test -/\n"
             "def loadTestFirst : Nat := %d" % (0 if risky else 1))

    # ---- clone_object -------------------------------------------------------------------------------------------
    f = ast_function(bdir, "src/simulate.c", "clone_object")
    sites = error_sites(f, "Attempt to create object without effective UID")
    if len(sites) != 2:
        raise TieBroken("guard:clone_object", "expected the entry test and the repeated test in clone_object, found %d error sites" % len(sites))
    L.append("/-- clone_object: the euid test on entry -/\n"
             "def cloneEntryRefuses (cur curIsMaster curEuid : Bool) : Bool := " + conj(sites[0][1], cur_atoms, "clone_object:entry"))
    L.append("/-- clone_object: the euid test repeated once the blueprint is available -/\n"
             "def cloneRetestRefuses (cur curIsMaster curEuid : Bool) : Bool := " + conj(sites[1][1], cur_atoms, "clone_object:retest"))
    find = [off(n) for n, _ in walk(f) if n.get("kind") == "CallExpr" and cx(kids(n)[0]) == "find_or_load_object"]
    virt = [off(n) for n, _ in walk(f) if n.get("kind") == "IfStmt" and cx(kids(n)[0]).startswith("(ob->flags &")]
    made = [off(n) for n, _ in walk(f) if n.get("kind") == "CallExpr" and cx(kids(n)[0]) in ("get_empty_object", "load_virtual_object")]
    # (the flag test of the virtual branch is not required any more: what matters is that both tests and the blueprint lookup
    # come before anything is made)
    ok = (len(find) == 1 and made and off(sites[0][0]) < find[0] < off(sites[1][0]) < min(made))
    L.append("/-- clone_object: entry test < find_or_load_object < repeated test < virtual-object branch and every creation -/\n"
             "def cloneOrderOk : Nat := %d" % (1 if ok else 0))

    # ---- f_export_uid -------------------------------------------------------------------------------------------
    f = ast_function(bdir, "lib/efuns/uids.c", "f_export_uid")
    sites = error_sites(f, "Illegal to export uid 0")
    if len(sites) != 1:
        raise TieBroken("guard:f_export_uid", "error(\"Illegal to export uid 0\") not found exactly once")
    L.append("/-- f_export_uid: when the error is raised -/\n"
             "def exportErrors (curEuid : Bool) : Bool := " + conj(sites[0][1], {"current_object->euid": "curEuid"}, "f_export_uid:error"))

    # ---- f_seteuid ----------------------------------------------------------------------------------------------
    f = ast_function(bdir, "lib/efuns/uids.c", "f_seteuid")
    ifs = sorted(((off(n), n) for n, p in walk(f) if n.get("kind") == "IfStmt"), key=lambda x: x[0])
    shape = []
    for _, n in ifs:
        shape.append("if " + cx(kids(n)[0]))
    calls = sorted((off(n), cx(kids(n)[0]) if cx(kids(n)[0]) == "bad_arg" else cx(n)) for n, _ in walk(f)
                   if n.get("kind") == "CallExpr" and
                   cx(kids(n)[0]) in ("apply_master_ob", "safe_apply_master_ob", "apply", "safe_apply", "bad_arg", "add_uid"))
    # the refusal condition, semantically
    refusal = None
    for _, n in ifs:
        if "ret" in cx(kids(n)[0]):
            refusal = n
    if refusal is None:
        raise TieBroken("guard:f_seteuid", "the test of the master's verdict was not found")
    a = {"ret==-1": "noMaster", "ret": "ret", "ret->type==%d" % t_number: "isNumber", "ret->u.number": "number"}
    L.append("/-- f_seteuid: when the master's verdict refuses (noMaster: ret == (svalue_t *)-1; ret: ret != 0;\n"
             "    isNumber: ret->type == T_NUMBER; number: ret->u.number != 0) -/\n"
             "def seteuidRefuses (noMaster ret isNumber number : Bool) : Bool := " + tr(kids(refusal)[0], a, "f_seteuid:verdict"))

    # ---- give_uid_to_object ---------------------------------------------------------------------------------------
    f = ast_function(bdir, "src/simulate.c", "give_uid_to_object")
    items = []
    for n, _ in walk(f):
        if n.get("kind") == "IfStmt":
            t = cx(kids(n)[0])
            if "debug_level" not in t:          # opt_info() logging
                items.append((off(n), "if " + t))
        elif n.get("kind") == "BinaryOperator" and n.get("opcode") == "=":
            lhs = strip(kids(n)[0])
            if lhs.get("kind") == "MemberExpr" and lhs.get("name") in ("uid", "euid"):
                items.append((off(n), cx(n)))
            elif lhs.get("kind") == "DeclRefExpr" and lhs["referencedDecl"]["name"] == "creator_name":
                items.append((off(n), cx(n)))
        elif n.get("kind") == "ReturnStmt":
            items.append((off(n), "return"))
    items.sort()
    L.append("/-- give_uid_to_object: conditions, uid/euid/creator_name assignments and returns in source order -/\n"
             "def giveUidShape : List String := [\n  " + ",\n  ".join(lean_str(t) for _, t in items) + "]")
    L += generate_round5(bdir)
    import nvlib.extract as XX
    vals = XX.probe_values(bdir, [("tString", "T_STRING"), ("ms", "MS_MUDLIB_LIMBO"), ("od", "O_DESTRUCTED"), ("tObject", "T_OBJECT"),
                                  ("fpLocal", "FP_LOCAL"), ("fpNotBindable", "FP_NOT_BINDABLE")],
                           ["lpc/types.h", "lpc/object.h", "lpc/include/function.h", "src/simulate.h"])
    L += generate_round6(bdir, t_number, vals["tString"], vals["ms"], vals["od"], vals)
    return "\n\n".join(L) + "\n"
