"""C19 translator, lock discipline: the clang AST of every function that touches the shared state of async_queue /
of the completion ring is turned into a small structured program (`LStmt`) of lock / unlock / event-wait / event-set /
field-access actions with the function's real control flow (if / while / for / return / continue / break).  The Lean
side (NV/C19/Locks.lean) checks that on EVERY path through that program every access to a shared field happens with the
mutex held, no lock is taken twice, every return leaves it released, the event wait is made without it - and proves the
checker sound for the path semantics.  A statement kind the translator does not know is a broken tie, never a guess."""
import json
import os
import subprocess

from nvlib import engine as E
from nvlib import extract as X

# per source file: struct parameter type members that are SHARED (need the mutex), IMMUTABLE after create (may be read
# anywhere, must never be written here), the lock / unlock calls with the mutex member they must name, functions
SPECS = [
    {"key": "queue", "file": "lib/async/async_queue.c",
     "lock": ("platform_mutex_lock", "mutex"), "unlock": ("platform_mutex_unlock", "mutex"),
     "wait": "platform_event_wait", "set": "platform_event_set",
     "shared": ["head", "tail", "count", "enqueue_count", "dequeue_count", "dropped_count"],
     "immutable": ["buffer", "capacity", "max_msg_size", "msg_slot_size", "flags"],
     "alias_calls": {"get_slot": "slots"},          # a local initialised from this call points into the shared buffer
     "alias_members": {},
     "other": ["not_full", "not_empty"],          # the events: synchronisation objects themselves
     "exempt": ["async_queue_create", "async_queue_destroy"]},
    {"key": "epoll", "file": "lib/async/async_runtime_epoll.c",
     "lock": ("pthread_mutex_lock", "ring_lock"), "unlock": ("pthread_mutex_unlock", "ring_lock"),
     "wait": None, "set": None,
     "shared": ["ring", "ring_head", "ring_count"], "immutable": [],
     "alias_calls": {}, "alias_members": {"ring": "ring"},   # `&runtime->ring[i]` stored in a local: later uses touch the ring
     "other": ["epoll_fd", "event_fd", "console_type"],       # set by init / by the backend thread only
     "exempt": ["async_runtime_init", "async_runtime_deinit"]},
    {"key": "poll", "file": "lib/async/async_runtime_poll.c", "undef": ["__linux__"],
     "lock": ("pthread_mutex_lock", "ring_lock"), "unlock": ("pthread_mutex_unlock", "ring_lock"),
     "wait": None, "set": None,
     "shared": ["ring", "ring_head", "ring_count"], "immutable": [],
     "alias_calls": {}, "alias_members": {"ring": "ring"},
     "other": ["pollfds", "mappings", "capacity", "count", "notify_pipe", "console_type"],   # backend thread only / init
     "exempt": ["async_runtime_init", "async_runtime_deinit"]},
]

# functions that must be found (renaming one of them is not a harmless change for this property)
ANCHORS = ["queue:async_queue_enqueue", "queue:async_queue_dequeue", "queue:async_queue_clear",
           "epoll:async_runtime_post_completion", "epoll:async_runtime_wait",
           "poll:async_runtime_post_completion", "poll:async_runtime_wait"]


def functions_of(spec):
    """every function DEFINED in the file (so a function added later is checked too), minus the constructors /
    destructors, which run while no other thread can have the object"""
    import re
    src = open(os.path.join(E.REPO, spec["file"])).read()
    src = re.sub(r"/\*.*?\*/", " ", src, flags=re.S)
    src = re.sub(r"//[^\n]*", " ", src)
    names = []
    for m in re.finditer(r"^[A-Za-z_][\w\s\*]*?\b([A-Za-z_]\w*)\s*\([^;{}]*\)\s*\{", src, flags=re.M):
        n = m.group(1)
        if n not in ("if", "while", "for", "switch") and n not in names and n not in spec["exempt"]:
            names.append(n)
    return names

ASSIGN_OPS = {"=", "+=", "-=", "*=", "/=", "%=", "&=", "|=", "^=", "<<=", ">>="}


def _ast(bdir, spec, fn):
    cmd = ["clang-14", "-Xclang", "-ast-dump=json", "-Xclang", "-ast-dump-filter=" + fn, "-fsyntax-only",
           "-DHAVE_CONFIG_H", "-D_GNU_SOURCE", "-w"] + ["-U" + u for u in spec.get("undef", [])] + \
        E.include_flags(bdir) + [os.path.join(E.REPO, spec["file"])]
    p = subprocess.run(cmd, capture_output=True, text=True)
    s = p.stdout
    dec = json.JSONDecoder()
    i = 0
    best = None
    while i < len(s):
        while i < len(s) and s[i].isspace():
            i += 1
        if i >= len(s):
            break
        try:
            d, i = dec.raw_decode(s, i)
        except ValueError:
            break
        if d.get("kind") == "FunctionDecl" and d.get("name") == fn and \
                any(c.get("kind") == "CompoundStmt" for c in d.get("inner", [])):
            best = d
    if best is None:
        raise X.TieBroken("locks:%s:%s" % (spec["key"], fn), "no definition of %s in the clang AST of %s (%s)" %
                          (fn, spec["file"], (p.stderr or "").strip()[-200:]))
    parms = [c.get("name") for c in best["inner"] if c.get("kind") == "ParmVarDecl"]
    return [c for c in best["inner"] if c.get("kind") == "CompoundStmt"][0], (parms[0] if parms else "")


class _Fn:
    def __init__(self, spec, fn, owner=""):
        self.spec = spec
        self.owner = owner        # name of the parameter that points to the shared structure
        self.site = "locks:%s:%s" % (spec["key"], fn)
        self.alias = {}           # local variable name -> shared region it points into

    # ---- expressions -> list of action strings (Lean syntax) ------------------
    def callee(self, n):
        c = n["inner"][0]
        while c.get("kind") in ("ImplicitCastExpr", "ParenExpr") and c.get("inner"):
            c = c["inner"][0]
        return c.get("referencedDecl", {}).get("name", "") if c.get("kind") == "DeclRefExpr" else ""

    def based_on_owner(self, n):
        while n.get("kind") in ("ImplicitCastExpr", "ParenExpr", "CStyleCastExpr", "MemberExpr", "ArraySubscriptExpr") \
                and n.get("inner"):
            n = n["inner"][0]
        return n.get("kind") == "DeclRefExpr" and n.get("referencedDecl", {}).get("name") == self.owner

    def mentions_member(self, n, name):
        if n.get("kind") == "MemberExpr" and n.get("name") == name:
            return True
        return any(self.mentions_member(c, name) for c in n.get("inner", []))

    def expr(self, n, write=False, addr=False):
        sp = self.spec
        k = n.get("kind")
        if k == "CallExpr":
            name = self.callee(n)
            args = n["inner"][1:]
            if name == sp["lock"][0] or name == sp["unlock"][0]:
                which = sp["lock"] if name == sp["lock"][0] else sp["unlock"]
                if not any(self.mentions_member(a, which[1]) for a in args):
                    raise X.TieBroken(self.site, "%s() on something else than ->%s" % (name, which[1]))
                return [".lock" if name == sp["lock"][0] else ".unlock"]
            if sp["wait"] and name == sp["wait"]:
                return [".wait"]
            if sp["set"] and name == sp["set"]:
                return [".set"]
            out = []
            for a in args:
                out += self.expr(a)
            return out
        if k == "MemberExpr":
            name = n.get("name")
            base = n["inner"][0] if n.get("inner") else {}
            if not self.based_on_owner(base):
                # a member of some other structure (e.g. `stats->capacity`): not shared state of this module
                return self.expr(base) if base else []
            if name in sp["shared"]:
                if addr:
                    return []
                return ['.wr "%s"' % name] if write else ['.rd "%s"' % name]
            if name in sp["immutable"]:
                return ['.wrImm "%s"' % name] if write else []
            # a member of something reached through a shared member (ring[i].key): the access is to the shared one
            return self.expr(base, write, addr) if base else []
        if k == "ArraySubscriptExpr":
            return self.expr(n["inner"][1]) + self.expr(n["inner"][0], write, addr)
        if k == "DeclRefExpr":
            v = n.get("referencedDecl", {}).get("name", "")
            if v in self.alias:
                return ['.wr "%s"' % self.alias[v]] if write else ['.rd "%s"' % self.alias[v]]
            return []
        if k == "BinaryOperator" or k == "CompoundAssignOperator":
            op = n.get("opcode", "")
            if op in ASSIGN_OPS:
                lhs, rhs = n["inner"]
                out = self.expr(rhs)
                if op != "=":
                    out += self.expr(lhs)
                return out + self.expr(lhs, write=True)
            return self.expr(n["inner"][0]) + self.expr(n["inner"][1])
        if k == "UnaryOperator":
            op = n.get("opcode", "")
            if op in ("++", "--"):
                return self.expr(n["inner"][0]) + self.expr(n["inner"][0], write=True)
            if op == "&":
                return self.expr(n["inner"][0], addr=True)
            return self.expr(n["inner"][0], write, False)
        out = []
        for c in n.get("inner", []):
            out += self.expr(c, write if k in ("ImplicitCastExpr", "ParenExpr", "CStyleCastExpr") else False,
                             addr if k in ("ImplicitCastExpr", "ParenExpr", "CStyleCastExpr") else False)
        return out

    def takes_alias(self, n):
        """does this initialiser yield a pointer into a shared region?  -> region name"""
        k = n.get("kind")
        if k == "CallExpr" and self.callee(n) in self.spec["alias_calls"]:
            return self.spec["alias_calls"][self.callee(n)]
        if k == "UnaryOperator" and n.get("opcode") == "&":
            for m, region in self.spec["alias_members"].items():
                if self.mentions_member(n, m):
                    return region
        if k in ("ImplicitCastExpr", "ParenExpr", "CStyleCastExpr") and n.get("inner"):
            return self.takes_alias(n["inner"][0])
        return None

    # ---- statements -> Lean term of type LStmt ----------------------------------
    @staticmethod
    def acts(l):
        return "[" + ", ".join(l) + "]"

    def has_continue(self, n):
        if n.get("kind") == "ContinueStmt":
            return True
        if n.get("kind") in ("WhileStmt", "ForStmt", "DoStmt"):
            return False
        return any(self.has_continue(c) for c in n.get("inner", []))

    def stmt(self, n):
        k = n.get("kind")
        if k == "CompoundStmt":
            parts = [self.stmt(c) for c in n.get("inner", [])]
            parts = [p for p in parts if p != "(.acts [])"]
            if not parts:
                return "(.acts [])"
            t = parts[-1]
            for p in reversed(parts[:-1]):
                t = "(.seq %s %s)" % (p, t)
            return t
        if k == "IfStmt":
            inner = n["inner"]
            c = self.expr(inner[0])
            t = self.stmt(inner[1])
            e = self.stmt(inner[2]) if len(inner) > 2 else "(.acts [])"
            return "(.ite %s %s %s)" % (self.acts(c), t, e)
        if k == "WhileStmt":
            return "(.loop %s %s)" % (self.acts(self.expr(n["inner"][0])), self.stmt(n["inner"][1]))
        if k == "ForStmt":
            inner = n["inner"]           # init, (condition variable), cond, inc, body
            init, cond, inc, body = inner[0], inner[2], inner[3], inner[4]
            ia = self.stmt(init) if init.get("kind") else "(.acts [])"
            ca = self.expr(cond) if cond.get("kind") else []
            inca = self.expr(inc) if inc.get("kind") else []
            if inca and self.has_continue(body):
                raise X.TieBroken(self.site, "`continue` inside a for whose increment touches shared state")
            b = self.stmt(body)
            if inca:
                b = "(.seq %s (.acts %s))" % (b, self.acts(inca))
            return "(.seq %s (.loop %s %s))" % (ia, self.acts(ca), b)
        if k == "ReturnStmt":
            a = []
            for c in n.get("inner", []):
                a += self.expr(c)
            return "(.ret %s)" % self.acts(a)
        if k == "ContinueStmt":
            return ".cont"
        if k == "BreakStmt":
            return ".brk"
        if k == "NullStmt":
            return "(.acts [])"
        if k == "DeclStmt":
            a = []
            for v in n.get("inner", []):
                if v.get("kind") != "VarDecl":
                    continue
                for init in v.get("inner", []):
                    a += self.expr(init)
                    region = self.takes_alias(init)
                    if region:
                        self.alias[v.get("name")] = region
            return "(.acts %s)" % self.acts(a)
        if k in ("DoStmt", "SwitchStmt", "GotoStmt", "LabelStmt", "CaseStmt", "DefaultStmt", "IndirectGotoStmt"):
            raise X.TieBroken(self.site, "statement kind %s is not handled by the lock-discipline translator" % k)
        return "(.acts %s)" % self.acts(self.expr(n))


LEAN_TYPES = '''
/-- one action of a function body that matters for the lock discipline -/
inductive LAct
  | lock | unlock                 -- the mutex that protects the shared fields
  | wait                          -- `platform_event_wait` (may sleep: must be made WITHOUT the mutex)
  | set                           -- `platform_event_set`
  | rd (f : String) | wr (f : String)      -- read / write of a shared field (or of memory it points to)
  | wrImm (f : String)            -- write of a field that is read without the mutex elsewhere (immutable after create)
  deriving Repr, DecidableEq

/-- a function body reduced to these actions, with its control flow -/
inductive LStmt
  | acts (l : List LAct)
  | seq (a b : LStmt)
  | ite (c : List LAct) (t e : LStmt)
  | loop (c : List LAct) (body : LStmt)
  | ret (c : List LAct)
  | cont
  | brk
  deriving Repr, DecidableEq
'''


def check_fields(spec):
    """the shared / immutable member names of the spec must be members of the structure the file defines: a field that
    was renamed would otherwise simply produce no accesses (the discipline would hold vacuously for it)"""
    import re
    src = open(os.path.join(E.REPO, spec["file"])).read()
    src = re.sub(r"/\*.*?\*/", " ", src, flags=re.S)
    src = re.sub(r"//[^\n]*", " ", src)
    m = re.search(r"struct\s+async_(?:queue|runtime)_s\s*\{(.*?)\n\};", src, flags=re.S)
    if not m:
        raise X.TieBroken("locks:%s:struct" % spec["key"], "definition of the shared structure not found in %s" % spec["file"])
    body = m.group(1)
    members = set(re.findall(r"([A-Za-z_]\w*)\s*(?:\[[^\]]*\])?\s*;", body))
    lockm = spec["lock"][1]
    missing = [f for f in spec["shared"] + spec["immutable"] + [lockm] if f not in members]
    if missing:
        raise X.TieBroken("locks:%s:fields" % spec["key"],
                          "member(s) %s not found in the structure of %s (renamed? the spec in props/c19_extract.py "
                          "lists the fields the mutex protects)" % (", ".join(missing), spec["file"]))
    # a member the spec does not classify: report it, the discipline says nothing about it
    known = set(spec["shared"] + spec["immutable"] + [lockm] + spec.get("other", []))
    return sorted(members - known)


def gen_locks(bdir):
    """Lean text: the types and `lockedFunctions : List (String × LStmt)`"""
    out = [LEAN_TYPES]
    names = []
    unclassified = []
    for spec in SPECS:
        unclassified += ["%s.%s" % (spec["key"], f) for f in check_fields(spec)]
    out.append("/-- members of the three structures that the lock-discipline spec does not classify (neither protected by the\n"
               "    mutex nor immutable after create): synchronisation objects, fields used by the backend thread only -/\n"
               "def lockUnclassifiedMembers : List String := [" + ", ".join('"%s"' % u for u in unclassified) + "]")
    for spec in SPECS:
        for fn in functions_of(spec):
            ast, owner = _ast(bdir, spec, fn)
            f = _Fn(spec, fn, owner)
            body = f.stmt(ast)
            nm = "lk_%s_%s" % (spec["key"], fn)
            out.append("/-- C: `%s` (%s), from the clang AST -/\ndef %s : LStmt :=\n  %s" % (fn, spec["file"], nm, body))
            names.append('("%s:%s", %s)' % (spec["key"], fn, nm))
    missing = [a for a in ANCHORS if not any(('"%s"' % a) in n for n in names)]
    if missing:
        raise X.TieBroken("locks:inventory", "anchor function(s) not found: %s" % ", ".join(missing))
    out.append("/-- every function that touches the shared state of async_queue / of the completion rings -/\n"
               "def lockedFunctions : List (String × LStmt) :=\n  [" + ",\n   ".join(names) + "]")
    return "\n".join(out)
